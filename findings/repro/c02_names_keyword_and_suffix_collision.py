from migen import *
from litex.gen.fhdl.verilog import convert
class M(Module):
    def __init__(self):
        a = Signal(name_override="x"); b = Signal(name_override="x"); c = Signal(name_override="x_1")
        r = Signal(name_override="repeat"); u = Signal(name_override="always")
        o = Signal(5, name_override="o")
        self.clock_domains.cd_sys = ClockDomain("sys")
        self.io = {o, self.cd_sys.clk, self.cd_sys.rst}
        self.sync += [a.eq(~a), b.eq(a ^ b), c.eq(b ^ c ^ a), r.eq(~r), u.eq(~u)]
        self.comb += o.eq(Cat(a, b, c, r, u))
m = M()
out = convert(m, ios=m.io)
import re
for l in str(out).splitlines():
    if re.match(r"^(reg|wire)", l): print(l)
