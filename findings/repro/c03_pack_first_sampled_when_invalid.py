from migen import *
from litex.gen import *
from litex.soc.interconnect import stream
dut = stream.Pack([("data", 8)], 2)
log = []
def gen():
    # tokens: (valid, data, first, last)
    seq = [(1,1,1,0),(1,2,0,0),(0,0x55,1,1),(0,0x55,1,1),(1,3,0,0),(1,4,0,1),(0,0,0,0),(0,0,0,0),(0,0,0,0)]
    for v,d,f,l in seq:
        yield dut.sink.valid.eq(v); yield dut.sink.data.eq(d); yield dut.sink.first.eq(f); yield dut.sink.last.eq(l)
        yield
        if v:
            while not (yield dut.sink.ready): yield
    for _ in range(5): yield
@passive
def mon():
    yield dut.source.ready.eq(1)
    while True:
        if (yield dut.source.valid) and (yield dut.source.ready):
            log.append((hex((yield dut.source.payload.raw_bits())), "first=%d"%(yield dut.source.first), "last=%d"%(yield dut.source.last)))
        yield
run_simulation(dut, [gen(), mon()])
for l in log: print(l)
