from migen import *
from litex.gen import *
from litex.soc.interconnect import stream
# StrideConverter up 8->16 with a param
d_from = stream.EndpointDescription([("data", 8)], [("tag", 8)])
d_to   = stream.EndpointDescription([("data", 16)], [("tag", 8)])
dut = stream.StrideConverter(d_from, d_to)
log = []
def gen():
    seq = [(1,0xA),(2,0xA),(3,0xB),(4,0xB)]
    for d,t in seq:
        yield dut.sink.valid.eq(1); yield dut.sink.data.eq(d); yield dut.sink.tag.eq(t)
        yield
        while not (yield dut.sink.ready): yield
    yield dut.sink.valid.eq(0)
    for _ in range(10): yield
@passive
def mon():
    while True:
        log.append(((yield dut.source.valid), (yield dut.source.ready), hex((yield dut.source.data)), hex((yield dut.source.tag))))
        yield
@passive
def cons():
    for _ in range(8): yield
    yield dut.source.ready.eq(1)
    while True: yield
run_simulation(dut, [gen(), cons(), mon()])
for l in log: print(l)
