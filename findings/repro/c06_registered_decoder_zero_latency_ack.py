from migen import *
from litex.gen import *
from litex.soc.interconnect import wishbone
class D(Module):
    def __init__(self, register):
        self.m = wishbone.Interface(32, adr_width=30); self.s0 = wishbone.Interface(32, adr_width=30); self.s1 = wishbone.Interface(32, adr_width=30)
        self.submodules.dec = wishbone.Decoder(self.m, [(lambda a: a[10:] == 0, self.s0), (lambda a: a[10:] == 1, self.s1)], register=register)
        for s, v in [(self.s0, 0xAAAA0000), (self.s1, 0xBBBB1111)]:
            self.comb += [s.ack.eq(s.cyc & s.stb), s.dat_r.eq(v)]
for reg in (False, True):
    d = D(reg); out=[]
    def g():
        out.append(hex((yield from d.m.read(0x000))))
        out.append(hex((yield from d.m.read(0x400))))
        out.append(hex((yield from d.m.read(0x000))))
    run_simulation(d, g())
    print("register=%s reads s0,s1,s0 ->" % reg, out)
