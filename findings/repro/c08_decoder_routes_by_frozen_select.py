from migen import *
from litex.gen import *
from litex.soc.interconnect.axi import *
m = AXILiteInterface(32, 32)
s0 = AXILiteInterface(32, 32); s1 = AXILiteInterface(32, 32)
dec = AXILiteDecoder(m, [(lambda a: a[10:] == 0, s0), (lambda a: a[10:] == 1, s1)])
seen = {0: [], 1: []}
def master():
    for addr in [0x000, 0x1000]:
        yield m.ar.valid.eq(1); yield m.ar.addr.eq(addr)
        yield
        while not (yield m.ar.ready): yield
    yield m.ar.valid.eq(0)
    yield m.r.ready.eq(1)
    for _ in range(30): yield
def slave(s, idx):
    @passive
    def g():
        yield s.ar.ready.eq(1)
        pend = 0
        t = 0
        while True:
            if (yield s.ar.valid) and (yield s.ar.ready):
                seen[idx].append(hex((yield s.ar.addr)))
            yield
    return g()
run_simulation(dec, [master(), slave(s0,0), slave(s1,1)])
print(seen)
