from migen import *
from litex.gen import *
from litex.soc.interconnect.axi import *
# AXI2AXILite, single-beat write; AXI-Lite slave accepts W immediately but AW only after 6 cycles (legal).
class E(Module):
    def __init__(self):
        self.ax = AXIInterface(32, 32); self.al = AXILiteInterface(32, 32)
        self.submodules.b = AXI2AXILite(self.ax, self.al)
e = E(); ev=[]
def master():
    yield e.ax.aw.valid.eq(1); yield e.ax.aw.addr.eq(0x40); yield e.ax.aw.len.eq(0); yield e.ax.aw.size.eq(2); yield e.ax.aw.burst.eq(1)
    yield e.ax.w.valid.eq(1); yield e.ax.w.data.eq(0x1234); yield e.ax.w.strb.eq(0xf); yield e.ax.w.last.eq(1); yield e.ax.b.ready.eq(1)
    aw=w=False
    for c in range(40):
        yield
        if not aw and (yield e.ax.aw.ready): aw=True; yield e.ax.aw.valid.eq(0)
        if not w and (yield e.ax.w.ready): w=True; yield e.ax.w.valid.eq(0)
        if (yield e.ax.b.valid): ev.append("cycle %d: master got B resp=%d" % (c,(yield e.ax.b.resp))); break
    for _ in range(10): yield
@passive
def slave():
    yield e.al.w.ready.eq(1)
    c=0
    while True:
        if c == 12: yield e.al.aw.ready.eq(1)
        if (yield e.al.aw.valid) and (yield e.al.aw.ready): ev.append("cycle %d: lite slave accepted AW addr=%x"%(c,(yield e.al.aw.addr)))
        if (yield e.al.w.valid) and (yield e.al.w.ready): ev.append("cycle %d: lite slave accepted W data=%x"%(c,(yield e.al.w.data)))
        prev=(yield e.al.aw.valid)
        yield; c+=1
@passive
def mon():
    last=0;c=0
    while True:
        v=(yield e.al.aw.valid); r=(yield e.al.aw.ready)
        if last and not v and not lastr: ev.append("cycle %d: lite aw.valid WITHDRAWN without ready"%c)
        last=v; lastr=r
        yield; c+=1
run_simulation(e, [master(), slave(), mon()])
print("\n".join(ev))
