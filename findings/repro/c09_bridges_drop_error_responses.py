from migen import *
from litex.gen import *
from litex.soc.interconnect import wishbone
from litex.soc.interconnect.axi import *
# AXILite2Wishbone: wishbone slave answers with ack+err -> does master see an error?
class D(Module):
    def __init__(self):
        self.al = AXILiteInterface(32, 32); self.wb = wishbone.Interface(32, adr_width=30)
        self.submodules.b = AXILite2Wishbone(self.al, self.wb)
        # slave: always ack with err one cycle after stb
        self.sync += [self.wb.ack.eq(self.wb.stb & self.wb.cyc & ~self.wb.ack), self.wb.err.eq(self.wb.stb & self.wb.cyc & ~self.wb.ack)]
d = D(); res = {}
def g():
    res["read"] = (yield from d.al.read(0x10))
    res["write"] = (yield from d.al.write(0x10, 5))
run_simulation(d, g())
print("AXILite2Wishbone with erroring wishbone slave:", res, "(resp 0=OKAY, 2=SLVERR)")
# AXI2AXILite: axi-lite slave answers SLVERR
class E(Module):
    def __init__(self):
        self.ax = AXIInterface(32, 32); self.al = AXILiteInterface(32, 32)
        self.submodules.b = AXI2AXILite(self.ax, self.al)
        self.comb += [self.al.ar.ready.eq(1), self.al.r.valid.eq(1), self.al.r.resp.eq(RESP_SLVERR), self.al.r.data.eq(0xdead)]
e = E(); out = []
def g2():
    yield e.ax.ar.valid.eq(1); yield e.ax.ar.addr.eq(0x20); yield e.ax.ar.len.eq(0); yield e.ax.ar.size.eq(2); yield e.ax.ar.burst.eq(1)
    yield
    while not (yield e.ax.ar.ready): yield
    yield e.ax.ar.valid.eq(0); yield e.ax.r.ready.eq(1)
    for _ in range(20):
        if (yield e.ax.r.valid): out.append(((yield e.ax.r.resp), hex((yield e.ax.r.data)))); break
        yield
run_simulation(e, g2())
print("AXI2AXILite with SLVERR lite slave: (resp,data) =", out)
