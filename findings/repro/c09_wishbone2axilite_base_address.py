from migen import *
from litex.gen import *
from litex.soc.interconnect import wishbone
from litex.soc.interconnect.axi import *
class D(Module):
    def __init__(self):
        self.wb = wishbone.Interface(64, adr_width=29); self.al = AXILiteInterface(64, 32)
        self.submodules.b = Wishbone2AXILite(self.wb, self.al, base_address=0x1000)
        self.comb += self.al.ar.ready.eq(1)
d=D(); seen=[]
def g():
    yield d.wb.adr.eq(0x1000//8 + 5); yield d.wb.cyc.eq(1); yield d.wb.stb.eq(1); yield d.wb.we.eq(0)
    for _ in range(6):
        yield
        if (yield d.al.ar.valid): seen.append(hex((yield d.al.ar.addr))); break
run_simulation(d, g())
print("wishbone word adr 0x205 (byte 0x1028), base 0x1000 -> axi addr", seen, "expected 0x28")
