from migen import *
from litex.gen import *
from litex.soc.interconnect.axi import *
class D(Module):
    def __init__(self):
        self.m = AXIInterface(64, 32, id_width=4); self.s = AXIInterface(32, 32, id_width=4)
        self.submodules.c = AXIDownConverter(self.m, self.s)
d = D(); log=[]
def slave():
    # present two narrow beats id=1 (forming one 64-bit word), then beats with id=2
    beats = [(0x11,1,0),(0x22,1,1),(0x33,2,0),(0x44,2,1)]
    for data,i,last in beats:
        yield d.s.r.valid.eq(1); yield d.s.r.data.eq(data); yield d.s.r.id.eq(i); yield d.s.r.last.eq(last)
        yield
        while not (yield d.s.r.ready): yield
    yield d.s.r.valid.eq(0)
    for _ in range(5): yield
@passive
def mon():
    while True:
        log.append(("valid=%d ready=%d data=%x id=%d" % ((yield d.m.r.valid),(yield d.m.r.ready),(yield d.m.r.data),(yield d.m.r.id))))
        yield
@passive
def master():
    for _ in range(8): yield
    yield d.m.r.ready.eq(1)
    while True: yield
run_simulation(d, [slave(), mon(), master()])
print("\n".join(log))
