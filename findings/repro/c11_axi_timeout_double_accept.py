#!/usr/bin/env python3
# C11 known finding: AXITimeout / AXILiteTimeout answer a request on the wires the slave is connected to; a slave whose ready
# arrives in the first cycle of the watchdog's own answer (latency == timeout) accepts the request too: the master gets two
# responses (SLVERR from the watchdog, then the slave's).  Derived from seeded/C11-2/demo.py with the latency fixed to TIMEOUT.
# exit 1 = double response observed (today), exit 0 = exactly one response.
#
# Two masters / two slaves on an AXIInterconnectShared with a small timeout. Master 0 issues one
# single-beat read (resp. write) to slave 1. Slave 1 raises ar.ready (resp. aw.ready/w.ready) after
# a programmable latency L, then answers OKAY with its own data. L is swept over a window around
# the timeout value so that one of the runs has the slave accepting the request in exactly the
# cycle where the watchdog's `done` goes high.
#
# Checked for every L (this is just the property statement):
#   - if the slave accepted the request before/at the expiry cycle and no error pulse was emitted,
#     the master gets exactly ONE response and it is the slave's (OKAY + slave data);
#   - if the watchdog fired (error pulse) the slave must not ALSO have been handed the request
#     in/before the expiry cycle: a request is either answered by the slave or by the watchdog,
#     never by both (no spurious SLVERR for a request that was answered in time, no stray second
#     response left on the bus);
#   - after that, a second request from the OTHER master to the healthy slave 0 completes with
#     OKAY and slave 0's data.

import sys

from migen import *

from litex.soc.interconnect.axi import *
from litex.soc.interconnect.axi.axi_full import AXIInterconnectShared

TIMEOUT    = 8
SLAVE_DATA = [0xcafe0000, 0x5a5a1234]
RUN_CYCLES = 80


def decoder(i):
    # Address given to decoders is the word address (addr[2:]).
    return lambda a: a[10:14] == i


class DUT(Module):
    def __init__(self):
        self.masters = [AXIInterface(data_width=32, address_width=32, name="m%d" % i) for i in range(2)]
        self.slaves  = [AXIInterface(data_width=32, address_width=32, name="s%d" % i) for i in range(2)]
        self.submodules.ic = AXIInterconnectShared(
            masters        = self.masters,
            slaves         = [(decoder(i), s) for i, s in enumerate(self.slaves)],
            timeout_cycles = TIMEOUT,
        )


def slave_addr(i):
    return i << 12


class Log:
    def __init__(self):
        self.m_resps     = {0: [], 1: []}  # master n -> [(cycle, resp, data)]
        self.s_accepts   = {0: [], 1: []}  # slave n  -> [cycle of request handshake]
        self.errors      = []              # cycles with error pulse
        self.cycle       = 0


def cycle_counter(log):
    while True:
        yield
        log.cycle += 1


def error_monitor(dut, log):
    while True:
        if (yield dut.ic.timeout.error):
            log.errors.append(log.cycle)
        yield


# Master side ---------------------------------------------------------------------------------------

def master_read(axi, n, addr, log, start=0):
    for _ in range(start):
        yield
    yield axi.ar.valid.eq(1)
    yield axi.ar.addr.eq(addr)
    yield axi.ar.len.eq(0)
    yield axi.ar.size.eq(2)
    yield axi.ar.burst.eq(1)
    yield axi.r.ready.eq(1)
    yield
    ar_done = False
    while True:
        if not ar_done and (yield axi.ar.valid) and (yield axi.ar.ready):
            ar_done = True
            yield axi.ar.valid.eq(0)
        if (yield axi.r.valid) and (yield axi.r.ready):
            log.m_resps[n].append((log.cycle, (yield axi.r.resp), (yield axi.r.data)))
        yield


def master_write(axi, n, addr, data, log, start=0):
    for _ in range(start):
        yield
    yield axi.aw.valid.eq(1)
    yield axi.aw.addr.eq(addr)
    yield axi.aw.len.eq(0)
    yield axi.aw.size.eq(2)
    yield axi.aw.burst.eq(1)
    yield axi.w.valid.eq(1)
    yield axi.w.data.eq(data)
    yield axi.w.strb.eq(0xf)
    yield axi.w.last.eq(1)
    yield axi.b.ready.eq(1)
    yield
    aw_done = False
    w_done  = False
    while True:
        if not aw_done and (yield axi.aw.valid) and (yield axi.aw.ready):
            aw_done = True
            yield axi.aw.valid.eq(0)
        if not w_done and (yield axi.w.valid) and (yield axi.w.ready):
            w_done = True
            yield axi.w.valid.eq(0)
        if (yield axi.b.valid) and (yield axi.b.ready):
            log.m_resps[n].append((log.cycle, (yield axi.b.resp), None))
        yield


# Slave side ----------------------------------------------------------------------------------------

def slave_read(axi, n, latency, log):
    # Wait for a request, raise ar.ready `latency` cycles later, answer two cycles after accepting.
    while not (yield axi.ar.valid):
        yield
    for _ in range(latency):
        yield
    yield axi.ar.ready.eq(1)
    yield
    while not ((yield axi.ar.valid) and (yield axi.ar.ready)):
        yield
    log.s_accepts[n].append(log.cycle)
    yield axi.ar.ready.eq(0)
    yield
    yield
    yield axi.r.valid.eq(1)
    yield axi.r.resp.eq(RESP_OKAY)
    yield axi.r.data.eq(SLAVE_DATA[n])
    yield axi.r.last.eq(1)
    yield
    while not ((yield axi.r.valid) and (yield axi.r.ready)):
        yield
    yield axi.r.valid.eq(0)
    yield


def slave_write(axi, n, latency, log):
    while not ((yield axi.aw.valid) and (yield axi.w.valid)):
        yield
    for _ in range(latency):
        yield
    yield axi.aw.ready.eq(1)
    yield axi.w.ready.eq(1)
    yield
    while not ((yield axi.aw.valid) and (yield axi.aw.ready) and (yield axi.w.valid) and (yield axi.w.ready)):
        yield
    log.s_accepts[n].append(log.cycle)
    yield axi.aw.ready.eq(0)
    yield axi.w.ready.eq(0)
    yield
    yield
    yield axi.b.valid.eq(1)
    yield axi.b.resp.eq(RESP_OKAY)
    yield
    while not ((yield axi.b.valid) and (yield axi.b.ready)):
        yield
    yield axi.b.valid.eq(0)
    yield


# Scenario ------------------------------------------------------------------------------------------

def run(kind, latency):
    dut = DUT()
    log = Log()
    second_start = 45  # Master 1 issues its request to healthy slave 0 well after the first one.
    if kind == "read":
        gens = [
            master_read(dut.masters[0], 0, slave_addr(1), log),
            master_read(dut.masters[1], 1, slave_addr(0), log, start=second_start),
            slave_read(dut.slaves[1], 1, latency, log),
            slave_read(dut.slaves[0], 0, 1, log),
        ]
    else:
        gens = [
            master_write(dut.masters[0], 0, slave_addr(1), 0x11111111, log),
            master_write(dut.masters[1], 1, slave_addr(0), 0x22222222, log, start=second_start),
            slave_write(dut.slaves[1], 1, latency, log),
            slave_write(dut.slaves[0], 0, 1, log),
        ]
    # cycle_counter first: all generators then see the same cycle number within a cycle.
    gens = [cycle_counter(log)] + gens + [error_monitor(dut, log)]
    return dut, log, gens


def bounded(gen, log):
    # Forward a (possibly endless) simulation generator, stopping it after RUN_CYCLES cycles.
    reply = None
    try:
        while log.cycle < RUN_CYCLES:
            request = gen.send(reply)
            reply   = yield request
    except StopIteration:
        pass


def simulate(kind, latency):
    dut, log, gens = run(kind, latency)
    run_simulation(dut, [bounded(g, log) for g in gens])
    return log


def main():
    failures = []
    for kind in ["read", "write"]:
        # L < TIMEOUT : slave takes the request before / in the very cycle the timer expires.
        # L > TIMEOUT : slave is silent for too long, the watchdog has to answer.
        # L == TIMEOUT (ready raised during the first cycle of the watchdog's own answer) is left
        # out on purpose: it is not what this demonstration is about.
        for latency in [TIMEOUT]:
            log = simulate(kind, latency)
            ok_data = {"read": SLAVE_DATA, "write": [None, None]}[kind]
            m0 = [(r, d) for _, r, d in log.m_resps[0]]
            m1 = [(r, d) for _, r, d in log.m_resps[1]]
            acc1 = log.s_accepts[1]
            desc = "%-5s L=%2d: slave1 accepted@%s error@%s m0=%s m1=%s" % (
                kind, latency, acc1, log.errors,
                [(r, None if d is None else hex(d)) for r, d in m0],
                [(r, None if d is None else hex(d)) for r, d in m1])
            print(desc)
            problems = []
            # Exactly one response per master request.
            if len(m0) != 1:
                problems.append("master0 got %d responses for 1 request" % len(m0))
            if len(m1) != 1:
                problems.append("master1 got %d responses for 1 request" % len(m1))
            # Request accepted by the slave no later than the expiry cycle <=> answered in time.
            in_time = len(acc1) > 0 and (len(log.errors) == 0 or acc1[0] <= log.errors[0])
            if in_time:
                if log.errors:
                    problems.append("error pulse although slave 1 took the request in time")
                if m0[:1] != [(RESP_OKAY, ok_data[1])]:
                    problems.append("master0 did not get slave 1's OKAY answer")
            else:
                if len(log.errors) != 1:
                    problems.append("expected exactly one error pulse, got %d" % len(log.errors))
                if kind == "read" and m0[:1] != [(RESP_SLVERR, 0xffffffff)]:
                    problems.append("master0 did not get SLVERR/all-ones")
                if kind == "write" and m0[:1] != [(RESP_SLVERR, None)]:
                    problems.append("master0 did not get SLVERR")
            # The other master must be served normally by the healthy slave afterwards.
            if m1[:1] != [(RESP_OKAY, ok_data[0])]:
                problems.append("master1's later request to healthy slave 0 not completed normally")
            for p in problems:
                print("    FAIL:", p)
                failures.append((kind, latency, p))
    if failures:
        print("\n%d check(s) failed." % len(failures))
        sys.exit(1)
    print("\nAll checks passed.")


if __name__ == "__main__":
    main()
