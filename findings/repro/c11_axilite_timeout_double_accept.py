#!/usr/bin/env python3
"""C11 known finding (AXI-Lite form): with AXILiteInterconnectShared(timeout_cycles=8) a slave that raises ar.ready in the first
cycle of the watchdog RESPOND state (L == 8) accepts the read request although the master is already being answered with SLVERR.
Prints, per latency L, the responses seen by the master and the cycles in which the slave accepted; exit 1 if at L == 8 both happen."""
from migen import *
from litex.soc.interconnect.axi import *
from litex.soc.interconnect.axi.axi_lite import AXILiteInterconnectShared
T=8
class DUT(Module):
    def __init__(self):
        self.m=[AXILiteInterface(data_width=32,address_width=32,name="m0")]
        self.s=[AXILiteInterface(data_width=32,address_width=32,name="s0")]
        self.submodules.ic=AXILiteInterconnectShared(self.m,[(lambda a: a[10:14]==0, self.s[0])],timeout_cycles=T)
def run(L):
    dut=DUT(); m=dut.m[0]; s=dut.s[0]; resps=[]; acc=[]
    def master():
        yield m.ar.valid.eq(1); yield m.ar.addr.eq(0); yield m.r.ready.eq(1)
        yield
        while not (yield m.ar.ready): yield
        yield m.ar.valid.eq(0)
        for _ in range(40): yield
    def mon():
        for c in range(70):
            if (yield m.r.valid) and (yield m.r.ready): resps.append((c,(yield m.r.resp)))
            if (yield s.ar.valid) and (yield s.ar.ready): acc.append(c)
            yield
    def slave():
        seen=0
        for _ in range(70):
            if (yield s.ar.valid): seen+=1
            yield s.ar.ready.eq(1 if seen==L+1 else 0)
            if acc and not (yield s.r.valid) and len(acc)==1 and seen>L+3:
                yield s.r.valid.eq(1); yield s.r.data.eq(0x1234); yield s.r.resp.eq(0)
            if (yield s.r.valid) and (yield s.r.ready):
                yield s.r.valid.eq(0); acc.append(-1)
            yield
            seen = seen if True else 0
    run_simulation(dut,[master(),mon(),slave()])
    return resps, acc
import sys
bad = False
for L in (6,7,8,9,10):
    r,a=run(L); print("L",L,"master responses",r,"slave accepts",[x for x in a if x>=0])
    bad = bad or (L == T and bool(r) and any(x >= 0 for x in a))
sys.exit(1 if bad else 0)
