from migen import *
from litex.gen import *
from litex.soc.interconnect import wishbone
res={}
for cls in (wishbone.InterconnectShared, wishbone.Crossbar):
    class D(Module):
        def __init__(self):
            self.m = wishbone.Interface(32, adr_width=30); self.s0 = wishbone.Interface(32, adr_width=30)
            self.submodules.ic = cls([self.m], [(lambda a: a[10:] == 0, self.s0)], register=False, timeout_cycles=16)
            self.sync += self.s0.ack.eq(self.s0.cyc & self.s0.stb & ~self.s0.ack)
    d=D()
    def g():
        yield d.m.adr.eq(0x4000); yield d.m.cyc.eq(1); yield d.m.stb.eq(1)   # unmapped address
        for c in range(200):
            yield
            if (yield d.m.ack): res[cls.__name__]="terminated after %d cycles, dat_r=%x"%(c,(yield d.m.dat_r)); return
        res[cls.__name__]="NOT terminated within 200 cycles (timeout_cycles=16)"
    run_simulation(d, g())
print(res)
