from migen import *
from litex.soc.interconnect.csr import *
for ordering in ("big", "little"):
    s = CSRStorage(32, atomic_write=True, name="reg", reset=0x11223344)
    s.finalize(8, ordering)
    scs = s.get_simple_csrs()   # in address order
    obs=[]
    def g():
        # software writes the new value 0xAABBCCDD word by word in ascending address order
        val = 0xAABBCCDD
        order = [3,2,1,0] if ordering=="big" else [0,1,2,3]   # which byte sits at address k
        for k, sc in enumerate(scs):
            byte = (val >> (8*order[k])) & 0xff
            yield sc.r.eq(byte); yield sc.re.eq(1); yield
            yield sc.re.eq(0); yield
            obs.append(hex((yield s.storage)))
    run_simulation(s, g())
    print(ordering, [c.name for c in scs], obs)
