import logging
logging.disable(logging.CRITICAL)
from litex.soc.integration.soc import SoCLocHandler, SoCCSRHandler, SoCIRQHandler, SoCError
h = SoCCSRHandler()
print("n_locs", h.n_locs)
h.add("foo", n=h.n_locs)   # out of range [0, n_locs-1] but accepted
print(h.locs)
i = SoCIRQHandler(); i.enable(); i.add("bar", n=32); print(i.locs)
