# 8/32-bit CSR bus behind a 32/64-bit wishbone or AXI-Lite SoC bus, bridge built the way SoC.add_csr_bridge builds it
import sys, inspect, re
from migen import *
from litex.soc.interconnect import wishbone, csr_bus, axi
from litex.soc.interconnect.csr import *
from litex.soc.integration import soc as socmod
from litex.soc.integration.soc import SoCBusHandler, SoCCSRHandler

# the data_width expression add_csr_bridge uses for the bridge's bus side, read from the source (so that the script follows the code)
src = inspect.getsource(socmod.SoC.add_csr_bridge)
m = re.search(r"^\s*data_width = (.*)$", src, re.M)
expr = m.group(1)

class Periph(Module, AutoCSR):
    def __init__(self, w):
        for i in range(6):
            setattr(self, f"r{i}", CSRStorage(w, name=f"r{i}"))

def build(standard, bus_dw, csr_dw):
    class DUT(Module):
        def __init__(self):
            self.submodules.p = Periph(min(csr_dw, 8))
            bus = SoCBusHandler(standard=standard, data_width=bus_dw, address_width=32)
            class _S: pass
            s = _S(); s.csr = _S(); s.csr.data_width = csr_dw; s.csr.alignment = 32; s.bus = bus
            bw = eval(expr, {"self": s})
            if standard == "wishbone":
                bridge = wishbone.Wishbone2CSR(wishbone.Interface(address_width=32, data_width=bw),
                    bus_csr=csr_bus.Interface(address_width=14, data_width=csr_dw), register=False)
                side = bridge.wishbone
            else:
                bridge = axi.AXILite2CSR(axi.AXILiteInterface(address_width=32, data_width=bw),
                    bus_csr=csr_bus.Interface(address_width=14, data_width=csr_dw))
                side = bridge.axi_lite
            self.submodules.bridge = bridge
            self.m = bus.add_adapter("csr", side, direction="s2m")
            self.submodules.bus = bus
            self.submodules.bank = csr_bus.CSRBank(self.p.get_csrs(), address=0, bus=csr_bus.Interface(data_width=csr_dw, address_width=14))
            self.submodules.ic = csr_bus.InterconnectShared([bridge.csr], [self.bank.bus])
    return DUT()

bad = 0
for standard in ("wishbone", "axi-lite"):
    for bus_dw in ((32, 64) if standard == "wishbone" else (32,)):   # the 64-bit AXI-Lite harness stalls with and without the fix (unrelated)
        for csr_dw in (8, 32):
            dut = build(standard, bus_dw, csr_dw)
            res = {}
            def gen():
                # registers k = 1 and 4 are published at byte offsets 4 and 16
                for k, v in ((1, 0xab), (4, 0x5c)):
                    byte = 4*k
                    if standard == "wishbone":
                        lane = (byte % (bus_dw//8))
                        yield from dut.m.write(byte // (bus_dw//8), v << (8*lane), sel=0xf << lane)
                    else:
                        lane = (byte % (bus_dw//8))
                        yield from dut.m.write(byte, v << (8*lane), strb=0xf << lane)
                    for i in range(6): yield
                res["r"] = []
                for i in range(6):
                    res["r"].append((yield getattr(dut.p, f"r{i}").storage))
            run_simulation(dut, gen())
            ok = res["r"] == [0, 0xab, 0, 0, 0x5c, 0]
            bad += not ok
            print(f"{standard:9s} bus {bus_dw:2d} csr {csr_dw:2d}: registers {[hex(x) for x in res['r']]} {'ok' if ok else 'WRONG'}")
sys.exit(1 if bad else 0)
