from migen import *
from litex.soc.interconnect import wishbone, csr_bus
from litex.soc.interconnect.csr import *

class Periph(Module, AutoCSR):
    def __init__(self):
        self.reg = CSRStorage(8, name="reg")

class DUT(Module):
    def __init__(self, register):
        self.submodules.p = Periph()
        self.wa = wishbone.Interface(data_width=32, adr_width=30)
        self.wb = wishbone.Interface(data_width=32, adr_width=30)
        ca = csr_bus.Interface(data_width=32, address_width=14)
        cb = csr_bus.Interface(data_width=32, address_width=14)
        self.submodules.a = wishbone.Wishbone2CSR(self.wa, ca, register=register)
        self.submodules.b = wishbone.Wishbone2CSR(self.wb, cb, register=register)
        self.submodules.bank = csr_bus.CSRBank(self.p.get_csrs(), address=0, bus=csr_bus.Interface(data_width=32, address_width=14))
        self.submodules.ic = csr_bus.InterconnectShared([ca, cb], [self.bank.bus])

for register in (True, False):
    dut = DUT(register)
    res = {}
    def gen():
        # master A idle but its wishbone data lines carry 0xf0 (e.g. CPU writing elsewhere)
        yield dut.wa.dat_w.eq(0xf0)
        yield
        yield from dut.wb.write(0, 0x01)
        yield
        yield
        res["v"] = (yield dut.p.reg.storage)
    run_simulation(dut, gen())
    print("register", register, "storage = 0x%02x (written 0x01)" % res["v"])
