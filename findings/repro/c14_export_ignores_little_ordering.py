import re
from migen import *
from litex.soc.interconnect.csr import *
from litex.soc.interconnect import csr_bus
from litex.soc.integration.soc import SoCCSRRegion
from litex.soc.integration import export
for ordering in ("big","little"):
    reg = CSRStorage(32, name="reg", reset=0xAABBCCDD)
    bank = csr_bus.CSRBank([reg], address=0, bus=csr_bus.Interface(data_width=8), ordering=ordering)
    # hardware: read the 4 words at word addresses 0..3 through the CSR bus
    words=[]
    def g():
        for a in range(4):
            yield bank.bus.adr.eq(a); yield bank.bus.re.eq(1); yield; yield bank.bus.re.eq(0); yield
            words.append((yield bank.bus.dat_r))
    run_simulation(bank, g())
    # software: what the generated accessor composes from those words (MSW first at the lowest address)
    hdr = export.get_csr_header({"x": SoCCSRRegion(0, 8, [reg])}, {"CONFIG_CSR_ALIGNMENT": 32}, with_csr_base_define=False)
    body = re.search(r"x_reg_read\(void\) \{(.*?)\n\}", hdr, re.S).group(1)
    r=0
    for i,w in enumerate(words):   # emulate: r = w0; r <<= 8; r |= w1 ...
        r = (r<<8)|w if i else w
    print(ordering, "bus words @0,4,8,12 =", [hex(w) for w in words], "-> accessor value", hex(r), "(register holds 0xaabbccdd)")
