#!/usr/bin/env python3
"""C16: a header field whose width is above 8 bits and not a whole number of bytes (here 12 and 20 bits) does not survive
Packetizer -> Depacketizer with swap_field_bytes=True (the default): reverse_bytes() of such a width is not its own inverse
(it moves the short top chunk to the bottom, so applying it twice rotates instead of restoring).
Exit 1 if a field comes back different from what was sent."""
import sys
from migen import *
from litex.soc.interconnect.stream import EndpointDescription
from litex.soc.interconnect.packet import Header, HeaderField, Packetizer, Depacketizer

fields = {"vid": HeaderField(0, 0, 12), "pcp": HeaderField(1, 4, 4), "label": HeaderField(2, 0, 20), "tc": HeaderField(4, 4, 4), "len": HeaderField(5, 0, 16)}
header = Header(fields, 7, swap_field_bytes=("noswap" not in sys.argv))

class DUT(Module):
    def __init__(self, dw):
        pd = EndpointDescription([("data", dw)], header.get_layout())
        rd = EndpointDescription([("data", dw)])
        self.submodules.p = Packetizer(pd, rd, header)
        self.submodules.d = Depacketizer(rd, pd, header)
        self.comb += self.p.source.connect(self.d.sink)
        self.sink, self.source = self.p.sink, self.d.source

def run(dw):
    dut = DUT(dw)
    sent = {"vid": 0xabc, "pcp": 0x5, "label": 0x12345, "tc": 0x9, "len": 0xbeef}
    got = {}
    def gen():
        for k, v in sent.items():
            yield getattr(dut.sink, k).eq(v)
        yield dut.sink.data.eq(0x5a)
        yield dut.sink.last.eq(1)
        yield dut.sink.valid.eq(1)
        yield
        while not (yield dut.sink.ready):
            yield
        yield dut.sink.valid.eq(0)
        for _ in range(40):
            yield
    def chk():
        yield dut.source.ready.eq(1)
        for _ in range(80):
            if (yield dut.source.valid) and not got:
                for k in sent:
                    got[k] = (yield getattr(dut.source, k))
            yield
    run_simulation(dut, [gen(), chk()], clocks={"sys": 10})
    return sent, got

bad = 0
for dw in (8, 32):
    sent, got = run(dw)
    for k in sent:
        if got.get(k) != sent[k]:
            bad += 1
            print(f"dw={dw}: field {k} ({fields[k].width} bits) sent {sent[k]:#x}, received {got.get(k, 0):#x}")
print("FAIL" if bad else "PASS")
sys.exit(1 if bad else 0)
