from migen import *
from litex.gen import *
from litex.soc.interconnect import stream, packet
lay = stream.EndpointDescription([("data", 8)], [("tag", 8)])
dut = packet.PacketFIFO(lay, payload_depth=8, param_depth=8, buffered=False)
got = []
def mk(n, tag, base): return [(base+i, int(i==n-1), tag) for i in range(n)]
beats = mk(4,0xA,0x10)+mk(5,0xB,0x20)+mk(2,0xC,0x30)
def gen():
    for d,l,t in beats:
        yield dut.sink.valid.eq(1); yield dut.sink.data.eq(d); yield dut.sink.last.eq(l); yield dut.sink.tag.eq(t)
        yield
        while not (yield dut.sink.ready): yield
    yield dut.sink.valid.eq(0)
    for _ in range(60): yield
@passive
def mon():
    while True:
        if (yield dut.source.valid) and (yield dut.source.ready):
            got.append((hex((yield dut.source.data)), (yield dut.source.last), hex((yield dut.source.tag))))
        yield
@passive
def cons():
    for _ in range(25): yield
    yield dut.source.ready.eq(1)
    while True: yield
run_simulation(dut, [gen(), cons(), mon()])
print(len(got)); print(got)
