#!/usr/bin/env python3
"""C16: the unaligned-header path of Packetizer lost / tore packets.

`If(source.ready, sink_d.eq(sink))` loaded the realignment register every cycle the consumer was ready, whether or not a beat
was accepted: (1) an idle input cycle overwrote the residue bytes of the previous beat with whatever was on the idle data lines;
(2) a one-beat payload (first word already carries `last`) was seen as "last already stored" on the first data beat, the word was
never accepted and the same truncated packet was emitted for ever; (3) a `last` left in the register started the next packet
terminated.

The script drives the real Packetizer (14-byte header, 32- and 64-bit data) with payloads of 1..5 beats, idle cycles with
garbage on data/last, and consumer stalls, and compares the emitted bytes with the header definition + payload.
Exit 0 = every packet is emitted exactly; exit 1 = corrupted / torn / stuck."""
import random
import sys
from migen import *
from litex.soc.interconnect.stream import EndpointDescription
from litex.soc.interconnect.packet import Header, HeaderField, Packetizer

fields = {"tag": HeaderField(0, 0, 8), "port": HeaderField(1, 0, 16), "ident": HeaderField(3, 0, 24), "addr": HeaderField(6, 0, 64)}
HLEN = 14
header = Header(fields, HLEN, swap_field_bytes=True)


def header_bytes(v):
    b = [0] * HLEN
    for name, f in fields.items():
        n = f.width // 8
        for i in range(n):
            b[f.byte + i] = (v[name] >> (8 * (n - 1 - i))) & 0xff
    return b


def run(dw, lens, seed, idle, stall):
    pp, sch = random.Random(seed), random.Random(seed + 77)
    bpc = dw // 8
    dut = Packetizer(EndpointDescription([("data", dw)], header.get_layout()), EndpointDescription([("data", dw)]), header)
    pkts = []
    for n in lens:
        vals = {k: pp.randrange(2 ** f.width) for k, f in fields.items()}
        pkts.append((vals, [pp.randrange(2 ** dw) for _ in range(n)]))
    out, state = [], {"stuck": False}

    def driver():
        for vals, words in pkts:
            for i, w in enumerate(words):
                while sch.randrange(100) < idle:
                    yield dut.sink.valid.eq(0)
                    yield dut.sink.data.eq(sch.randrange(2 ** dw))
                    yield dut.sink.last.eq(sch.randrange(2))
                    yield
                yield dut.sink.valid.eq(1)
                yield dut.sink.data.eq(w)
                yield dut.sink.last.eq(i == len(words) - 1)
                for k, v in vals.items():
                    yield getattr(dut.sink, k).eq(v)
                yield
                t = 0
                while not (yield dut.sink.ready):
                    yield
                    t += 1
                    if t > 300:
                        state["stuck"] = True
                        return
            yield dut.sink.valid.eq(0)
            yield dut.sink.data.eq(sch.randrange(2 ** dw))
            yield dut.sink.last.eq(sch.randrange(2))
        for _ in range(60):
            yield

    def monitor():
        cur = []
        for _ in range(400 * len(lens) + 400):
            yield dut.source.ready.eq(0 if sch.randrange(100) < stall else 1)
            yield
            if (yield dut.source.valid) and (yield dut.source.ready):
                cur.append((yield dut.source.data))
                if (yield dut.source.last):
                    out.append(cur)
                    cur = []
        if cur:
            out.append(cur)

    run_simulation(dut, [driver(), monitor()])
    problems = []
    if state["stuck"]:
        problems.append("a payload word was never accepted")
    if len(out) != len(pkts):
        problems.append(f"{len(pkts)} packets in, {len(out)} out")
    for (vals, words), beats in zip(pkts, out):
        want = header_bytes(vals) + [b for w in words for b in w.to_bytes(bpc, "little")]
        got = [b for w in beats for b in w.to_bytes(bpc, "little")]
        if len(beats) != (len(want) + bpc - 1) // bpc or got[:len(want)] != want:
            problems.append(f"payload of {len(words)} beat(s) emitted wrong")
            break
    return problems


bad = 0
for dw in (32, 64):
    for lens in ([1], [1, 1, 3], [2, 5, 1, 4], [3, 3, 3]):
        for idle, stall in ((0, 0), (40, 0), (0, 40), (40, 40)):
            for seed in range(3):
                pr = run(dw, lens, seed, idle, stall)
                if pr:
                    bad += 1
                    if bad <= 8:
                        print(f"FAIL dw={dw} payload beats={lens} idle={idle}% stall={stall}% seed={seed}: {'; '.join(pr)}")
print("FAILED scenarios:" if bad else "all scenarios OK", bad if bad else "")
sys.exit(1 if bad else 0)
