#!/usr/bin/env python3
"""C20: ECP5PLL.compute_config refused satisfiable 4-output requests.

`not config["clkfb"]` is true for feedback output index 0, so with all nclkouts_max outputs in use every candidate whose
only feedback-capable output is CLKOP was rejected.  25 MHz in, 50/20/10/30 MHz out has the setting
clki_div=1, clkfb_div=2, VCO 600 MHz, dividers 12/30/60/20 with CLKOP as feedback -- before the fix: "No PLL config found".

Run: /venv/bin/python findings/repro/c20_ecp5_feedback_output0_rejected.py   (exit 0 = request is served and the
configuration recomputes to the requested frequencies; exit 1 = refused)."""
import logging
import sys
logging.disable(logging.CRITICAL)
from migen import Signal, ClockDomain
from litex.soc.cores.clock.lattice_ecp5 import ECP5PLL

pll = ECP5PLL()
pll.register_clkin(Signal(name="clkin"), 25e6)
req = [50e6, 20e6, 10e6, 30e6]
for i, f in enumerate(req):
    pll.create_clkout(ClockDomain(f"cd{i}"), f, margin=0, with_reset=False)
try:
    c = pll.compute_config()
except ValueError as e:
    print("REFUSED:", e)
    sys.exit(1)
fb = c["clkfb"]
vco = 25e6 / c["clki_div"] * c["clkfb_div"] * c[f"clko{fb}_div"]
assert 400e6 <= vco <= 800e6, vco
for i, f in enumerate(req):
    assert abs(vco / c[f"clko{i}_div"] - f) < 1e-3, (i, vco / c[f"clko{i}_div"], f)
print("served:", {k: v for k, v in c.items() if "div" in k or k == "clkfb"}, "vco", vco)
