"""C20/G4: GW1NPLL.compute_config accepts a secondary output whose error exceeds f*margin.

The per-output check is `diff_f > r_freq*margin` (relative to the *obtained* frequency), so an output
with f*m < |r - f| <= r*m is accepted although it misses the request by more than its stated margin.
Throw-away triage script (documentation of the finding; no registered check runs it)."""
from migen import *
from litex.soc.cores.clock.gowin_gw1n import GW1NPLL

pll = GW1NPLL(devicename="GW1N-9C", device="GW1N-LV9QN48C6/I5")
pll.register_clkin(Signal(name="clkin"), 50e6)
cd0, cd1 = ClockDomain("a"), ClockDomain("b")
f1 = (100e6/3)/1.01005          # obtained 33.3333 MHz is 1.005 % above this request
pll.create_clkout(cd0, 100e6, margin=1e-2, with_reset=False)
pll.create_clkout(cd1, f1,    margin=1e-2, with_reset=False)
try:
    config = pll.compute_config()
except ValueError as e:
    print("refused:", e)
    print("OK (request outside margin is refused)")
    raise SystemExit(0)
out = 50e6*config["fdiv"]/config["idiv"]
r1  = out/int(100e6//f1)
err = abs(r1 - f1)
print(f"requested {f1/1e6:.6f} MHz +-1% (= {f1*1e-2/1e3:.3f} kHz), obtained {r1/1e6:.6f} MHz, error {err/1e3:.3f} kHz")
assert err <= f1*1e-2, "FAIL: returned configuration misses the request by more than its margin"
print("OK")
