from migen import *
from litex.soc.cores.clock.lattice_nx import NXOSCA
def run(hf, sdc):
    o = NXOSCA()
    if hf is not None:
        o.create_hf_clk(ClockDomain("hf"), hf)
    if sdc is not None:
        o.create_hfsdc_clk(ClockDomain("sdc"), sdc)
    try:
        o.do_finalize()
    except Exception as e:
        return f"{type(e).__name__}: {e}"
    return {k: v for k, v in o.params.items() if k.startswith("p_HF")}
bad = 0
r = run(None, 10e6)
def near(div, f): return div is not None and abs(450e6/(int(div) + 1) - f) <= f*0.05
print("only HFSDC @10 MHz:", r); bad += not (isinstance(r, dict) and near(r.get("p_HF_SED_SEC_DIV"), 10e6))
r = run(90e6, 10e6)
print("HF @90 MHz + HFSDC @10 MHz:", r); bad += not (isinstance(r, dict) and near(r.get("p_HF_CLK_DIV"), 90e6) and near(r.get("p_HF_SED_SEC_DIV"), 10e6))
raise SystemExit(1 if bad else 0)
