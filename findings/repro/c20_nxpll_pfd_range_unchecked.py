import logging, math
logging.disable(logging.CRITICAL)
from migen import *
from litex.soc.cores.clock.lattice_nx import NXPLL
from litex.soc.cores.clock.xilinx_usp import USPMMCM
from litex.soc.cores.clock.xilinx_s7 import S7PLL
# NXPLL: find request whose returned config has PFD outside vco_in_freq_range
found = None
for fin in [10e6, 12e6, 25e6, 27e6, 48e6, 100e6]:
    for fout in [x*1e6 for x in (7, 9, 11, 13, 17, 19, 23, 29, 31, 33.3, 37, 41, 66.6, 73, 97, 101)]:
        p = NXPLL.__new__(NXPLL)
        p.logger = logging.getLogger("x"); p.clkin_freq = fin; p.clkouts = {0:(None, fout, 0, 1e-4)}; p.nclkouts=1
        try: c = p.compute_config()
        except ValueError: continue
        pfd = fin/c["clki_div"]
        if not (NXPLL.vco_in_freq_range[0] <= pfd <= NXPLL.vco_in_freq_range[1]):
            found = (fin, fout, c["clki_div"], c["clkfb_div"], pfd); break
    if found: break
print("NXPLL pfd out of declared range:", found)
# S7PLL clkin range unenforced
p = S7PLL(speedgrade=-1); p.register_clkin(Signal(), 12.5e6); p.clkouts={0:(Signal(), 50e6, 0, 1e-2)}; p.nclkouts=1
print("S7PLL accepts clkin 12.5MHz (declared min 19MHz):", p.compute_config()["divclk_divide"], S7PLL.clkin_freq_range)
