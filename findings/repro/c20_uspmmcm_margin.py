import logging, math, itertools
logging.disable(logging.CRITICAL)
from migen import *
from litex.soc.cores.clock.xilinx_usp import USPMMCM
found=None
for fin in [100e6, 125e6, 200e6, 33.333e6]:
    for k in range(1, 4000):
        fout = 5e6 + k*37e3
        for m in (1e-2, 5e-3, 1e-3):
            p = USPMMCM(speedgrade=-1); p.register_clkin(Signal(), fin)
            p.clkouts = {1:(Signal(), fout, 0, m)}; p.nclkouts = 1
            try: c = p.compute_config()
            except ValueError: continue
            got = c["clkout1_freq"]
            if abs(got - fout) > fout*m:
                found=(fin, fout, m, got, abs(got-fout), fout*m); break
        if found: break
    if found: break
print(found)
