"""lxs.boolx -- propositional formulas over opaque atoms; entailment/equivalence by exhaustive
valuation (<= MAX_ATOMS atoms).  Used on *guard expressions*, never on program paths."""
import ast
import itertools
import re
from .core import AnalysisError, norm

MAX_ATOMS = 16

T = ("T",)
F = ("F",)


_canon_cache = {}


def _canon(text):
    """Atom texts are compared as opaque strings: make them independent of the operand order of commutative operators."""
    c = _canon_cache.get(text)
    if c is None:
        c = text
        if any(ch in text for ch in "&|^+*"):
            try:
                from .core import cnorm
                c = cnorm(text)
            except Exception:
                c = text
        _canon_cache[text] = c
    return c


def A(text):
    return ("a", _canon(text))


def Not(f):
    if f == T:
        return F
    if f == F:
        return T
    if f[0] == "!":
        return f[1]
    return ("!", f)


def And(*fs):
    out = []
    for f in fs:
        if f == F:
            return F
        if f == T:
            continue
        if f[0] == "&":
            out.extend(f[1:])
        else:
            out.append(f)
    if not out:
        return T
    if len(out) == 1:
        return out[0]
    return ("&",) + tuple(out)


def Or(*fs):
    out = []
    for f in fs:
        if f == T:
            return T
        if f == F:
            continue
        if f[0] == "|":
            out.extend(f[1:])
        else:
            out.append(f)
    if not out:
        return F
    if len(out) == 1:
        return out[0]
    return ("|",) + tuple(out)


def Xor(a, b):
    return ("^", a, b)


def Ite(c, a, b):
    if c == T:
        return a
    if c == F:
        return b
    if a == b:
        return a
    return ("ite", c, a, b)


def Implies(a, b):
    return Or(Not(a), b)


def atoms(f, acc=None):
    acc = acc if acc is not None else []
    if f[0] == "a":
        if f[1] not in acc:
            acc.append(f[1])
    elif f[0] in ("T", "F"):
        pass
    else:
        for x in f[1:]:
            atoms(x, acc)
    return acc


def ev(f, val):
    k = f[0]
    if k == "a":
        return val[f[1]]
    if k == "T":
        return True
    if k == "F":
        return False
    if k == "!":
        return not ev(f[1], val)
    if k == "&":
        return all(ev(x, val) for x in f[1:])
    if k == "|":
        return any(ev(x, val) for x in f[1:])
    if k == "^":
        return ev(f[1], val) != ev(f[2], val)
    if k == "ite":
        return ev(f[2], val) if ev(f[1], val) else ev(f[3], val)
    raise AnalysisError(f"bad formula node {k}")


_EQ_RE = re.compile(r"^(.*) == (.+)$")


def _groups(atom_list):
    """Mutual-exclusion groups: `X == c1`, `X == c2` (distinct literal-ish c) ; state atoms."""
    g = {}
    for a in atom_list:
        m = _EQ_RE.match(a)
        if m:
            g.setdefault(m.group(1), []).append(a)
    return [v for v in g.values() if len(v) > 1]


def _valuations(atom_list):
    if len(atom_list) > MAX_ATOMS:
        raise AnalysisError(f"entailment over {len(atom_list)} atoms exceeds the bound {MAX_ATOMS}: {atom_list[:6]}...")
    groups = _groups(atom_list)
    for bits in itertools.product((False, True), repeat=len(atom_list)):
        val = dict(zip(atom_list, bits))
        ok = True
        for g in groups:
            if sum(1 for a in g if val[a]) > 1:
                ok = False
                break
        if ok:
            yield val


def entails(f, g, assume=T):
    """f => g under `assume`, for every valuation of the atoms (respecting exclusion groups)."""
    al = atoms(And(f, assume))
    atoms(g, al)
    for val in _valuations(al):
        if ev(assume, val) and ev(f, val) and not ev(g, val):
            return False
    return True


def counterexample(f, g, assume=T):
    al = atoms(And(f, assume))
    atoms(g, al)
    for val in _valuations(al):
        if ev(assume, val) and ev(f, val) and not ev(g, val):
            return {k: int(v) for k, v in val.items()}
    return None


def equivalent(f, g, assume=T):
    return entails(f, g, assume) and entails(g, f, assume)


def satisfiable(f):
    al = atoms(f)
    for val in _valuations(al):
        if ev(f, val):
            return True
    return False


def depends_on(f, atom_text):
    """Does the truth of f depend on atom (semantically)?"""
    atom_text = _canon(atom_text)
    al = atoms(f)
    if atom_text not in al:
        return False
    others = [a for a in al if a != atom_text]
    for val in _valuations(others + [atom_text]):
        if val[atom_text]:
            continue
        v2 = dict(val)
        v2[atom_text] = True
        # respect groups
        try:
            if ev(f, val) != ev(f, v2):
                return True
        except KeyError:
            pass
    return False


def show(f):
    k = f[0]
    if k == "a":
        return f[1]
    if k == "T":
        return "1"
    if k == "F":
        return "0"
    if k == "!":
        return "~" + show(f[1]) if f[1][0] in ("a", "T", "F") else "~(" + show(f[1]) + ")"
    if k == "&":
        return "(" + " & ".join(show(x) for x in f[1:]) + ")"
    if k == "|":
        return "(" + " | ".join(show(x) for x in f[1:]) + ")"
    if k == "^":
        return "(" + show(f[1]) + " ^ " + show(f[2]) + ")"
    if k == "ite":
        return "ite(" + ", ".join(show(x) for x in f[1:]) + ")"
    return "?"


# ------------------------------------------------------------------------------------------
# from expression ASTs
# ------------------------------------------------------------------------------------------

def _const_truth(n):
    if isinstance(n, ast.Constant):
        if isinstance(n.value, bool):
            return n.value
        if isinstance(n.value, int):
            return n.value != 0
        if n.value is None:
            return False
    return None


def from_expr(e):
    """Formula of an FHDL/Python boolean expression; everything not propositional is an atom."""
    if isinstance(e, str):
        e = ast.parse(e, mode="eval").body
    c = _const_truth(e)
    if c is not None:
        return T if c else F
    if isinstance(e, ast.BinOp):
        if isinstance(e.op, ast.BitAnd):
            return And(from_expr(e.left), from_expr(e.right))
        if isinstance(e.op, ast.BitOr):
            return Or(from_expr(e.left), from_expr(e.right))
        if isinstance(e.op, ast.BitXor):
            return Xor(from_expr(e.left), from_expr(e.right))
    if isinstance(e, ast.UnaryOp) and isinstance(e.op, (ast.Invert, ast.Not)):
        return Not(from_expr(e.operand))
    if isinstance(e, ast.BoolOp):
        fs = [from_expr(v) for v in e.values]
        return And(*fs) if isinstance(e.op, ast.And) else Or(*fs)
    if isinstance(e, ast.IfExp):
        return Ite(from_expr(e.test), from_expr(e.body), from_expr(e.orelse))
    if isinstance(e, ast.Compare) and len(e.ops) == 1:
        op = e.ops[0]
        l, r = e.left, e.comparators[0]
        if isinstance(op, (ast.Eq, ast.NotEq)):
            # put the constant on the right
            if isinstance(l, ast.Constant) and not isinstance(r, ast.Constant):
                l, r = r, l
            a = A(f"{norm(l)} == {norm(r)}")
            return a if isinstance(op, ast.Eq) else Not(a)
        if isinstance(op, (ast.Is, ast.IsNot)):
            a = A(f"{norm(l)} is {norm(r)}")
            return a if isinstance(op, ast.Is) else Not(a)
        if isinstance(op, ast.NotIn):
            return Not(A(f"{norm(l)} in {norm(r)}"))
        if isinstance(op, ast.GtE):
            return Not(A(f"{norm(l)} < {norm(r)}"))
        if isinstance(op, ast.LtE):
            return Not(A(f"{norm(r)} < {norm(l)}"))
        if isinstance(op, ast.Gt):
            return A(f"{norm(r)} < {norm(l)}")
    if isinstance(e, ast.Call) and isinstance(e.func, ast.Attribute) and e.func.attr == "ongoing" and \
            len(e.args) == 1 and isinstance(e.args[0], ast.Constant):
        return A(f"{norm(e.func.value)}.state == {e.args[0].value!r}")
    return A(norm(e))


def guard_formula(guards):
    fs = []
    for c, pol in guards:
        f = from_expr(c)
        fs.append(f if pol else Not(f))
    return And(*fs)


def subst(f, mapping):
    """Replace atoms by formulas."""
    k = f[0]
    if k == "a":
        return mapping.get(f[1], f)
    if k in ("T", "F"):
        return f
    if k == "!":
        return Not(subst(f[1], mapping))
    if k == "&":
        return And(*[subst(x, mapping) for x in f[1:]])
    if k == "|":
        return Or(*[subst(x, mapping) for x in f[1:]])
    if k == "^":
        return Xor(subst(f[1], mapping), subst(f[2], mapping))
    if k == "ite":
        return Ite(subst(f[1], mapping), subst(f[2], mapping), subst(f[3], mapping))
    return f
