"""lxs.cli -- entry point.  Exit 0 held / 1 violation / 2 analysis error."""
import importlib
import json
import os
import sys
import traceback

from .core import Ctx, AnalysisError, finish, VERIF

PROPS = [f"C{i:02d}" for i in range(1, 21)]


def run_prop(pid, repo, tier, seed=0, evidence_dir=None, quiet=False):
    try:
        mod = importlib.import_module(f"lxs.props.{pid.lower()}")
    except ModuleNotFoundError:
        print(f"ANALYSIS-ERROR property={pid}: no checker module")
        return 2
    ctx = Ctx(pid, repo=repo, tier=tier)
    try:
        mod.run(ctx)
        if tier == "thorough":
            if hasattr(mod, "run_thorough"):
                mod.run_thorough(ctx)
            from . import sweep
            sweep.run(ctx)
        rc = finish(ctx, seed=seed, evidence_dir=evidence_dir, explanation=getattr(mod, "EXPLANATION", ""),
                    technique=getattr(mod, "TECHNIQUE", ""), quiet=quiet)
    except AnalysisError as e:
        print(f"ANALYSIS-ERROR property={pid}: {e}")
        return 2
    except Exception as e:            # a crash of the analysis is never a violation
        tb = traceback.format_exc().strip().splitlines()
        print(f"ANALYSIS-ERROR property={pid}: internal error {type(e).__name__}: {e}")
        for ln in tb[-6:]:
            print("   " + ln)
        return 2
    if rc == 0 and tier == "thorough" and not os.environ.get("LXS_NO_SELFTEST"):
        from . import selftest
        # self-test of the checker on the *current* tree (mutants must fire, neutral twins stay silent).  On a tree that
        # differs from the one the corpus was written for a variant may no longer mean what it meant, so a failure is
        # reported and recorded in the evidence but does not change the verdict on the property; `./check selftest`
        # is the strict form (exit 2).
        st = selftest.run([pid], quiet=True, repo=repo)
        if st != 0:
            print(f"SELFTEST-WARNING property={pid}: self-test variants did not behave as recorded (./check selftest {pid})")
        selftest.annotate_evidence(pid)
        # metamorphic self-check: behaviour-preserving variants of the current tree must get the same verdict
        if not os.environ.get("LXS_NO_METAMORPH"):
            try:
                from . import metamorph
                mm = metamorph.run(pid, repo=repo, seed=seed)
                if mm["not_silent"]:
                    print(f"SELFTEST-WARNING property={pid}: {len(mm['not_silent'])} behaviour-preserving variant(s) changed the verdict "
                          f"(tools/rename_fuzz.py / tools/refactor_fuzz.py {pid})")
                p = os.path.join(evidence_dir or os.path.join(VERIF, "evidence"), f"{pid}.json")
                ev = json.load(open(p))
                ev["coverage"]["metamorphic"] = mm
                json.dump(ev, open(p, "w"), indent=1)
                print(f"{pid} [thorough] metamorphic: {mm['variants']} behaviour-preserving variants ({mm['renames']} renames, "
                      f"{mm['refactorings']} refactorings): {mm['outcomes']}")
            except Exception as e:
                print(f"SELFTEST-WARNING property={pid}: metamorphic self-check did not run ({type(e).__name__}: {e})")
    return rc


def main(argv=None):
    argv = list(sys.argv[1:] if argv is None else argv)
    if not argv:
        print(__doc__)
        return 2
    repo = "/repo"
    tier = os.environ.get("VERIF_TIER", "quick")
    seed = int(os.environ.get("VERIF_SEED", "0") or 0)
    evidence_dir = None
    args = []
    i = 0
    while i < len(argv):
        a = argv[i]
        if a == "--repo":
            repo = argv[i + 1]
            i += 2
        elif a == "--tier":
            tier = argv[i + 1]
            i += 2
        elif a == "--evidence-dir":
            evidence_dir = argv[i + 1]
            i += 2
        else:
            args.append(a)
            i += 1
    if tier not in ("quick", "thorough"):
        tier = "quick"
    cmd = args[0]
    if cmd == "selftest":
        from . import selftest
        return selftest.run(args[1:] or PROPS, quiet=False, repo=repo)
    if cmd == "replay":
        with open(args[1]) as f:
            rp = json.load(f)
        pid = rp["property"]
        rc = run_prop(pid, repo, rp.get("tier", "quick"), seed, evidence_dir=os.path.join(VERIF, "evidence", ".replay"),
                      quiet=True)
        # the replayed instance
        key = rp["key"]
        again = False
        rdir = os.path.join(VERIF, "replays")
        for fn in sorted(os.listdir(rdir)) if os.path.isdir(rdir) else []:
            if fn.startswith(pid + "-"):
                try:
                    with open(os.path.join(rdir, fn)) as f:
                        if json.load(f).get("key") == key:
                            again = True
                except Exception:
                    pass
        if rc == 1 and again:
            print(f"replay: {key} still fails on {repo}: {rp.get('detail')}")
            print(f"VIOLATION property={pid} replay={args[1]}")
            return 1
        if rc == 2:
            return 2
        print(f"replay: {key} holds on {repo}")
        return 0
    pids = PROPS if cmd == "all" else [cmd.upper()]
    worst = 0
    for pid in pids:
        worst = max(worst, run_prop(pid, repo, tier, seed, evidence_dir))
    return worst


if __name__ == "__main__":
    sys.exit(main())
