"""lxs.core -- module facts (PY), reporting, evidence, known findings.

Everything here works on *source text* of /repo (ast.parse); nothing from /repo is imported
or executed.
"""
import ast
import json
import os
import sys
import time
import hashlib

VERIF = os.path.dirname(os.path.dirname(os.path.abspath(__file__)))


class AnalysisError(Exception):
    """The analysis itself cannot proceed (vanished anchor, opaque construct, vacuous rule).
    Exit code 2, never reported as a violation."""


# ------------------------------------------------------------------------------------------
# PY: module facts
# ------------------------------------------------------------------------------------------

_MOD_CACHE = {}


class Mod:
    def __init__(self, repo, rel, text=None):
        self.repo = repo
        self.rel = rel
        self.path = os.path.join(repo, rel)
        if text is not None:
            self.src = text
        else:
            if not os.path.isfile(self.path):
                raise AnalysisError(f"anchor file vanished: {rel}")
            with open(self.path, encoding="utf-8") as f:
                self.src = f.read()
        self.renames = []
        self.inlined = []
        ckey = (rel, hashlib.sha1(self.src.encode()).hexdigest(), os.environ.get("LXS_NO_CMPCANON"), os.environ.get("LXS_NO_RENAME"),
                os.environ.get("LXS_NO_INLINE"))
        hit = _MOD_CACHE.get(ckey)
        if hit is not None:
            import pickle
            self.tree, self.renames, self.inlined = pickle.loads(hit)
        else:
            self._parse_canonical(rel)
            import pickle
            if len(_MOD_CACHE) < 400:
                _MOD_CACHE[ckey] = pickle.dumps((self.tree, self.renames, self.inlined))
        self.classes = {}
        self.functions = {}
        self.assigns = {}        # module-level NAME -> value node (last binding)
        for node in self.tree.body:
            if isinstance(node, ast.ClassDef):
                self.classes[node.name] = node
            elif isinstance(node, (ast.FunctionDef,)):
                self.functions[node.name] = node
            elif isinstance(node, ast.Assign):
                for t in node.targets:
                    if isinstance(t, ast.Name):
                        self.assigns[t.id] = node.value
        self.digest = hashlib.sha1(self.src.encode()).hexdigest()[:12]

    def _parse_canonical(self, rel):
        try:
            self.tree = ast.parse(self.src, filename=rel)
        except SyntaxError as e:
            raise AnalysisError(f"cannot parse {rel}: {e}")
        # comparisons are read in one orientation: `a > b` as `b < a`, `a >= b` as `b <= a` (rules never depend on which way a
        # maintainer wrote an inequality)
        from . import names as _nm
        if not os.environ.get("LXS_NO_CMPCANON"):
            _nm.canon_compare(self.tree)
            _nm.canon_consts(self.tree)
        # renamed locals are alpha-renamed back to the names the rules know (lxs/names.py); resolution only, never a verdict
        self.renames = []
        self.inlined = []
        if not os.environ.get("LXS_NO_RENAME"):
            from . import names
            if not os.environ.get("LXS_NO_INLINE"):
                names.canon_counters(self.tree)
                names.split_tuple_assign(self.tree)
                names.split_return_ifexp(self.tree)
                names.split_default_ifexp(self.tree)
                names.unguard_continue(self.tree)
                names.canon_while_true(self.tree)
                names.unroll_fold_helpers(self.tree, rel)
                self.inlined = names.inline_new_helpers(self.tree, rel)
                if self.inlined:
                    _nm.canon_consts(self.tree)
            self.renames = names.canonicalise(self.tree, rel)
            if not os.environ.get("LXS_NO_INLINE"):
                # helpers that became single-expression functions once their own new locals were inlined
                more = names.inline_new_helpers(self.tree, rel)
                if more:
                    self.inlined += more
                    _nm.canon_consts(self.tree)
        # `==` / `!=` are read in the orientation the pinned tree uses (or constant on the right)
        if not os.environ.get("LXS_NO_CMPCANON"):
            _nm.canon_eq(self.tree, rel)

    def cls(self, name):
        if name not in self.classes:
            raise AnalysisError(f"anchor class vanished: {self.rel}::{name}")
        return self.classes[name]

    def has_cls(self, name):
        return name in self.classes

    def func(self, name):
        if name not in self.functions:
            raise AnalysisError(f"anchor function vanished: {self.rel}::{name}")
        return self.functions[name]

    def method(self, cname, mname, required=True):
        c = self.cls(cname)
        for n in c.body:
            if isinstance(n, ast.FunctionDef) and n.name == mname:
                return n
        if required:
            raise AnalysisError(f"anchor method vanished: {self.rel}::{cname}.{mname}")
        return None

    def methods(self, cname):
        return {n.name: n for n in self.cls(cname).body if isinstance(n, ast.FunctionDef)}

    def const(self, name):
        if name not in self.assigns:
            raise AnalysisError(f"anchor constant vanished: {self.rel}::{name}")
        return self.assigns[name]

    def loc(self, node):
        return f"{self.rel}:{getattr(node, 'lineno', 0)}"


def unparse(node):
    if node is None:
        return "None"
    if isinstance(node, str):
        return node
    try:
        return ast.unparse(node)
    except Exception:
        return "<?>"


def norm(node):
    """Normalised single-line text of a node (whitespace independent)."""
    return " ".join(unparse(node).split())


_COMM = (ast.BitAnd, ast.BitOr, ast.BitXor, ast.Add, ast.Mult)


def cnorm(node, eqsym=False):
    """norm() modulo commutativity/associativity of & | ^ + *: chains are flattened and their operands sorted by text.  For
    comparisons between two expressions of the analysed source (twins, expected shapes) that must not depend on operand order."""
    if isinstance(node, str):
        try:
            node = ast.parse(node, mode="eval").body
        except SyntaxError:
            return node

    class T(ast.NodeTransformer):
        def visit_BinOp(self, n):
            self.generic_visit(n)
            if not isinstance(n.op, _COMM):
                return n
            ops = []

            def flat(x):
                if isinstance(x, ast.BinOp) and type(x.op) is type(n.op):
                    flat(x.left)
                    flat(x.right)
                else:
                    ops.append(x)
            flat(n)
            ops.sort(key=lambda x: norm(x))
            out = ops[0]
            for x in ops[1:]:
                out = ast.BinOp(left=out, op=n.op, right=x)
            return out

        def visit_Compare(self, n):
            self.generic_visit(n)
            if eqsym and len(n.ops) == 1 and isinstance(n.ops[0], (ast.Eq, ast.NotEq)) and norm(n.comparators[0]) < norm(n.left):
                n.left, n.comparators[0] = n.comparators[0], n.left
            return n
    import copy as _copy
    return norm(ast.fix_missing_locations(T().visit(_copy.deepcopy(node))))


def walk_no_nested(node):
    """ast.walk that does not descend into nested function/class definitions (but yields them)."""
    todo = [node]
    first = True
    while todo:
        n = todo.pop()
        yield n
        if not first and isinstance(n, (ast.FunctionDef, ast.AsyncFunctionDef, ast.ClassDef, ast.Lambda)):
            continue
        first = False
        todo.extend(ast.iter_child_nodes(n))


def const_fold(node, env=None):
    """Evaluate an expression made of literals, names in env and + - * // / % << >> ** | & ^ ~,
    tuples/lists/dicts/sets; returns a Python value or raises ValueError."""
    env = env or {}
    if isinstance(node, ast.Constant):
        return node.value
    if isinstance(node, ast.Name):
        if node.id in env:
            return env[node.id]
        if node.id in ("True", "False", "None"):
            return {"True": True, "False": False, "None": None}[node.id]
        raise ValueError(f"unbound name {node.id}")
    if isinstance(node, ast.Tuple):
        return tuple(const_fold(e, env) for e in node.elts)
    if isinstance(node, ast.List):
        return [const_fold(e, env) for e in node.elts]
    if isinstance(node, ast.Set):
        return set(const_fold(e, env) for e in node.elts)
    if isinstance(node, ast.Dict):
        return {const_fold(k, env): const_fold(v, env) for k, v in zip(node.keys, node.values)}
    if isinstance(node, ast.UnaryOp):
        v = const_fold(node.operand, env)
        if isinstance(node.op, ast.USub):
            return -v
        if isinstance(node.op, ast.UAdd):
            return +v
        if isinstance(node.op, ast.Invert):
            return ~v
        if isinstance(node.op, ast.Not):
            return not v
    if isinstance(node, ast.BinOp):
        a = const_fold(node.left, env)
        b = const_fold(node.right, env)
        ops = {ast.Add: lambda: a + b, ast.Sub: lambda: a - b, ast.Mult: lambda: a * b,
               ast.FloorDiv: lambda: a // b, ast.Div: lambda: a / b, ast.Mod: lambda: a % b,
               ast.LShift: lambda: a << b, ast.RShift: lambda: a >> b, ast.Pow: lambda: a ** b,
               ast.BitOr: lambda: a | b, ast.BitAnd: lambda: a & b, ast.BitXor: lambda: a ^ b}
        f = ops.get(type(node.op))
        if f:
            return f()
    if isinstance(node, ast.Call) and isinstance(node.func, ast.Name):
        fn = node.func.id
        args = [const_fold(a, env) for a in node.args]
        if fn == "int" and len(args) == 1:
            return int(args[0])
        if fn == "float" and len(args) == 1:
            return float(args[0])
        if fn == "len" and len(args) == 1:
            return len(args[0])
        if fn == "set" and len(args) <= 1:
            return set(*args)
        if fn == "range":
            return range(*args)
        if fn == "list" and len(args) == 1:
            return list(args[0])
    raise ValueError(f"not a constant expression: {unparse(node)[:60]}")


# ------------------------------------------------------------------------------------------
# Reporting
# ------------------------------------------------------------------------------------------

class Finding:
    def __init__(self, prop, rule, file, scope, role, detail, line=0):
        self.prop, self.rule, self.file, self.scope, self.role = prop, rule, file, scope, role
        self.detail, self.line = detail, line

    @property
    def key(self):
        return f"{self.rule} : {self.file} :: {self.scope} :: {self.role}"

    def as_dict(self):
        return dict(property=self.prop, rule=self.rule, file=self.file, scope=self.scope,
                    role=self.role, detail=self.detail, line=self.line, key=self.key)


class Ctx:
    """One check run for one property."""

    def __init__(self, prop, repo="/repo", tier="quick", only_key=None, overlay=None):
        self.overlay = overlay or {}      # rel -> source text (self-test mutants, applied in memory)
        self.prop = prop
        self.repo = os.path.abspath(repo)
        self.tier = tier
        self.only_key = only_key
        self._mods = {}
        self.findings = []
        self.obligations = []        # (rule, site, verdict, detail)
        self.rule_texts = {}
        self.rule_sites = {}
        self.rule_min = {}
        self.notes = []
        self.analysed = {"files": set(), "classes": set(), "functions": set(), "ir_records": 0,
                         "fsms": 0, "paths": 0}
        self.assumptions = []
        self.t0 = time.time()

    # ---- facts
    def mod(self, rel):
        if rel not in self._mods:
            self._mods[rel] = Mod(self.repo, rel, self.overlay.get(rel))
            self.analysed["files"].add(rel)
            for sc, cur, rec in self._mods[rel].renames:
                self.note(f"{rel}::{sc}: local `{cur}` is taken for `{rec}` (renamed; resolved by fingerprint, lxs/names.py)")
        return self._mods[rel]

    def exists(self, rel):
        return os.path.isfile(os.path.join(self.repo, rel))

    # ---- rules
    def rule(self, rid, text, min_sites=1):
        self.rule_texts[rid] = text
        self.rule_sites.setdefault(rid, 0)
        self.rule_min[rid] = min_sites

    def ob(self, rid, file, scope, role, ok, detail="", line=0):
        """Record one rule-instance obligation; a failed one becomes a finding."""
        if rid not in self.rule_texts:
            raise AnalysisError(f"internal: rule {rid} not declared")
        if isinstance(line, ast.AST):
            line = getattr(line, "lineno", 0)
        self.rule_sites[rid] += 1
        site = f"{file}:{line} {scope} [{role}]"
        self.obligations.append((rid, site, bool(ok), detail if not ok else ""))
        if not ok:
            self.findings.append(Finding(self.prop, rid, file, scope, role, detail, line))
        return bool(ok)

    def note(self, text):
        self.notes.append(text)

    def need(self, cond, what):
        if not cond:
            raise AnalysisError(what)


def load_known(path=None):
    path = path or os.path.join(VERIF, "known_findings.jsonl")
    known, fixed = {}, []
    if os.path.isfile(path):
        with open(path) as f:
            for ln in f:
                ln = ln.strip()
                if not ln or ln.startswith("#"):
                    continue
                if ln.startswith("fixed:"):
                    fixed.append(ln)
                    continue
                e = json.loads(ln)
                if e.get("status") == "known":
                    known[(e["property"], e["key"])] = e
                else:
                    fixed.append(e)
    return known, fixed


def finish(ctx, seed=0, evidence_dir=None, explanation="", technique="", quiet=False):
    """Vacuity check, known-finding split, evidence, exit code."""
    vacuous = [f"rule {rid} matched {n} sites, fewer than the {ctx.rule_min[rid]} confirmed by hand: the rule would pass vacuously"
               for rid, n in ctx.rule_sites.items() if n < ctx.rule_min[rid] and not os.environ.get("LXS_DEV_NO_MIN")]
    known, fixed = load_known()
    viols, kf = [], []
    vseen = set()
    for f in ctx.findings:
        if (ctx.prop, f.key) in known:
            kf.append((f, known[(ctx.prop, f.key)]))
        elif (f.key, f.detail) not in vseen:          # one report per construct, however many paths reach it
            vseen.add((f.key, f.detail))
            viols.append(f)
    # a rule that lost sites cannot vouch for the property (exit 2) -- unless something else is already a definite violation,
    # which is reported as such (the construct that made the sites vanish is usually the one that is reported)
    if vacuous and not viols:
        raise AnalysisError(vacuous[0])
    out = []
    for v in vacuous:
        out.append(f"  note: {v}")
    seen = set()
    for f, e in kf:
        if f.key in seen:
            continue
        seen.add(f.key)
        out.append(f"KNOWN-FINDING: property={ctx.prop} {f.key} -- {e.get('what', '')}")
    replays = []
    if viols:
        rdir = os.path.join(VERIF, "replays")
        os.makedirs(rdir, exist_ok=True)
        for i, f in enumerate(viols):
            rp = os.path.join(rdir, f"{ctx.prop}-{i}.json")
            with open(rp, "w") as fh:
                json.dump(dict(f.as_dict(), repo=ctx.repo, tier=ctx.tier,
                               rule_text=ctx.rule_texts.get(f.rule, "")), fh, indent=1)
            replays.append(rp)
            out.append(f"  {f.file}:{f.line} {f.scope} rule={f.rule} role={f.role}: {f.detail}")
            out.append(f"VIOLATION property={ctx.prop} replay={rp}")
    wall = time.time() - ctx.t0
    distinct = len({(r, s) for (r, s, ok, d) in ctx.obligations})
    nrules = len([r for r, n in ctx.rule_sites.items() if n > 0])
    samples = []
    per_rule = {}
    for (r, s, ok, d) in ctx.obligations:
        per_rule.setdefault(r, [])
        if len(per_rule[r]) < 3 or not ok:
            per_rule[r].append(f"{r} @ {s}: {'holds' if ok else 'FAILS ' + d}")
    for r in sorted(per_rule):
        samples.extend(per_rule[r])
    ev = {
        "property_id": ctx.prop,
        "tier": ctx.tier,
        "seed": int(seed),
        "level": "other",
        "coverage": {
            "explanation": explanation or "static rule instances evaluated over the syntax tree of /repo",
            "evaluations": len(ctx.obligations),
            "distinct_nontrivial": distinct,
            "rule": "each evaluation is one rule instance (rule id x source site) evaluated on the "
                    "current source; distinct = distinct (rule, site) pairs; a rule matching fewer sites "
                    "than frozen by hand aborts the run (exit 2)",
            "rules": {r: {"text": ctx.rule_texts[r], "sites": ctx.rule_sites[r], "min_sites": ctx.rule_min[r]}
                      for r in sorted(ctx.rule_texts)},
            "rules_with_sites": nrules,
            "samples": samples[:400],
            "obligations": len(ctx.obligations),
            "discharged": sum(1 for o in ctx.obligations if o[2]),
            "analysed": {k: (sorted(v) if isinstance(v, set) else v) for k, v in ctx.analysed.items()},
            "file_digests": {rel: m.digest for rel, m in sorted(ctx._mods.items())},
            "known_findings": [f.key for f, _ in kf],
            "notes": ctx.notes[:200],
            "exhaustive": False,
            "technique": technique,
        },
        "assumptions": ctx.assumptions or ["CPython ast", "summaries of Migen primitives (DESIGN 3.2)"],
        "wall_s": round(wall, 3),
        "violations": len(viols),
    }
    if evidence_dir is None:
        evidence_dir = os.path.join(VERIF, "evidence")
    os.makedirs(evidence_dir, exist_ok=True)
    with open(os.path.join(evidence_dir, f"{ctx.prop}.json"), "w") as fh:
        json.dump(ev, fh, indent=1, sort_keys=False)
    if not quiet:
        for ln in out:
            print(ln)
        print(f"{ctx.prop} [{ctx.tier}] rules={nrules} obligations={len(ctx.obligations)} "
              f"failed={len(ctx.findings)} known={len(kf)} violations={len(viols)} "
              f"files={len(ctx.analysed['files'])} wall={wall:.2f}s")
    return 1 if viols else 0
