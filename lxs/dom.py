"""lxs.dom -- clock-domain typing over the FX IR (DESIGN 3.4).

Every register is typed by the domain of its sync driver; outputs of synchroniser primitives by their
summaries and the domain arguments at the instantiation; comb signals by the union of their supports;
module ports and parameters are untyped.  Domain names are symbols; two symbols are the same domain
only if an equality among the Python-level conditions of the configuration says so."""
import ast
from .core import norm
from . import q


def _const_or_text(n):
    if n is None:
        return None
    if isinstance(n, ast.Constant) and isinstance(n.value, str):
        return n.value
    return norm(n)


class Domains:
    def __init__(self, fx, pyctx=(), equal=()):
        self.fx = fx
        self.pyctx = list(pyctx)
        self.parent = {}
        for a, b in equal:
            self._union(a, b)
        self.types = {}          # path -> set(domain)
        self.sync_inputs = []    # (path, required domain, what, node)
        self.sync_out = {}       # path -> domain (outputs of synchronisers)
        self.csr_prefixes = []
        self._build()

    # ---- domain symbol equality
    def _find(self, x):
        while self.parent.get(x, x) != x:
            x = self.parent[x]
        return x

    def _union(self, a, b):
        self.parent[self._find(a)] = self._find(b)

    def same(self, a, b):
        return self._find(a) == self._find(b)

    def canon_set(self, s):
        return {self._find(x) for x in s}

    def _ok(self, pg):
        return q.compatible(pg, self.pyctx)

    def _add(self, path, dom):
        self.types.setdefault(path, set()).add(dom)

    def type_of(self, path):
        """types of `path` or of the longest typed prefix (record field of a typed record)."""
        p = path
        while True:
            if p in self.types:
                return self.types[p]
            for pre in self.csr_prefixes:
                if p == pre or p.startswith(pre + "."):
                    return {"sys"}
            # strip one trailing component
            n = ast.parse(p, mode="eval").body if p else None
            if isinstance(n, ast.Subscript):
                p = norm(n.value)
            elif isinstance(n, ast.Attribute):
                p = norm(n.value)
            else:
                return set()

    def _build(self):
        fx = self.fx
        for a in fx.assigns:
            if a.kind not in ("eq", "nextvalue") or not self._ok(a.pyguards):
                continue
            if a.domain.startswith("sync:"):
                self._add(q.strip_subscripts(a.t), a.domain[5:].split("@")[0])
        for i in fx.insts:
            if not self._ok(i.pyguards) or i.call is None:
                continue
            cls = i.cls.split(".")[-1]
            ren = None
            for w in i.wrappers:
                if isinstance(w, ast.Call) and norm(w.func) == "ClockDomainsRenamer" and w.args:
                    ren = w.args[0]
            if cls == "MultiReg":
                args = i.call.args
                kw = {k.arg: k.value for k in i.call.keywords}
                src = args[0] if args else kw.get("i")
                dst = args[1] if len(args) > 1 else kw.get("o")
                od = args[2] if len(args) > 2 else kw.get("odomain")
                od = _const_or_text(od) or "sys"
                if dst is not None:
                    self.types[q.strip_subscripts(norm(dst))] = {od}
                    self.sync_out[q.strip_subscripts(norm(dst))] = od
                if src is not None:
                    self.sync_inputs.append((norm(src), None, f"MultiReg -> {od}", i.node))
            elif cls == "PulseSynchronizer":
                args = i.call.args
                kw = {k.arg: k.value for k in i.call.keywords}
                idom = _const_or_text(args[0] if args else kw.get("idomain"))
                odom = _const_or_text(args[1] if len(args) > 1 else kw.get("odomain"))
                self.types[i.name + ".i"] = {idom}
                self.types[i.name + ".o"] = {odom}
                self.sync_out[i.name + ".o"] = odom
                self.sync_inputs.append((i.name + ".i", idom, "PulseSynchronizer input", i.node))
            elif cls == "WaitTimer":
                d = _const_or_text(ren) if ren is not None else "sys"
                self.types[i.name + ".done"] = {d}
                self.sync_inputs.append((i.name + ".wait", d, "WaitTimer input", i.node))
            elif cls in ("CSR", "CSRStorage", "CSRStatus"):
                self.csr_prefixes.append(i.name)
        for name, (cname, call, pg) in fx.decl.items():
            if call is None or not self._ok(pg):
                continue
            if cname.endswith("get_port"):
                cd = None
                for k in call.keywords:
                    if k.arg == "clock_domain":
                        cd = _const_or_text(k.value)
                if cd is not None:
                    self.types[name + ".dat_r"] = {cd}
                    for inp in ("adr", "dat_w", "we", "re"):
                        self.sync_inputs.append((name + "." + inp, cd, f"memory port in {cd}", call))
        # comb propagation to a fix-point
        changed = True
        rounds = 0
        while changed and rounds < 20:
            changed = False
            rounds += 1
            for a in fx.assigns:
                if a.kind != "eq" or a.domain != "comb" or not self._ok(a.pyguards):
                    continue
                tgt = q.strip_subscripts(a.t)
                if tgt in self.sync_out:
                    continue
                srcs = list(q.paths(a.value))
                for c, _ in a.guards:
                    srcs.extend(q.paths(c))
                new = set()
                for p in srcs:
                    new |= self.type_of(p)
                cur = self.types.setdefault(tgt, set())
                if not new <= cur:
                    cur |= new
                    changed = True

    # ---- checks
    def violations(self):
        """[(kind, reader, domain, path, path types, node)]"""
        out = []
        fx = self.fx
        for a in fx.assigns:
            if a.kind not in ("eq", "nextvalue") or not a.domain.startswith("sync:") or not self._ok(a.pyguards):
                continue
            dom = a.domain[5:].split("@")[0]
            srcs = list(q.paths(a.value))
            for c, _ in a.guards:
                srcs.extend(q.paths(c))
            for p in srcs:
                tp = self.type_of(p)
                if tp and not all(self.same(t, dom) for t in tp):
                    out.append(("sync-read", a.t, dom, p, sorted(tp), a.node))
        for path, dom, what, node in self.sync_inputs:
            if dom is None:
                continue
            for a in fx.assigns:
                if a.kind != "eq" or a.domain != "comb" or q.strip_subscripts(a.t) != path or not self._ok(a.pyguards):
                    continue
                srcs = list(q.paths(a.value))
                for c, _ in a.guards:
                    srcs.extend(q.paths(c))
                for p in srcs:
                    tp = self.type_of(p)
                    if tp and not all(self.same(t, dom) for t in tp):
                        out.append((what, path, dom, p, sorted(tp), a.node))
        return out
