"""Debug helper: dump the FX IR of a class.  usage: python -m lxs.dump <rel> <Class|func> [--func]"""
import sys
from .core import Ctx
from .fx import FX

def main():
    rel, name = sys.argv[1], sys.argv[2]
    ctx = Ctx("DUMP", repo=sys.argv[sys.argv.index("--repo")+1] if "--repo" in sys.argv else "/repo")
    if "--func" in sys.argv:
        fx = FX(ctx, rel, func=name)
    else:
        fx = FX(ctx, rel, cls=name)
    print(fx.dump())

if __name__ == "__main__":
    main()
