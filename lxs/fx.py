"""lxs.fx -- FHDL extractor: recovers a guarded-assignment IR from the *syntax tree* of a LiteX
class (or module-level statement builder) without importing or elaborating it.

The extractor is a small partial evaluator over Python ASTs.  It tracks aliases of hardware
objects, Python-level containers of FHDL statements (lists, dicts of Case arms), local closures,
FSM objects, Python `if`s (as meta-guards) and `for`s (kept symbolic), and flattens everything that
is added to `self.comb`, `self.sync[.cd]`, or an FSM state into `Assign`/`Trans` records:

    Assign(domain, target, value, guards, state, pyguards, loops, order, node)

See DESIGN.md 3.2.  Fail-closed: constructs not understood in a statement position become
`Opaque` records which the rule layer turns into ANALYSIS-ERROR when they touch what it monitors.
"""
import ast
import os
import copy
from .core import AnalysisError, unparse, norm

# ------------------------------------------------------------------------------------------
# IR
# ------------------------------------------------------------------------------------------

class Node:
    """FHDL statement tree node (before flattening)."""
    kind = "?"


class Eq(Node):
    kind = "eq"

    def __init__(self, t, v, node, via=None):
        self.t, self.v, self.node, self.via = t, v, node, via


class IfN(Node):
    kind = "if"

    def __init__(self, node):
        self.arms = []          # [(cond_expr, [Node])]
        self.orelse = None      # [Node] or None
        self.node = node


class CaseN(Node):
    kind = "case"

    def __init__(self, sel, arms, node, makedefault=False):
        self.sel, self.arms, self.node, self.makedefault = sel, arms, node, makedefault
        # arms: [(key_expr_or_"default", [Node], loops)]


class NV(Node):
    kind = "nv"

    def __init__(self, t, v, node):
        self.t, self.v, self.node = t, v, node


class NS(Node):
    kind = "ns"

    def __init__(self, state, node, pycond=None):
        self.state, self.node, self.pycond = state, node, pycond


class Conn(Node):
    kind = "conn"

    def __init__(self, src, dst, omit, keep, node, extra=None):
        self.src, self.dst, self.omit, self.keep, self.node = src, dst, omit, keep, node
        self.extra = extra      # text of **kwargs etc.


class Opq(Node):
    kind = "opaque"

    def __init__(self, text, node):
        self.text, self.node = text, node


class LoopN(Node):
    """Statements produced under a symbolic loop (list comprehension / for)."""
    kind = "loop"

    def __init__(self, loops, body, node):
        self.loops, self.body, self.node = loops, body, node


class PyG(Node):
    """Statements that exist only under a Python-level condition (IfExp in statement lists)."""
    kind = "pyg"

    def __init__(self, cond, pol, body, node):
        self.cond, self.pol, self.body, self.node = cond, pol, body, node


# ---- flattened records -------------------------------------------------------------------

class Assign:
    __slots__ = ("domain", "target", "value", "guards", "state", "pyguards", "loops", "order",
                 "node", "via", "kind", "fx", "_t", "_v")

    def __init__(self, **kw):
        self.via = None
        self.kind = "eq"
        for k, v in kw.items():
            setattr(self, k, v)
        self._t = None
        self._v = None

    @property
    def t(self):
        if self._t is None:
            self._t = norm(self.target)
        return self._t

    @property
    def v(self):
        if self._v is None:
            self._v = norm(self.value)
        return self._v

    @property
    def line(self):
        return getattr(self.node, "lineno", 0)

    def gtext(self):
        return " & ".join(("" if p else "~") + "(" + norm(c) + ")" for c, p in self.guards) or "1"

    def eff(self):
        """Effective guard (no inlining, no state atom): the written guard minus the guards of later assignments to the same
        target in the same scope (Migen: the last assignment wins).  Equals the written guard unless something overrides it."""
        from . import boolx as B
        from . import q
        f = B.guard_formula(self.guards)
        if self.fx is not None and self.kind in ("eq", "nextvalue"):
            for b in q.Inliner(self.fx, self)._later(self):
                f = B.And(f, B.Not(B.guard_formula(b.guards)))
        return f

    def __repr__(self):
        st = f" @{self.state[1]}" if self.state else ""
        pg = (" py[" + "; ".join(("" if p else "not ") + c for c, p in self.pyguards) + "]") if self.pyguards else ""
        lp = (" for[" + "; ".join(f"{v} in {it}" for v, it in self.loops) + "]") if self.loops else ""
        return f"<{self.domain}{st} {self.t} <= {self.v} if {self.gtext()}{pg}{lp} L{self.line}>"


class Trans:
    __slots__ = ("fsm", "src", "dst", "guards", "pyguards", "loops", "node", "order", "fx")

    def __init__(self, **kw):
        self.fx = None
        for k, v in kw.items():
            setattr(self, k, v)

    def eff(self):
        """Effective guard of the transition: a later NextState in the same state (compatible Python-level configuration)
        overrides this one."""
        from . import boolx as B
        f = B.guard_formula(self.guards)
        if self.fx is not None:
            seen = False
            for u in self.fx.trans:
                if u is self:
                    seen = True
                    continue
                if seen and u.fsm == self.fsm and u.src == self.src and u.loops == self.loops and \
                        all(pg in self.pyguards for pg in u.pyguards):
                    f = B.And(f, B.Not(B.guard_formula(u.guards)))
        return f

    @property
    def line(self):
        return getattr(self.node, "lineno", 0)

    def gtext(self):
        return " & ".join(("" if p else "~") + "(" + norm(c) + ")" for c, p in self.guards) or "1"

    def __repr__(self):
        pg = (" py[" + "; ".join(("" if p else "not ") + c for c, p in self.pyguards) + "]") if self.pyguards else ""
        return f"<trans {self.fsm}:{self.src}->{self.dst} if {self.gtext()}{pg} L{self.line}>"


class Inst:
    __slots__ = ("name", "cls", "call", "wrappers", "pyguards", "loops", "order", "node", "how")

    def __init__(self, **kw):
        for k, v in kw.items():
            setattr(self, k, v)

    @property
    def line(self):
        return getattr(self.node, "lineno", 0)

    def arg(self, idx=None, kw=None):
        if self.call is None:
            return None
        if kw is not None:
            for k in self.call.keywords:
                if k.arg == kw:
                    return k.value
        if idx is not None and idx < len(self.call.args):
            return self.call.args[idx]
        return None

    def __repr__(self):
        w = "".join(f"{norm(x)}∘" for x in self.wrappers)
        pg = (" py[" + "; ".join(("" if p else "not ") + c for c, p in self.pyguards) + "]") if self.pyguards else ""
        return f"<inst {self.name} = {w}{self.cls}({', '.join(norm(a) for a in (self.call.args if self.call else []))}" \
               f"{''.join(', ' + (k.arg or '**') + '=' + norm(k.value) for k in (self.call.keywords if self.call else []))}){pg} L{self.line}>"


class FSMInfo:
    def __init__(self, fid, name, reset_state, node, pyguards, wrappers):
        self.id, self.name, self.reset_state, self.node = fid, name, reset_state, node
        self.pyguards, self.wrappers = pyguards, wrappers
        self.alias = None       # attribute the FSM object is finally bound to (self.wr_fsm)
        self.states = {}        # state name -> [(pyguards, node)]
        self.first_state = None

    def __repr__(self):
        return f"<fsm {self.id} reset={self.reset_state} states={list(self.states)}>"


# ---- python-level values -----------------------------------------------------------------

class PyList:
    def __init__(self, items=None):
        self.items = items or []     # list of values (ast.expr | Node | PyList ...), each (loops, pyguards, val)


class PyDict:
    def __init__(self):
        self.items = []              # [(key_expr_or_str, value, loops, pyguards)]


class PyTuple:
    def __init__(self, vals):
        self.vals = vals


class Closure:
    def __init__(self, fn, env, owner=None):
        self.fn, self.env, self.owner = fn, env, owner


class FSMRef:
    def __init__(self, fid):
        self.fid = fid


class SyncDom:
    def __init__(self, domain, prefix=None):
        self.domain, self.prefix = domain, prefix


class StmtTarget:
    """A `x.comb` / `x.sync` of a *sub*module (BufferizeEndpoints) -- statements go to our records
    with the submodule prefix noted."""
    def __init__(self, domain):
        self.domain = domain


class _Return(Exception):
    def __init__(self, value):
        self.value = value


HW_STMT_CALLS = {"If", "Case", "NextValue", "NextState"}
SPECIAL_CLASSES = {"MultiReg", "AsyncResetSynchronizer", "Memory", "Instance", "Tristate", "DifferentialInput",
                   "DifferentialOutput", "SDRTristate", "SDRInput", "SDROutput", "DDRInput", "DDROutput",
                   "DDRTristate", "ClkInput", "ClkOutput"}


_KNOWN = [False, None]
RECORD_IR = None        # set to a dict by tools/gen_irnames.py: FX records its IR fingerprints instead of resolving renames
_IRT = [None]


def _irtable():
    if _IRT[0] is None:
        import json
        try:
            with open(os.path.join(os.path.dirname(os.path.abspath(__file__)), "irnames.json")) as f:
                _IRT[0] = json.load(f)
        except FileNotFoundError:
            _IRT[0] = {}
    return _IRT[0]


def _known_locals(rels=None):
    """local names the pinned tree has in the given files (all recorded files when None); None when there is no table"""
    from . import names
    t = names.table()
    if not t:
        return None
    key = tuple(sorted(rels)) if rels else None
    if key not in _KNOWN_CACHE:
        _KNOWN_CACHE[key] = {n for f_, sc in t.items() if key is None or f_ in key for nm in sc.values() for n in nm}
    return _KNOWN_CACHE[key]


_KNOWN_CACHE = {}


def q_is_path(n):
    if isinstance(n, ast.Name):
        return True
    if isinstance(n, (ast.Attribute, ast.Subscript)):
        return q_is_path(n.value)
    return False


def _is_name(n, name):
    return isinstance(n, ast.Name) and n.id == name


def _self_attr(n):
    """'x' for `self.x`, else None."""
    if isinstance(n, ast.Attribute) and _is_name(n.value, "self"):
        return n.attr
    return None


def _callee_name(call):
    f = call.func
    if isinstance(f, ast.Name):
        return f.id
    if isinstance(f, ast.Attribute):
        return f.attr
    return None


def _strip_wrappers(value):
    """ClockDomainsRenamer(x)(ResetInserter()(FSM(..))) -> (inner Call, [wrapper calls])."""
    wrappers = []
    v = value
    while isinstance(v, ast.Call) and isinstance(v.func, ast.Call) and len(v.args) == 1 and \
            _callee_name(v.func) in ("ClockDomainsRenamer", "ResetInserter", "CEInserter", "BufferizeEndpoints",
                                     "ModuleTransformer", "DomainRenamer"):
        wrappers.append(v.func)
        v = v.args[0]
    return v, wrappers


class FX:
    """Extract the FHDL IR of one class (all methods reachable from `entry` via self-calls) or of
    one module-level function."""

    MAX_INLINE = 6

    def __init__(self, ctx, rel, cls=None, func=None, entries=("__init__", "do_finalize"),
                 bind=None, self_name="self", extra_mods=(), inline_classes=(), no_inline=()):
        self.ctx = ctx
        self.mod = ctx.mod(rel)
        self.rel = rel
        self.cls_name = cls
        self.func_name = func
        self.extra_mods = [ctx.mod(r) for r in extra_mods]
        for m in _imported_mods(ctx, self.mod):
            if m not in self.extra_mods and m is not self.mod:
                self.extra_mods.append(m)
        self.inline_classes = set(inline_classes)
        self.no_inline = set(no_inline)
        self.entry_returns = {}
        self.numeric = set()
        self.localdefs = {}
        self.known_locals = _known_locals([rel] + [m_.rel for m_ in self.extra_mods])
        self.attr_alias = {}
        self._params_seen = set()
        self.assigns = []
        self.trans = []
        self.insts = []
        self.conns = []         # (Conn node, domain, guards, state, pyguards, loops, order)
        self.opaque = []        # (text, node, context)
        self.fsms = {}
        self.attr = {}          # canonical text of attribute path -> value (alias map for self.x)
        self.pyguards = []
        self.loops = []
        self.order = 0
        self.depth = 0
        self.decorators = []
        self.local_classes = {}
        self.returns = []       # values returned by the entry function (module-level builders)
        self.scope = cls or func
        self._fsm_count = 0
        self.prefix_stack = []
        self.decl = {}
        if cls is not None:
            cnode = self.mod.cls(cls)
            self.decorators = [norm(d) for d in cnode.decorator_list]
            self.mro = self._mro(cnode, self.mod)
            for e in entries:
                m = self._find_method(e)
                if m is None:
                    continue
                fn, owner_mod = m
                env = {}
                self._bind_params(fn, env, [], {}, is_method=True, symbolic=True)
                if bind:
                    env.update(bind)
                self.entry_returns[e] = self._run_function(fn, env)
        else:
            fn = self.mod.func(func)
            env = {}
            self._bind_params(fn, env, [], {}, is_method=False, symbolic=True)
            if bind:
                env.update(bind)
            r = self._run_function(fn, env)
            self.returns.append(r)
        self._attr_names(entries)
        self._dealias_new_intermediates(ctx)
        self._one_bit_compares()
        self._resolve_ir_renames(ctx, entries)
        ctx.analysed["classes" if cls else "functions"].add(f"{rel}::{self.scope}")
        ctx.analysed["ir_records"] += len(self.assigns) + len(self.trans) + len(self.insts)
        ctx.analysed["fsms"] += len(self.fsms)

    def _dealias_new_intermediates(self, ctx):
        """A 1-bit local signal that the pinned tree does not have (not in lxs/localnames.json for this scope) and that is nothing
        but a name for a comb expression (`g = Signal(); self.comb += g.eq(<expr>)`, one unconditional driver) is substituted by
        that expression wherever it is read: introducing such an intermediate preserves behaviour and must not change what the
        rules see.  Known names are never touched."""
        if os.environ.get("LXS_NO_RENAME"):
            return
        from . import names
        rec = names.recorded(self.rel, self.scope) if self.rel in names.table() else None
        if not rec:
            return
        subst = {}
        for nm, d in list(self.decl.items()):
            if not nm.isidentifier() or nm in rec or d[0] != "Signal":
                continue
            call = d[1]
            if call.keywords or len(call.args) > 1 or (call.args and norm(call.args[0]) != "1"):
                continue
            drv = [a for a in self.assigns if a.t == nm and a.kind == "eq"]
            if len(drv) != 1 or drv[0].domain != "comb" or drv[0].guards or drv[0].state is not None:
                continue
            if any(isinstance(x, ast.Name) and x.id == nm for x in ast.walk(drv[0].value)):
                continue
            # defined inside a loop / Python branch: every reader must live in the same iteration and branch
            d0 = drv[0]

            def reads(a):
                return any(isinstance(x, ast.Name) and x.id == nm for e in [a.value, a.target] + [c for c, _ in a.guards]
                           if isinstance(e, ast.AST) for x in ast.walk(e))
            readers = [a for a in self.assigns if a is not d0 and reads(a)]
            if not all(list(a.loops[:len(d0.loops)]) == list(d0.loops) and all(pg in a.pyguards for pg in d0.pyguards) for a in readers):
                continue
            if (d0.loops or d0.pyguards) and any(any(isinstance(x, ast.Name) and x.id == nm for c, _ in t.guards for x in ast.walk(c))
                                                  for t in self.trans):
                continue
            subst[nm] = drv[0]
        if not subst:
            return

        class X(ast.NodeTransformer):
            def visit_Name(self, n):
                if n.id in subst:
                    return copy.deepcopy(subst[n.id].value)
                return n

        def sub(e):
            if e is None or not isinstance(e, ast.AST):
                return e
            if not any(isinstance(x, ast.Name) and x.id in subst for x in ast.walk(e)):
                return e
            out = e
            for _ in range(4):          # intermediates defined from intermediates
                out = ast.fix_missing_locations(X().visit(copy.deepcopy(out)))
                if not any(isinstance(x, ast.Name) and x.id in subst for x in ast.walk(out)):
                    break
            return out
        keep = []
        for a in self.assigns:
            if any(a is d for d in subst.values()):
                continue
            a.value = sub(a.value)
            a.target = sub(a.target)
            a.guards = [(sub(c), p) for c, p in a.guards]
            a._t = a._v = None
            keep.append(a)
        self.assigns = keep
        for t in self.trans:
            t.guards = [(sub(c), p) for c, p in t.guards]
        for c in self.conns:
            c["guards"] = [(sub(g), p) for g, p in c["guards"]]
        for nm in subst:
            self.decl.pop(nm, None)
            ctx.note(f"{self.rel}::{self.scope}: new 1-bit intermediate `{nm}` = {norm(subst[nm].value)[:80]} substituted where it is read")

    def _attr_names(self, entries):
        """`x = Signal(..); self.x = x` names the same object as `self.x = x = Signal(..)`: the attribute path is the canonical name
        (rules address public signals by their attribute)."""
        if RECORD_IR is not None or os.environ.get("LXS_NO_RENAME"):
            return
        key = f"{self.rel}::{self.scope}::{','.join(entries) if self.cls_name else ''}"
        pinned = _irtable().get(key)
        if not pinned:
            return
        # only for locals the pinned tree does not have (there the object was bound to the attribute directly)
        mp = {loc: path for loc, path in self.attr_alias.items() if loc in self.decl and path not in self.decl and loc not in pinned}
        if not mp:
            return
        rep = {loc: ast.parse(path, mode="eval").body for loc, path in mp.items()}

        class X(ast.NodeTransformer):
            def visit_Name(self, n):
                return copy.deepcopy(rep[n.id]) if n.id in rep else n

        def sub(e):
            return X().visit(e) if isinstance(e, ast.AST) else e
        for a in self.assigns:
            a.target, a.value = sub(a.target), sub(a.value)
            a.guards = [(sub(c), p) for c, p in a.guards]
            a._t = a._v = None
        for t in self.trans:
            t.guards = [(sub(c), p) for c, p in t.guards]
        for c in self.conns:
            c["conn"].src, c["conn"].dst = sub(c["conn"].src), sub(c["conn"].dst)
            c["guards"] = [(sub(g), p) for g, p in c["guards"]]
        for i in self.insts:
            if i.call is not None:
                i.call = sub(i.call)
            if i.name in mp:
                i.name = mp[i.name]
        for loc, path in mp.items():
            self.decl[path] = self.decl.pop(loc)

    def _one_bit_compares(self):
        """`s == 0` / `s != 1` on a signal declared 1 bit wide reads as `~s`, `s == 1` / `s != 0` as `s` (Migen gives the same
        1-bit value); only for signals whose declaration is in this class and plainly 1 bit."""
        one = set()
        for nm, d in self.decl.items():
            if d and d[0] == "Signal" and isinstance(d[1], ast.Call):
                c = d[1]
                if not c.keywords or all(k.arg in ("reset", "reset_less", "name", "name_override") for k in c.keywords):
                    if not c.args or (len(c.args) == 1 and isinstance(c.args[0], ast.Constant) and c.args[0].value == 1):
                        one.add(nm)
        if not one:
            return

        class X(ast.NodeTransformer):
            def visit_Compare(self, n):
                self.generic_visit(n)
                if len(n.ops) == 1 and isinstance(n.ops[0], (ast.Eq, ast.NotEq)):
                    for a, b in ((n.left, n.comparators[0]), (n.comparators[0], n.left)):
                        if isinstance(b, ast.Constant) and type(b.value) is int and b.value in (0, 1) and norm(a) in one:
                            pos = (b.value == 1) == isinstance(n.ops[0], ast.Eq)
                            return a if pos else ast.UnaryOp(op=ast.Invert(), operand=a)
                return n
        for a in self.assigns:
            if isinstance(a.value, ast.AST):
                a.value = X().visit(a.value)
            a.guards = [(X().visit(c) if isinstance(c, ast.AST) else c, p) for c, p in a.guards]
            a._v = None
        for t in self.trans:
            t.guards = [(X().visit(c) if isinstance(c, ast.AST) else c, p) for c, p in t.guards]
        for c in self.conns:
            c["guards"] = [(X().visit(g) if isinstance(g, ast.AST) else g, p) for g, p in c["guards"]]

    # ------------------------------------------------------------------ renamed local objects, resolved on the IR
    def _ir_fingerprints(self, names):
        """{name: Counter(features)} for declared local objects: how each is driven, what it drives, what it guards, how it is
        built -- read off the extracted IR (comprehensions unrolled, helpers inlined, getattr resolved), with every declared
        local masked.  Independent of the local's name and of most of the surrounding Python."""
        from collections import Counter
        from .core import cnorm
        local = {n for n in self.decl if n.isidentifier()} | {i.name for i in self.insts if i.name.isidentifier()}
        names = set(names)
        cache = {}

        def mask(e):
            if not isinstance(e, ast.AST):
                return "?"
            k = id(e)
            if k not in cache:
                m = copy.deepcopy(e)
                for x in ast.walk(m):
                    if isinstance(x, ast.Name) and x.id in local:
                        x.id = "§"
                try:
                    cache[k] = cnorm(m, eqsym=True)[:160]
                except Exception:
                    cache[k] = "?"
            return cache[k]

        def occ(e):
            return {x.id for x in ast.walk(e) if isinstance(x, ast.Name) and x.id in names} if isinstance(e, ast.AST) else set()
        fp = {n: Counter() for n in names}

        def lit(e, me):
            """text with only `me` masked: tells twins apart once their neighbours have their pinned names"""
            if not isinstance(e, ast.AST):
                return "?"
            m = copy.deepcopy(e)
            for x in ast.walk(m):
                if isinstance(x, ast.Name) and x.id == me:
                    x.id = "§"
            try:
                return cnorm(m, eqsym=True)[:160]
            except Exception:
                return "?"
        for a in self.assigns:
            involved = occ(a.target) | occ(a.value)
            for c, _ in a.guards:
                involved |= occ(c)
            for n in involved:
                fp[n]["L|" + lit(a.target, n) + "<=" + lit(a.value, n) + "|" + " & ".join(sorted(lit(c, n) for c, _ in a.guards))] += 1
        for a in self.assigns:
            dom = a.domain.split(":")[0] + ("@" + str(a.state[1]) if a.state else "")
            mt, mv = mask(a.target), mask(a.value)
            for n in occ(a.target):
                fp[n][f"T|{dom}|{mt}<={mv}"] += 1
                fp[n][f"t|{mt}"] += 1
            for n in occ(a.value):
                fp[n][f"V|{dom}|{mt}<={mv}"] += 1
                fp[n][f"v|{mt}"] += 1
            for c, _ in a.guards:
                for n in occ(c):
                    fp[n][f"g|{mt}"] += 1
        for c in self.conns:
            k = c["conn"]
            ms, md = mask(k.src), mask(k.dst)
            for n in occ(k.src) | occ(k.dst):
                fp[n][f"C|{ms}->{md}"] += 1
        for t in self.trans:
            for c, _ in t.guards:
                for n in occ(c):
                    fp[n][f"x|{t.src}->{t.dst}"] += 1
        for i in self.insts:
            if i.call is None:
                continue
            for k, a in enumerate(i.call.args):
                for n in occ(a):
                    fp[n][f"I|{i.cls}|{k}|{mask(a)}"] += 1
            for kw in i.call.keywords:
                for n in occ(kw.value):
                    fp[n][f"I|{i.cls}|{kw.arg}|{mask(kw.value)}"] += 1
        for n in names:
            d = self.decl.get(n)
            if d:
                fp[n][f"D|{d[0]}|{mask(d[1]) if isinstance(d[1], ast.AST) else ''}"] += 1
        for i in self.insts:
            if i.name in names:
                fp[i.name][f"D|inst|{i.cls}|{mask(i.call) if i.call is not None else ''}"] += 1
        return fp

    def _resolve_loop_vars(self, ctx, headers, pinned_headers):
        """A loop over the same iterable whose variables are named differently from the pinned tree's loop (same target shape) is
        read with the pinned names: rules address `slaves[i]`, whatever the index is called today."""
        from .core import cnorm
        by_iter = {}
        for t, it in pinned_headers:
            by_iter.setdefault(cnorm(it), set()).add(t)
        have = {(t, cnorm(it)) for t, it in headers}

        def leaves(text):
            try:
                e = ast.parse(text, mode="eval").body
            except SyntaxError:
                return None
            out = []

            def rec(x):
                if isinstance(x, ast.Name):
                    out.append(x.id)
                    return True
                if isinstance(x, (ast.Tuple, ast.List)):
                    return all(rec(y) for y in x.elts)
                return False
            return out if rec(e) else None
        for t, it in headers:
            cands = by_iter.get(cnorm(it), set())
            if t in cands or not cands:
                continue
            a_ = leaves(t)
            if a_ is None:
                continue
            scored = []
            for pt in sorted(cands):
                b_ = leaves(pt)
                if b_ is None or len(a_) != len(b_):
                    continue
                mp = {x: y for x, y in zip(a_, b_) if x != y and x != "_" and y != "_"}
                same = sum(1 for x, y in zip(a_, b_) if x == y)
                scored.append((same, pt, mp))
            if not scored:
                continue
            best = max(s_[0] for s_ in scored)
            tops = [s_ for s_ in scored if s_[0] == best]
            if any(s_[2] != tops[0][2] for s_ in tops):
                continue        # the pinned loops over this iterable disagree on what the variables are called
            pt, mp = tops[0][1], tops[0][2]
            if not mp:
                continue
            used_elsewhere = False
            for a in self.assigns:
                if (t, it) not in a.loops:
                    continue
                for e in [a.target, a.value] + [c for c, _ in a.guards]:
                    if isinstance(e, ast.AST) and any(isinstance(x, ast.Name) and x.id in mp.values() and x.id not in mp for x in ast.walk(e)):
                        used_elsewhere = True
            if used_elsewhere:
                continue
            import re as _re
            pat = _re.compile(r"\b(" + "|".join(_re.escape(k) for k in mp) + r")\b")
            for a in self.assigns:
                if (t, it) not in a.loops:
                    continue
                for e in [a.target, a.value] + [c for c, _ in a.guards]:
                    if isinstance(e, ast.AST):
                        for x in ast.walk(e):
                            if isinstance(x, ast.Name) and x.id in mp:
                                x.id = mp[x.id]
                a.loops = [((pt, i2) if (t2, i2) == (t, it) else (t2, i2)) for t2, i2 in a.loops]
                a.pyguards = [(pat.sub(lambda m_: mp[m_.group(1)], c), p) for c, p in a.pyguards]
                a._t = a._v = None
            for c in self.conns:
                if (t, it) in c["loops"]:
                    for e in [c["conn"].src, c["conn"].dst] + [g for g, _ in c["guards"]]:
                        if isinstance(e, ast.AST):
                            for x in ast.walk(e):
                                if isinstance(x, ast.Name) and x.id in mp:
                                    x.id = mp[x.id]
                    c["loops"] = [((pt, i2) if (t2, i2) == (t, it) else (t2, i2)) for t2, i2 in c["loops"]]
            ctx.note(f"{self.rel}::{self.scope}: loop `{t} in {it}` is read with the pinned loop variables `{pt}`")

    def _resolve_ir_renames(self, ctx, entries, _depth=0):
        key = f"{self.rel}::{self.scope}::{','.join(entries) if self.cls_name else ''}"
        headers = sorted({(t, it) for a in self.assigns for t, it in a.loops if not it.startswith("=")})
        if RECORD_IR is not None:
            names = [n for n in self.decl if n.isidentifier()] + [i.name for i in self.insts if i.name.isidentifier()]
            RECORD_IR[key] = {n: dict(c) for n, c in self._ir_fingerprints(names).items() if c}
            RECORD_IR[key]["#loops"] = [list(h) for h in headers]
            return
        if os.environ.get("LXS_NO_RENAME"):
            return
        pinned = _irtable().get(key)
        if not pinned:
            return
        pinned = dict(pinned)
        ploops = pinned.pop("#loops", [])
        if _depth == 0:
            self._resolve_loop_vars(ctx, headers, ploops)
        used = {x.id for a in self.assigns for e in (a.target, a.value) if isinstance(e, ast.AST) for x in ast.walk(e) if isinstance(x, ast.Name)}
        have = set(self.decl) | {i.name for i in self.insts}
        missing = [n for n in pinned if n not in have and n not in used]
        extra = [n for n in have if n.isidentifier() and n not in pinned]
        if not missing or not extra:
            return
        from . import names as _names
        from collections import Counter as _Counter

        def split(c):
            c = _Counter(c)
            return _Counter({k: v for k, v in c.items() if not k.startswith("L|")}), _Counter({k: v for k, v in c.items() if k.startswith("L|")})
        fp = self._ir_fingerprints(extra)
        cands = []
        for m in missing:
            pm, pl = split(pinned[m])
            scored = sorted(((_names.similarity(pm, split(fp[e])[0]), e) for e in extra), reverse=True)
            if not scored or scored[0][0] < 0.45:
                continue
            if len(scored) == 1 or scored[0][0] - scored[1][0] >= 0.2:
                cands.append((scored[0][0], scored[0][1], m))
                continue
            # twins (wr_/rd_ ...): the literal surroundings decide, if they do so clearly
            top = [e for sc, e in scored if scored[0][0] - sc < 0.2]
            lsc = sorted(((_names.similarity(pl, split(fp[e])[1]), e) for e in top), reverse=True)
            if lsc and lsc[0][0] >= 0.3 and (len(lsc) == 1 or lsc[0][0] - lsc[1][0] >= 0.2):
                cands.append((scored[0][0], lsc[0][1], m))
        mp = {}
        for sc, e, m in sorted(cands, reverse=True):
            if e in mp or m in mp.values():
                continue
            mp[e] = m
        if not mp:
            return

        def ren(e):
            if isinstance(e, ast.AST):
                for x in ast.walk(e):
                    if isinstance(x, ast.Name) and x.id in mp:
                        x.id = mp[x.id]
            return e
        import re as _re
        pat = _re.compile(r"\b(" + "|".join(_re.escape(k) for k in mp) + r")\b")

        def rens(t):
            return pat.sub(lambda m_: mp[m_.group(1)], t) if isinstance(t, str) else t
        for a in self.assigns:
            ren(a.target), ren(a.value)
            for c, _ in a.guards:
                ren(c)
            a.pyguards = [(rens(c), p) for c, p in a.pyguards]
            a._t = a._v = None
        for t in self.trans:
            for c, _ in t.guards:
                ren(c)
        for c in self.conns:
            ren(c["conn"].src), ren(c["conn"].dst)
            for g, _ in c["guards"]:
                ren(g)
        for i in self.insts:
            i.name = rens(i.name)
            if i.call is not None:
                ren(i.call)
        for f in self.fsms.values():
            if getattr(f, "alias", None):
                f.alias = rens(f.alias)
            f.name = rens(f.name)
        for e, m in mp.items():
            if e in self.decl:
                self.decl[m] = self.decl.pop(e)
            if e in self.localdefs:
                self.localdefs[m] = self.localdefs.pop(e)
            ctx.note(f"{self.rel}::{self.scope}: local object `{e}` is taken for `{m}` (renamed; resolved on the extracted IR)")
        for v in self.localdefs.values():
            ren(v)
        for d in self.decl.values():
            if len(d) > 1 and isinstance(d[1], ast.AST):
                ren(d[1])
        if _depth < 3:
            self._resolve_ir_renames(ctx, entries, _depth + 1)

    # ------------------------------------------------------------------ class structure
    def _lookup_class(self, name):
        for m in [self.mod] + self.extra_mods:
            if name in m.classes:
                return m.classes[name], m
        return None

    def _mro(self, cnode, mod):
        out = [(cnode, mod)]
        seen = {cnode.name}
        todo = list(cnode.bases)
        while todo:
            b = todo.pop(0)
            bn = b.id if isinstance(b, ast.Name) else (b.attr if isinstance(b, ast.Attribute) else None)
            if bn is None or bn in seen:
                continue
            seen.add(bn)
            r = self._lookup_class(bn)
            if r:
                out.append(r)
                todo.extend(r[0].bases)
        return out

    def _find_method(self, name, start_after=None):
        skipping = start_after is not None
        for cnode, mod in self.mro:
            if skipping:
                if cnode.name == start_after:
                    skipping = False
                continue
            for n in cnode.body:
                if isinstance(n, ast.FunctionDef) and n.name == name:
                    return n, mod
        return None

    def _find_method_in(self, cname, name):
        for cnode, mod in self.mro:
            if cnode.name == cname:
                for n in cnode.body:
                    if isinstance(n, ast.FunctionDef) and n.name == name:
                        return n, mod
        r = self._lookup_class(cname)
        if r:
            for n in r[0].body:
                if isinstance(n, ast.FunctionDef) and n.name == name:
                    return n, r[1]
        return None

    # ------------------------------------------------------------------ parameter binding
    def _bind_params(self, fn, env, args, kwargs, is_method, symbolic=False):
        a = fn.args
        params = [p.arg for p in a.posonlyargs + a.args]
        if is_method and params:
            params = params[1:]
        defaults = dict(zip(reversed(params), reversed(a.defaults))) if a.defaults else {}
        self._params_seen.update(params)
        self._params_seen.update(p.arg for p in a.kwonlyargs)
        for i, p in enumerate(params):
            if i < len(args):
                env[p] = args[i]
            elif p in kwargs:
                env[p] = kwargs[p]
            elif symbolic:
                env[p] = ast.Name(id=p, ctx=ast.Load())
            elif p in defaults:
                env[p] = self._value_of_default(defaults[p])
            else:
                env[p] = ast.Name(id=p, ctx=ast.Load())
        for p, d in zip(a.kwonlyargs, a.kw_defaults):
            if p.arg in kwargs:
                env[p.arg] = kwargs[p.arg]
            elif symbolic or d is None:
                env[p.arg] = ast.Name(id=p.arg, ctx=ast.Load())
            else:
                env[p.arg] = self._value_of_default(d)
        if a.vararg:
            rest = args[len(params):]
            if rest:
                env[a.vararg.arg] = PyList([([], [], r) for r in rest])
            else:
                env[a.vararg.arg] = ast.Name(id=a.vararg.arg, ctx=ast.Load())
        if a.kwarg:
            env[a.kwarg.arg] = ast.Name(id=a.kwarg.arg, ctx=ast.Load())

    def _value_of_default(self, d):
        if isinstance(d, ast.Constant):
            return d
        return copy.deepcopy(d)

    # ------------------------------------------------------------------ canonicalisation
    def canon(self, e, env):
        """Canonical expression: locals/aliases substituted, literal arithmetic folded."""
        r = _Canon(self, env).visit(copy.deepcopy(e))
        if isinstance(r, ast.AST) and not os.environ.get("LXS_NO_CMPCANON"):
            from . import names
            r = names.canon_consts(ast.Expression(body=r)).body
        return r

    def ctext(self, e, env):
        return norm(self.canon(e, env))

    # ------------------------------------------------------------------ running code
    def _run_function(self, fn, env):
        try:
            self._exec_block(fn.body, env)
        except _Return as r:
            return r.value
        return None

    def _terminal(self, body):
        if not body:
            return False
        last = body[-1]
        if isinstance(last, (ast.Return, ast.Raise)):
            return True
        if isinstance(last, ast.If):
            return bool(last.orelse) and self._terminal(last.body) and self._terminal(last.orelse)
        return False

    def _raises(self, body):
        """the block always ends in `raise` (input validation): not a configuration of the design"""
        if not body:
            return False
        last = body[-1]
        if isinstance(last, ast.Raise):
            return True
        if isinstance(last, ast.If):
            return bool(last.orelse) and self._raises(last.body) and self._raises(last.orelse)
        return False

    def _exec_block(self, body, env):
        pushed = 0
        try:
            for i, st in enumerate(body):
                r = self._exec(st, env)
                if r is not None:
                    # `if c: ... return/raise` => the rest of the block is under `not c`
                    self.pyguards.extend(r)
                    pushed += len(r)
        finally:
            for _ in range(pushed):
                self.pyguards.pop()

    def _exec(self, st, env):
        m = getattr(self, "_x_" + type(st).__name__, None)
        if m is None:
            return None
        return m(st, env)

    # ---- statements
    def _x_Pass(self, st, env):
        return None

    def _x_Assert(self, st, env):
        return None

    def _x_Return(self, st, env):
        if len(self.pyguards) > (self.pyguards_at_entry or 0):
            # conditional return: record value, continue under negated condition (handled by caller)
            self._cond_returns.append((list(self.pyguards[(self.pyguards_at_entry or 0):]),
                                       self._value(st.value, env) if st.value is not None else None))
            return None
        raise _Return(self._value(st.value, env) if st.value is not None else None)

    pyguards_at_entry = 0
    _cond_returns = []

    def _x_Raise(self, st, env):
        return None

    def _x_FunctionDef(self, st, env):
        env[st.name] = Closure(st, env)
        return None

    def _x_ClassDef(self, st, env):
        self.local_classes[st.name] = (st, env)
        return None

    def _x_Import(self, st, env):
        return None

    _x_ImportFrom = _x_Import
    _x_Global = _x_Import
    _x_Nonlocal = _x_Import
    _x_Delete = _x_Import

    def _x_With(self, st, env):
        self._exec_block(st.body, env)

    def _x_Try(self, st, env):
        self._exec_block(st.body, env)
        for h in st.handlers:
            self.pyguards.append((f"except@{h.lineno}", True))
            try:
                self._exec_block(h.body, env)
            finally:
                self.pyguards.pop()
        self._exec_block(st.orelse, env)
        self._exec_block(st.finalbody, env)

    def _x_While(self, st, env):
        self.loops.append(("while", self.ctext(st.test, env)))
        try:
            self._exec_block(st.body, env)
        finally:
            self.loops.pop()

    def _pgs(self, test, env, pol=True):
        """Normalised pyguard list for a Python condition: strips `not`, splits `and` (pol True) /
        `or` (pol False)."""
        c = self.canon(test, env)
        return _pg_norm(c, pol)

    def _static_bool(self, test, env):
        """True/False when the Python condition is decidable from constants, else None."""
        c = self.canon(test, env)

        def ev(n):
            if isinstance(n, ast.Constant):
                return ("v", n.value)
            if isinstance(n, ast.UnaryOp) and isinstance(n.op, ast.Not):
                r = ev(n.operand)
                return ("v", not r[1]) if r else None
            if isinstance(n, ast.BoolOp):
                vals = [ev(x) for x in n.values]
                if isinstance(n.op, ast.And):
                    if any(v is not None and not v[1] for v in vals):
                        return ("v", False)
                    if all(v is not None for v in vals):
                        return ("v", all(v[1] for v in vals))
                else:
                    if any(v is not None and v[1] for v in vals):
                        return ("v", True)
                    if all(v is not None for v in vals):
                        return ("v", any(v[1] for v in vals))
                return None
            if isinstance(n, ast.Compare) and len(n.ops) == 1:
                a, b = ev(n.left), ev(n.comparators[0])
                op = n.ops[0]
                if a is not None and isinstance(op, (ast.In, ast.NotIn)) and isinstance(n.comparators[0], (ast.List, ast.Tuple, ast.Set)) \
                        and all(isinstance(x, ast.Constant) for x in n.comparators[0].elts):
                    res = a[1] in [x.value for x in n.comparators[0].elts]
                    return ("v", res if isinstance(op, ast.In) else not res)
                if a is not None and b is not None:
                    try:
                        if isinstance(op, (ast.Is, ast.Eq)):
                            return ("v", a[1] is b[1] if isinstance(op, ast.Is) else a[1] == b[1])
                        if isinstance(op, (ast.IsNot, ast.NotEq)):
                            return ("v", a[1] is not b[1] if isinstance(op, ast.IsNot) else a[1] != b[1])
                    except Exception:
                        return None
                if isinstance(n.left, ast.Name) and isinstance(n.comparators[0], ast.Name) and \
                        isinstance(op, (ast.Eq, ast.NotEq)):
                    x, y = n.left.id, n.comparators[0].id
                    if x == y:
                        return ("v", isinstance(op, ast.Eq))
                    if x.isupper() and y.isupper() and x not in env and y not in env:
                        # two distinct ALL-CAPS module constants (enum members): assumed distinct
                        return ("v", isinstance(op, ast.NotEq))
                # `<hardware path> is None` where the path is a definite object reference
                if isinstance(op, (ast.Is, ast.IsNot)) and b is not None and b[1] is None and \
                        isinstance(n.left, (ast.Attribute, ast.Subscript)) and norm(n.left) in self.decl:
                    return ("v", isinstance(op, ast.IsNot))
            return None
        r = ev(c)
        return None if r is None else bool(r[1])

    def _x_If(self, st, env):
        sb = self._static_bool(st.test, env)
        if sb is True:
            self._exec_block(st.body, env)
            return None
        if sb is False:
            self._exec_block(st.orelse, env)
            return None
        pg_t = self._pgs(st.test, env, True)
        pg_f = self._pgs(st.test, env, False)
        snap_env, snap_attr = dict(env), dict(self.attr)
        self.pyguards.extend(pg_t)
        try:
            self._exec_block(st.body, env)
        finally:
            del self.pyguards[len(self.pyguards) - len(pg_t):]
        a_env, a_attr = dict(env), dict(self.attr)
        env.clear()
        env.update(snap_env)
        self.attr.clear()
        self.attr.update(snap_attr)
        if st.orelse:
            self.pyguards.extend(pg_f)
            try:
                self._exec_block(st.orelse, env)
            finally:
                del self.pyguards[len(self.pyguards) - len(pg_f):]
        tb, te = self._terminal(st.body), (bool(st.orelse) and self._terminal(st.orelse))
        b_env, b_attr = dict(env), dict(self.attr)
        cnode = self.canon(st.test, snap_env)
        self._merge(env, a_env, b_env, tb, te, is_attr=False, cond=cnode, snap=snap_env, pgs=(pg_t, pg_f))
        self._merge(self.attr, a_attr, b_attr, tb, te, is_attr=True, cond=cnode, pgs=(pg_t, pg_f))
        if tb and not te:
            return None if self._raises(st.body) else pg_f
        if te and not tb:
            return None if self._raises(st.orelse) else pg_t
        return None

    def _stmt_union(self, va, vb, pgs):
        """a statement-valued local bound differently on the two branches of a Python `if`: the list of both, each under its
        branch condition (what `self.sync += If(c, update)` after the if adds)"""
        out = []
        for v, pg in ((va, pgs[0]), (vb, pgs[1])):
            if v is None:
                continue
            full = list(self.pyguards) + [g for g in pg if g not in self.pyguards]
            if isinstance(v, PyList):
                for lp, ipg, x in v.items:
                    out.append((list(lp), list(ipg) + [g for g in full if g not in ipg], x))
            else:
                out.append((list(self.loops), full, v))
        return PyList(out)

    def _merge(self, out, a, b, ta, tb, is_attr, cond=None, snap=None, pgs=None):
        out.clear()
        if ta and not tb:
            out.update(b)
            return
        if tb and not ta:
            out.update(a)
            return
        for k in list(a.keys()) + [k for k in b.keys() if k not in a]:
            if k not in b:
                out[k] = a[k]
            elif k not in a:
                out[k] = b[k]
            else:
                va, vb = a[k], b[k]
                if va is vb:
                    out[k] = va
                elif isinstance(va, ast.AST) and isinstance(vb, ast.AST):
                    if norm(va) == norm(vb):
                        out[k] = va
                    elif is_attr:
                        out[k] = _path_ast(k)   # an attribute bound differently on two branches: its own path names it
                    elif snap is not None and isinstance(snap.get(k), ast.Name) and snap[k].id == k and k not in self.localdefs:
                        out[k] = snap[k]        # normalisation of a symbolic parameter: stays symbolic
                    elif cond is not None and len(norm(va)) + len(norm(vb)) < 200:
                        out[k] = ast.IfExp(test=copy.deepcopy(cond), body=copy.deepcopy(va), orelse=copy.deepcopy(vb))
                    elif is_attr:
                        out[k] = _path_ast(k)
                    else:
                        if cond is not None:
                            # too long to carry along: the name stays, its two-way definition is remembered for expand()
                            prev = self.localdefs.get(k)

                            def unself(v):
                                class U(ast.NodeTransformer):
                                    def visit_Name(self, n):
                                        return copy.deepcopy(prev) if (n.id == k and prev is not None) else n
                                return U().visit(copy.deepcopy(v))
                            self.localdefs[k] = ast.IfExp(test=copy.deepcopy(cond), body=unself(va), orelse=unself(vb))
                        out[k] = ast.Name(id=k, ctx=ast.Load())
                elif pgs is not None and not is_attr and (isinstance(va, (Node, PyList)) or isinstance(vb, (Node, PyList))) and \
                        all(v is None or isinstance(v, (Node, PyList)) for v in (va, vb)):
                    out[k] = self._stmt_union(va, vb, pgs)
                else:
                    out[k] = vb

    def _desugar_comp_loop(self, st, env):
        """`for T in [E for V in X if C]: body` is `for V in X: if C: T = E; body` (likewise under enumerate): a loop over a derived
        list reads like the loop over the list it is derived from."""
        it = st.iter
        enum = isinstance(it, ast.Call) and _is_name(it.func, "enumerate") and len(it.args) == 1 and isinstance(st.target, ast.Tuple) and \
            len(st.target.elts) == 2
        src = it.args[0] if enum else it
        lc = src
        if isinstance(src, ast.Name) and isinstance(env.get(src.id), (ast.ListComp, ast.GeneratorExp)):
            lc = env[src.id]
        if not (isinstance(lc, (ast.ListComp, ast.GeneratorExp)) and len(lc.generators) == 1 and not st.orelse):
            return None
        g = lc.generators[0]
        tgt = st.target.elts[1] if enum else st.target
        bound = {x.id for x in ast.walk(g.target) if isinstance(x, ast.Name)}
        body_names = {x.id for b in st.body for x in ast.walk(b) if isinstance(x, ast.Name)} - {x.id for x in ast.walk(tgt) if isinstance(x, ast.Name)}
        if bound & body_names:
            return None         # the comprehension variable would capture a name of the body
        inner = [ast.Assign(targets=[copy.deepcopy(tgt)], value=copy.deepcopy(lc.elt))] + list(st.body)
        for c in reversed(g.ifs):
            inner = [ast.If(test=copy.deepcopy(c), body=inner, orelse=[])]
        if enum:
            if g.ifs:
                return None     # positions in the filtered list are not positions in the source list
            new = ast.For(target=ast.Tuple(elts=[copy.deepcopy(st.target.elts[0]), copy.deepcopy(g.target)], ctx=ast.Store()),
                          iter=ast.Call(func=ast.Name(id="enumerate", ctx=ast.Load()), args=[copy.deepcopy(g.iter)], keywords=[]),
                          body=inner, orelse=[])
        else:
            new = ast.For(target=copy.deepcopy(g.target), iter=copy.deepcopy(g.iter), body=inner, orelse=[])
        return ast.fix_missing_locations(ast.copy_location(new, st))

    def _x_For(self, st, env):
        ds = self._desugar_comp_loop(st, env)
        if ds is not None:
            return self._x_For(ds, env)
        it = st.iter
        # unroll small literal iterables
        lit = self._literal_iter(it, env)
        if lit is not None:
            for val in lit:
                self._bind_target_const(st.target, val, env)
                self.loops.append((norm(st.target), "=" + repr(val)))
                try:
                    self._exec_block(st.body, env)
                finally:
                    self.loops.pop()
            return None
        # a short literal list of tuples (e.g. a layout): one iteration per element, names bound to the element's parts
        lit_ast = it
        if isinstance(it, ast.Name) and isinstance(env.get(it.id), (ast.List, ast.Tuple)):
            lit_ast = env[it.id]
        if isinstance(lit_ast, (ast.List, ast.Tuple)) and 0 < len(lit_ast.elts) <= 16 and isinstance(st.target, (ast.Tuple, ast.List)) and \
                not st.orelse and all(isinstance(e, (ast.Tuple, ast.List)) and len(e.elts) == len(st.target.elts) and
                                      not any(isinstance(x, ast.Starred) for x in e.elts) for e in lit_ast.elts) and \
                all(isinstance(t, ast.Name) for t in st.target.elts):
            for e in lit_ast.elts:
                for t, x in zip(st.target.elts, e.elts):
                    env[t.id] = x if isinstance(x, ast.Constant) else self.canon(x, env)
                self.loops.append((norm(st.target), "=" + norm(e)[:60]))
                try:
                    self._exec_block(st.body, env)
                finally:
                    self.loops.pop()
            return None
        tab = self._dict_items(it, env)
        if tab is not None and isinstance(st.target, ast.Tuple) and len(st.target.elts) == 2 and \
                all(isinstance(t, ast.Name) for t in st.target.elts):
            for k, v in tab:
                env[st.target.elts[0].id] = k
                env[st.target.elts[1].id] = v
                self._exec_block(st.body, env)
            return None
        self._bind_loop(st.target, it, env)
        self.loops.append((norm(st.target), self.ctext(it, env)))
        try:
            self._exec_block(st.body, env)
        finally:
            self.loops.pop()
        if st.orelse:
            self._exec_block(st.orelse, env)
        return None

    def _dict_items(self, it, env):
        """`d.items()` of a small Python dict built unconditionally from a literal: [(key ast, value)] to unroll."""
        if not (isinstance(it, ast.Call) and isinstance(it.func, ast.Attribute) and it.func.attr == "items" and not it.args):
            return None
        d = it.func.value
        v = self._value(d, env) if isinstance(d, (ast.Name, ast.Dict)) else None
        if not isinstance(v, PyDict) or not (0 < len(v.items) <= 16):
            return None
        out = []
        for key, val, lp, pg in v.items:
            if lp or pg or not (isinstance(val, ast.Constant) or isinstance(val, ast.Name) and val.id not in env):
                return None         # only a table of constants is unrolled; a dict of signals keeps its symbolic loop form
            out.append((ast.Constant(value=key) if isinstance(key, str) else key, val))
        return out

    def _literal_iter(self, it, env):
        """A small literal table to unroll (module-level literal or inline literal of tuples)."""
        if isinstance(it, ast.Name) and it.id not in env:
            for m in [self.mod] + self.extra_mods:
                if it.id in m.assigns:
                    try:
                        v = _lit_eval(m.assigns[it.id], m)
                    except ValueError:
                        return None
                    if isinstance(v, (list, tuple)) and 0 < len(v) <= 40:
                        return v
        if isinstance(it, (ast.List, ast.Tuple)) and it.elts and all(isinstance(e, ast.Constant) for e in it.elts):
            return [e.value for e in it.elts]
        return None

    def _bind_target_const(self, target, val, env):
        if isinstance(target, ast.Name):
            env[target.id] = _to_ast(val)
        elif isinstance(target, (ast.Tuple, ast.List)):
            vals = list(val) if isinstance(val, (list, tuple)) else [val]
            for k, t in enumerate(target.elts):
                if isinstance(t, ast.Starred):
                    self._bind_target_const(t.value, tuple(vals[k:]), env)
                    break
                self._bind_target_const(t, vals[k] if k < len(vals) else None, env)

    def _bind_loop(self, target, it, env):
        """Bind loop variables symbolically: element variables become `xs[i]`."""
        def sym(name):
            return ast.Name(id=name, ctx=ast.Load())

        def elem(seq_expr, idx):
            v = self._value(seq_expr, env)
            if isinstance(v, (PyList, PyDict)):
                # element of a python container: keep symbolic by the container's *name*
                return ast.Subscript(value=copy.deepcopy(seq_expr) if isinstance(seq_expr, ast.Name)
                                     else ast.Name(id=norm(seq_expr), ctx=ast.Load()), slice=idx, ctx=ast.Load())
            return ast.Subscript(value=self.canon(seq_expr, env), slice=idx, ctx=ast.Load())

        if isinstance(it, ast.Call) and _is_name(it.func, "enumerate") and isinstance(target, ast.Tuple) \
                and len(target.elts) == 2 and isinstance(target.elts[0], ast.Name):
            i = target.elts[0].id
            env[i] = sym(i)
            self._bind_elem(target.elts[1], elem(it.args[0], sym(i)), env, it.args[0])
            return
        if isinstance(it, ast.Call) and _is_name(it.func, "zip") and isinstance(target, ast.Tuple) \
                and len(target.elts) == len(it.args):
            idx = "_k" + "".join(t.id for t in target.elts if isinstance(t, ast.Name))[:12]
            for t, a in zip(target.elts, it.args):
                self._bind_elem(t, elem(a, sym(idx)), env, a)
            return
        if isinstance(it, ast.Call) and _is_name(it.func, "range"):
            if isinstance(target, ast.Name):
                env[target.id] = sym(target.id)
            return
        if isinstance(it, ast.Call) and isinstance(it.func, ast.Attribute) and it.func.attr == "items" \
                and isinstance(target, ast.Tuple) and len(target.elts) == 2:
            k, v = target.elts
            if isinstance(k, ast.Name):
                env[k.id] = sym(k.id)
                self._bind_elem(v, elem(it.func.value, sym(k.id)), env, None)
                return
        if isinstance(it, ast.Call) and _is_name(it.func, "reversed") and len(it.args) == 1:
            return self._bind_loop(target, it.args[0], env)
        if isinstance(it, ast.Call) and _is_name(it.func, "sorted") and len(it.args) >= 1:
            return self._bind_loop(target, it.args[0], env)
        if isinstance(target, ast.Name):
            v = self._value(it, env) if isinstance(it, (ast.Name, ast.Attribute)) else None

            def index_range(x):
                # range(..), possibly wrapped / reordered: the loop variable is a plain index
                if isinstance(x, ast.Call) and isinstance(x.func, ast.Name):
                    if x.func.id == "range":
                        return True
                    if x.func.id in ("list", "reversed", "sorted", "tuple") and len(x.args) == 1:
                        return index_range(x.args[0])
                if isinstance(x, ast.IfExp):
                    return index_range(x.body) and index_range(x.orelse)
                return False
            if isinstance(v, ast.AST) and index_range(v):
                env[target.id] = sym(target.id)
                return
            if isinstance(it, (ast.Name, ast.Attribute, ast.Subscript)):
                env[target.id] = elem(it, sym("_" + target.id))
            else:
                env[target.id] = sym(target.id)
            return
        # generic: symbolic names
        for n in ast.walk(target):
            if isinstance(n, ast.Name):
                env[n.id] = sym(n.id)

    def _bind_elem(self, t, value, env, seq):
        if isinstance(t, ast.Name):
            env[t.id] = value
        elif isinstance(t, (ast.Tuple, ast.List)) and not any(isinstance(x, ast.Starred) for x in t.elts):
            for k, tt in enumerate(t.elts):
                self._bind_elem(tt, ast.Subscript(value=copy.deepcopy(value), slice=ast.Constant(value=k),
                                                  ctx=ast.Load()), env, seq)
        else:
            for n in ast.walk(t):
                if isinstance(n, ast.Name):
                    env[n.id] = ast.Name(id=n.id, ctx=ast.Load())

    def _x_Expr(self, st, env):
        v = st.value
        if isinstance(v, ast.Constant):
            return None
        if isinstance(v, ast.Call):
            self._call_stmt(v, env)
        elif isinstance(v, ast.Tuple):
            for x in v.elts:
                if isinstance(x, ast.Call):
                    self._call_stmt(x, env)
        return None

    def _x_AnnAssign(self, st, env):
        if st.value is not None:
            self._assign([st.target], st.value, env, st)

    def _x_Assign(self, st, env):
        self._assign(st.targets, st.value, env, st)

    def _assign(self, targets, value, env, st):
        val = self._value(value, env, targets=targets, st=st)
        if len(targets) == 1 and isinstance(targets[0], ast.Name) and isinstance(val, ast.AST) and \
                not isinstance(val, (ast.Name, ast.Constant)) and self._is_numeric(val) and len(norm(val)) > 12 and \
                self._keeps_name(targets[0].id):
            self.numeric.add(targets[0].id)
            self.localdefs[targets[0].id] = val
            val = ast.Name(id=targets[0].id, ctx=ast.Load())
        if isinstance(val, ast.ListComp) and isinstance(val.elt, ast.Call) and (_callee_name(val.elt) or "x")[0].isupper() and \
                any(isinstance(t, ast.Attribute) and _is_name(t.value, "self") for t in targets):
            nm = self._fresh_name(targets, env, None)
            if nm is not None:
                self.localdefs[norm(nm)] = val
                val = nm
        if len(targets) == 1 and isinstance(targets[0], ast.Name) and isinstance(val, ast.ListComp) and \
                isinstance(val.elt, ast.Call) and (_callee_name(val.elt) or "x")[0].isupper():
            # a list of freshly built objects: keep the list's name
            self.localdefs[targets[0].id] = val
            val = ast.Name(id=targets[0].id, ctx=ast.Load())
        if len(targets) == 1 and isinstance(targets[0], ast.Name) and isinstance(val, (ast.DictComp, ast.SetComp)):
            # a Python-level lookup table: keep its name
            self.localdefs[targets[0].id] = val
            val = ast.Name(id=targets[0].id, ctx=ast.Load())
        if len(targets) == 1 and isinstance(targets[0], ast.Name) and isinstance(val, ast.AST) and \
                not isinstance(val, (ast.Name, ast.Constant)) and len(norm(val)) > 90 and targets[0].id not in env and \
                self._keeps_name(targets[0].id):
            # long expression bound to a local: keep the local's name (readable IR), remember the definition
            self.localdefs[targets[0].id] = val
            val = ast.Name(id=targets[0].id, ctx=ast.Load())
        for t in targets:
            self._store(t, val, env, st, value)

    def _inlinable_helper(self, mod, name):
        """Module-level helper functions that build statements/expressions are inlined when they are on the list the rules were
        written with, or when the pinned tree does not have them at all (extract-function refactoring)."""
        if name in INLINE_HELPERS:
            return True
        from . import names
        return names.new_toplevel(mod.rel, name)

    def _keeps_name(self, name):
        """A local bound to a long / numeric expression keeps its name in the IR only when the name is one the rules were written
        against (recorded in localnames.json); a local introduced later (extract-variable refactoring) is inlined, so the IR does
        not depend on it."""
        return self.known_locals is None or name in self.known_locals or name in self._params_seen

    NUMERIC_FUNCS = {"len", "log2_int", "max", "min", "int", "bits_for", "log2", "ceil", "floor", "abs", "round", "layout_len"}

    def _is_numeric(self, e):
        """Python-level integer arithmetic (widths, ratios): rooted in len()/log2_int()/... calls or numeric locals."""
        if isinstance(e, ast.Call) and isinstance(e.func, ast.Name) and e.func.id in self.NUMERIC_FUNCS:
            return True
        if isinstance(e, ast.Call) and isinstance(e.func, ast.Attribute) and e.func.attr in ("log2", "ceil", "floor") and \
                _is_name(e.func.value, "math"):
            return True
        if isinstance(e, ast.Name):
            return e.id in self.numeric
        if isinstance(e, ast.Subscript) and isinstance(e.value, ast.Dict) and e.value.values and \
                all(isinstance(v, ast.Constant) or self._is_numeric(v) for v in e.value.values):
            return True         # {"word": 0, "byte": log2_int(..)}[addressing]: a Python-level shift amount
        if isinstance(e, ast.Constant):
            return isinstance(e.value, (int, float)) and not isinstance(e.value, bool)
        if isinstance(e, ast.BinOp) and isinstance(e.op, (ast.FloorDiv, ast.Mod, ast.Pow)):
            # `//`, `%`, `**` do not exist on hardware values: Python-level integer arithmetic
            def leaves_ok(x):
                if isinstance(x, ast.BinOp):
                    return leaves_ok(x.left) and leaves_ok(x.right)
                if isinstance(x, ast.UnaryOp):
                    return leaves_ok(x.operand)
                if isinstance(x, (ast.Name, ast.Attribute)):
                    return True
                if isinstance(x, ast.Constant):
                    return isinstance(x.value, (int, float)) and not isinstance(x.value, bool)
                return self._is_numeric(x)
            if leaves_ok(e):
                return True
        if isinstance(e, ast.BinOp) and isinstance(e.op, (ast.Add, ast.Sub, ast.Mult, ast.FloorDiv, ast.Mod, ast.Pow, ast.LShift,
                                                          ast.RShift, ast.Div)):
            a, b = self._is_numeric(e.left), self._is_numeric(e.right)
            if a and b:
                return not (isinstance(e.left, ast.Constant) and isinstance(e.right, ast.Constant))
            # one side a plain parameter name (cachesize, ratio): numeric if the other side is
            if a and isinstance(e.right, ast.Name) or b and isinstance(e.left, ast.Name):
                return True
        return False

    def _store(self, t, val, env, st, value_node=None):
        if isinstance(val, FSMRef) and val.fid in self.fsms and isinstance(t, ast.Attribute):
            self.fsms[val.fid].alias = norm(t).replace("self.submodules.", "self.")
        if isinstance(t, ast.Name):
            env[t.id] = val
        elif isinstance(t, ast.Attribute):
            key = self._akey(t, env)
            base = t.value
            # self.submodules.x = ..., self.specials.x = ...
            if isinstance(base, ast.Attribute) and _is_name(base.value, "self") and \
                    base.attr in ("submodules", "specials", "clock_domains"):
                self.attr["self." + t.attr] = val
                return
            self.attr[key] = val
            if isinstance(val, ast.Name) and val.id in self.decl and key.startswith("self.") and key not in self.decl and \
                    not isinstance(env.get("self"), ast.AST):
                self.attr_alias.setdefault(val.id, key)      # x = Signal(); self.x = x : the object is known by its attribute name
        elif isinstance(t, ast.Subscript):
            cont = self._value(t.value, env)
            if isinstance(cont, PyDict):
                k = t.slice
                key = k.value if isinstance(k, ast.Constant) and isinstance(k.value, str) else self.canon(k, env)
                cont.items.append((key, val, list(self.loops), list(self.pyguards)))
            elif isinstance(cont, PyList):
                cont.items.append((list(self.loops), list(self.pyguards), val))
        elif isinstance(t, (ast.Tuple, ast.List)):
            if isinstance(value_node, (ast.Tuple, ast.List)) and len(value_node.elts) == len(t.elts):
                for tt, vv in zip(t.elts, value_node.elts):
                    self._store(tt, self._value(vv, env, targets=[tt], st=st), env, st, vv)
            elif isinstance(val, PyTuple) and len(val.vals) == len(t.elts):
                for tt, vv in zip(t.elts, val.vals):
                    self._store(tt, vv, env, st, None)
            elif isinstance(val, (ast.Tuple, ast.List)) and len(val.elts) == len(t.elts) and \
                    not any(isinstance(x, ast.Starred) for x in list(val.elts) + list(t.elts)):
                for tt, vv in zip(t.elts, val.elts):
                    self._store(tt, vv, env, st, None)
            else:
                for k, tt in enumerate(t.elts):
                    if isinstance(tt, ast.Name):
                        if isinstance(val, ast.AST) and len(norm(val)) > 40:
                            self.localdefs[tt.id] = ast.Subscript(value=copy.deepcopy(val), slice=ast.Constant(value=k), ctx=ast.Load())
                            env[tt.id] = ast.Name(id=tt.id, ctx=ast.Load())
                        elif isinstance(val, ast.AST):
                            env[tt.id] = ast.Subscript(value=copy.deepcopy(val), slice=ast.Constant(value=k), ctx=ast.Load())
                        else:
                            env[tt.id] = ast.Name(id=tt.id, ctx=ast.Load())

    def _x_AugAssign(self, st, env):
        t = st.target
        if not isinstance(st.op, ast.Add):
            if isinstance(t, ast.Name):
                cur = env.get(t.id, ast.Name(id=t.id, ctx=ast.Load()))
                if isinstance(cur, ast.AST):
                    env[t.id] = ast.BinOp(left=copy.deepcopy(cur), op=st.op, right=self.canon(st.value, env))
            return None
        dom = self._stmt_domain(t, env)
        if dom is not None:
            self._add(dom, st.value, env, st)
            return None
        # self.submodules += x / self.specials += x / self.clock_domains += x
        sa = None
        if isinstance(t, ast.Attribute) and t.attr in ("submodules", "specials", "clock_domains"):
            sa = t.attr
            name = None
        elif isinstance(t, ast.Attribute) and isinstance(t.value, ast.Attribute) and \
                t.value.attr in ("submodules", "specials", "clock_domains"):
            sa = t.value.attr
            name = t.attr
        if sa is not None:
            self._add_objects(sa, name, st.value, env, st)
            return None
        if isinstance(t, ast.Name):
            cur = env.get(t.id)
            if isinstance(cur, PyList):
                v = self._value(st.value, env)
                if isinstance(v, PyList):
                    cur.items.extend(v.items)
                else:
                    cur.items.append((list(self.loops), list(self.pyguards), v))
                return None
            if cur is None:
                cur = ast.Name(id=t.id, ctx=ast.Load())
            if isinstance(cur, ast.AST):
                env[t.id] = ast.BinOp(left=copy.deepcopy(cur), op=ast.Add(), right=self.canon(st.value, env))
        elif isinstance(t, ast.Attribute):
            key = self._akey(t, env)
            cur = self.attr.get(key)
            if isinstance(cur, PyList):
                v = self._value(st.value, env)
                if isinstance(v, PyList):
                    cur.items.extend(v.items)
                else:
                    cur.items.append((list(self.loops), list(self.pyguards), v))
        return None

    def _akey(self, t, env):
        """Key of attribute path `t` in the alias map."""
        if _self_attr(t) and not isinstance(env.get("self"), ast.AST):
            return "self." + t.attr
        n = copy.deepcopy(t)
        n.value = self.canon(n.value, env)
        return norm(n)

    def _stmt_domain(self, t, env):
        """Is `t` (the target of +=) a statement container?  Returns domain string or None."""
        if isinstance(t, ast.Name):
            v = env.get(t.id)
            if isinstance(v, SyncDom):
                return v.domain
            return None
        if isinstance(t, ast.Attribute):
            if t.attr == "comb" and isinstance(t.value, (ast.Name, ast.Attribute)):
                if _is_name(t.value, "self"):
                    return "comb"
                return "comb@" + self.ctext(t.value, env)
            if t.attr == "sync" and isinstance(t.value, (ast.Name, ast.Attribute)):
                if _is_name(t.value, "self"):
                    return "sync:sys"
                return "sync:sys@" + self.ctext(t.value, env)
            if isinstance(t.value, ast.Attribute) and t.value.attr == "sync":
                if _is_name(t.value.value, "self"):
                    return "sync:" + t.attr
                return "sync:" + t.attr + "@" + self.ctext(t.value.value, env)
        return None

    # ---- values
    def _value(self, e, env, targets=None, st=None):
        """Python-level value of expression `e`: PyList/PyDict/Closure/FSMRef/SyncDom/Node or a
        canonical ast expression."""
        if e is None:
            return None
        if isinstance(e, ast.Name):
            if e.id in env:
                return env[e.id]
            return e
        if isinstance(e, ast.Attribute):
            key = self._akey(e, env)
            if key and key in self.attr:
                v = self.attr[key]
                if not isinstance(v, ast.AST):
                    return v
            return self.canon(e, env)
        if isinstance(e, ast.List) or isinstance(e, ast.Tuple):
            if self._looks_like_stmts(e, env):
                return PyList([(list(self.loops), list(self.pyguards), n) for n in self._stmts(e, env)])
            if isinstance(e, ast.List):
                return PyList([([], [], self._value(x, env)) for x in e.elts])
            vals = [self._value(x, env) for x in e.elts]
            if any(not isinstance(v, ast.AST) and v is not None for v in vals):
                return PyTuple(vals)
            return self.canon(e, env)
        if isinstance(e, ast.Dict):
            d = PyDict()
            for k, v in zip(e.keys, e.values):
                if k is None:
                    continue
                key = k.value if isinstance(k, ast.Constant) and isinstance(k.value, str) else self.canon(k, env)
                d.items.append((key, self._value(v, env), [], []))
            return d
        if isinstance(e, ast.DictComp) and len(e.generators) == 1 and not e.generators[0].ifs:
            env2 = dict(env)
            g = e.generators[0]
            self._bind_loop(g.target, g.iter, env2)
            if self._is_stmt_expr(e.value, env2):
                # {key: [statements] for ...}: the same value a loop filling `cases[key] = [...]` builds
                self.loops.append((norm(g.target), self.ctext(g.iter, env2)))
                try:
                    d = PyDict()
                    k = e.key
                    key = k.value if isinstance(k, ast.Constant) and isinstance(k.value, str) else self.canon(k, env2)
                    d.items.append((key, self._value(e.value, env2), list(self.loops), list(self.pyguards)))
                finally:
                    self.loops.pop()
                return d
        if isinstance(e, ast.ListComp):
            if self._is_stmt_expr(e.elt, env):
                return PyList([(list(self.loops), list(self.pyguards), n) for n in self._stmts(e, env)])
            return self.canon(e, env)
        if isinstance(e, ast.IfExp):
            if targets and any(isinstance(x, ast.Call) and (_callee_name(x) or "x")[0].isupper() and
                               _callee_name(x) not in ("Cat", "Replicate", "Mux", "Constant", "C", "ClockSignal",
                                                       "ResetSignal", "Array") for x in ast.walk(e)):
                nm = self._fresh_name(targets, env, None)
                if nm is not None:
                    self.decl[norm(nm)] = ("<conditional>", None, list(self.pyguards))
                    return nm
            return self.canon(e, env)
        if isinstance(e, ast.Call):
            return self._call_value(e, env, targets, st)
        if isinstance(e, ast.Lambda):
            return self.canon(e, env)
        return self.canon(e, env)

    def _looks_like_stmts(self, e, env):
        return bool(e.elts) and all(self._is_stmt_expr(x, env) for x in e.elts)

    def _is_stmt_expr(self, x, env):
        if isinstance(x, ast.Starred):
            return True
        if isinstance(x, ast.Call):
            f = x.func
            if isinstance(f, ast.Name) and f.id in HW_STMT_CALLS:
                return True
            if isinstance(f, ast.Attribute) and f.attr in ("eq", "connect", "Else", "Elif", "makedefault"):
                return True
            if isinstance(f, ast.Name) and isinstance(env.get(f.id), Closure):
                clo = env[f.id]
                rets = [r.value for r in ast.walk(clo.fn) if isinstance(r, ast.Return) and r.value is not None]
                # a helper that computes a value (a name, a number, an expression) is not a statement builder
                if rets and all(isinstance(r, (ast.Constant, ast.JoinedStr, ast.Attribute, ast.Name, ast.BinOp, ast.Compare, ast.BoolOp, ast.Subscript))
                                and not (isinstance(r, ast.Name) and isinstance(clo.env.get(r.id) if hasattr(clo, "env") else None, (PyList, Node)))
                                for r in rets):
                    return False
                return True
        if isinstance(x, ast.Name) and isinstance(env.get(x.id), (PyList, Node)):
            return True
        if isinstance(x, (ast.List, ast.Tuple)):
            return self._looks_like_stmts(x, env)
        return False

    def _fresh_name(self, targets, env, fallback):
        """Canonical expression for a freshly constructed object bound to `targets`."""
        best = None
        sub = env.get("self") if isinstance(env.get("self"), ast.AST) else None
        for t in targets or []:
            if isinstance(t, ast.Attribute) and _is_name(t.value, "self"):
                return ast.Attribute(value=copy.deepcopy(sub) if sub is not None else ast.Name(id="self", ctx=ast.Load()),
                                     attr=t.attr, ctx=ast.Load())
            if isinstance(t, ast.Attribute) and isinstance(t.value, ast.Attribute) and \
                    _is_name(t.value.value, "self") and t.value.attr in ("submodules", "specials", "clock_domains"):
                return ast.Attribute(value=ast.Name(id="self", ctx=ast.Load()), attr=t.attr, ctx=ast.Load())
            if isinstance(t, ast.Name) and best is None:
                best = ast.Name(id=t.id, ctx=ast.Load())
            if isinstance(t, ast.Attribute) and best is None and q_is_path(t.value):
                # nested attribute target (self.ev.tx = ...): the canonical path of the target itself
                n = copy.deepcopy(t)
                n.value = self.canon(n.value, env)
                n.ctx = ast.Load()
                return n
        if best is not None and sub is not None:
            return ast.Attribute(value=copy.deepcopy(sub), attr=best.id, ctx=ast.Load())
        return best if best is not None else fallback

    def _call_value(self, e, env, targets, st):
        inner, wrappers = _strip_wrappers(e)
        if wrappers and isinstance(inner, (ast.Name, ast.Attribute)):
            # Wrapper(args)(existing_object): the object keeps its name, the wrapper is recorded on its instance
            val = self._value(inner, env)
            if isinstance(val, ast.AST):
                nm = norm(val)
                hit = [i for i in self.insts if i.name == nm and i.cls != "<registered>"]
                ws = [self.canon(w, env) for w in wrappers]
                if hit:
                    hit[-1].wrappers = list(hit[-1].wrappers) + ws
                else:
                    self._inst(nm, "<wrapped>", None, ws, st or e, "wrap")
                return val
        name = _callee_name(inner) if isinstance(inner, ast.Call) else None
        f = inner.func if isinstance(inner, ast.Call) else None
        # --- getattr(self.sync, x) / getattr(obj, "name")
        if name == "getattr" and isinstance(f, ast.Name) and len(inner.args) >= 2:
            o, a = inner.args[0], inner.args[1]
            if isinstance(o, ast.Attribute) and o.attr == "sync" and _is_name(o.value, "self"):
                return SyncDom("sync:" + self._domname(a, env))
            if isinstance(o, ast.Attribute) and o.attr == "sync":
                return SyncDom("sync:" + self._domname(a, env) + "@" + self.ctext(o.value, env))
            return self.canon(e, env)
        # --- FSM constructor
        if name == "FSM" and isinstance(f, ast.Name):
            self._fsm_count += 1
            fid = f"fsm@L{inner.lineno}"
            if fid in self.fsms:
                fid += f"#{self._fsm_count}"
            rs = None
            for k in inner.keywords:
                if k.arg == "reset_state":
                    rs = k.value
            if rs is None and inner.args:
                rs = inner.args[0]
            rs_val = rs.value if isinstance(rs, ast.Constant) else (self.ctext(rs, env) if rs is not None else None)
            nm = self._fresh_name(targets, env, ast.Name(id=fid, ctx=ast.Load()))
            self.fsms[fid] = FSMInfo(fid, norm(nm), rs_val, inner, list(self.pyguards), wrappers)
            self._inst(norm(nm), "FSM", inner, wrappers, st or inner, "assign")
            return FSMRef(fid)
        # --- closures / helpers returning statements
        if isinstance(f, ast.Name) and isinstance(env.get(f.id), Closure):
            return self._inline(env[f.id], inner, env, is_method=False)
        if isinstance(f, ast.Name) and f.id not in env:
            for m in [self.mod] + self.extra_mods:
                if f.id in m.functions and self._inlinable_helper(m, f.id):
                    return self._inline(Closure(m.functions[f.id], {}), inner, env, is_method=False)
        if isinstance(f, ast.Attribute) and _is_name(f.value, "self") and self.cls_name and \
                not isinstance(env.get("self"), ast.AST) and f.attr not in self.no_inline:
            m = self._find_method(f.attr)
            if m is not None and self.depth < self.MAX_INLINE:
                return self._inline(Closure(m[0], {}), inner, env, is_method=True)
        # header.encode/decode style helpers in another class of the module (statement builders)
        if isinstance(f, ast.Attribute) and f.attr in ("encode", "decode") and "Header" in self.mod.classes:
            m = self._find_method_in("Header", f.attr)
            if m is not None:
                benv = {"self": self.canon(f.value, env)}
                return self._inline(Closure(m[0], benv), inner, env, is_method=True, self_expr=self.canon(f.value, env))
        # --- statement-valued calls
        if self._is_stmt_expr(e, env):
            ns = self._stmts(e, env)
            if len(ns) == 1:
                return ns[0]
            return PyList([(list(self.loops), list(self.pyguards), n) for n in ns])
        # --- python containers
        if isinstance(f, ast.Name) and f.id in ("list", "dict", "set") and not inner.args and not inner.keywords:
            return PyList() if f.id == "list" else (PyDict() if f.id == "dict" else self.canon(e, env))
        if isinstance(f, ast.Name) and f.id == "dict" and len(inner.args) == 1 and \
                isinstance(inner.args[0], (ast.GeneratorExp, ast.ListComp)) and \
                isinstance(inner.args[0].elt, ast.Tuple) and len(inner.args[0].elt.elts) == 2:
            g = inner.args[0]
            env2 = dict(env)
            loops = []
            for gen in g.generators:
                self._bind_loop(gen.target, gen.iter, env2)
                loops.append((norm(gen.target), self.ctext(gen.iter, env2)))
            d = PyDict()
            k, v = g.elt.elts
            key = k.value if isinstance(k, ast.Constant) and isinstance(k.value, str) else self.canon(k, env2)
            d.items.append((key, self._value(v, env2), list(self.loops) + loops, list(self.pyguards)))
            return d
        if isinstance(f, ast.Name) and f.id in ("list", "reversed", "tuple") and len(inner.args) == 1:
            v = self._value(inner.args[0], env)
            if isinstance(v, PyList):
                return v
        # --- local class instantiation (MonitorCounter) -> inline its __init__
        if isinstance(f, ast.Name) and (f.id in self.local_classes or f.id in self.inline_classes):
            nm = self._fresh_name(targets, env, ast.Name(id=f"{f.id}@L{inner.lineno}", ctx=ast.Load()))
            self._inst(norm(nm), f.id, inner, wrappers, st or inner, "assign")
            self._inline_class(f.id, inner, env, nm, wrappers)
            return nm
        # --- methods that hand out a fresh hardware object
        if isinstance(f, ast.Attribute) and f.attr in FRESH_METHODS and targets:
            nm = self._fresh_name(targets, env, None)
            if nm is not None:
                self.decl[norm(nm)] = (norm(f), self._canon_call(inner, env), list(self.pyguards))
                return nm
        # --- any other call stored into an attribute of self: a fresh object named by the attribute
        if targets and name and name not in PURE_FUNCS and not name[0].isupper() and \
                any(isinstance(t, ast.Attribute) and _is_name(t.value, "self") for t in targets):
            nm = self._fresh_name(targets, env, None)
            if nm is not None:
                self._inst(norm(nm), norm(f), self._canon_call(inner, env), [self.canon(w, env) for w in wrappers],
                           st or inner, "assign")
                return nm
        # --- constructor of a hardware object / submodule (capitalised callee)
        if name and (name[0].isupper() or name in ("Signal",)) and isinstance(inner, ast.Call) and \
                not (isinstance(f, ast.Attribute) and f.attr in ("like",) and False):
            if targets:
                nm = self._fresh_name(targets, env, None)
                if nm is not None:
                    cname = norm(f)
                    if name not in ("Signal", "Record", "Endpoint", "Cat", "Replicate", "Mux", "Array", "Constant",
                                    "C", "ClockSignal", "ResetSignal", "Interface", "CSRField", "EndpointDescription"):
                        self._inst(norm(nm), cname, self._canon_call(inner, env), [self.canon(w, env) for w in wrappers],
                                   st or inner, "assign")
                    elif name in ("Signal", "Record", "Endpoint", "Interface"):
                        self.decl[norm(nm)] = (cname, self._canon_call(inner, env), list(self.pyguards))
                    if name in ("Cat", "Replicate", "Mux", "Array", "Constant", "C", "ClockSignal", "ResetSignal"):
                        return self.canon(e, env)
                    return nm
        c = self.canon(e, env)
        if targets and len(targets) == 1 and isinstance(targets[0], ast.Name) and len(norm(c)) > 60:
            # long call result bound to a local: keep the local's name, remember the definition
            self.localdefs[targets[0].id] = c
            return ast.Name(id=targets[0].id, ctx=ast.Load())
        return c

    decl = None

    def _canon_call(self, call, env):
        c = copy.deepcopy(call)
        c.args = [self.canon(a, env) for a in call.args]
        c.keywords = [ast.keyword(arg=k.arg, value=self.canon(k.value, env)) for k in call.keywords]
        return c

    def _domname(self, a, env):
        if isinstance(a, ast.Constant) and isinstance(a.value, str):
            return a.value
        return self.ctext(a, env)

    def _inst(self, name, cls, call, wrappers, node, how):
        self.order += 1
        self.insts.append(Inst(name=name, cls=cls, call=call, wrappers=wrappers, pyguards=list(self.pyguards),
                               loops=list(self.loops), order=self.order, node=node, how=how))

    def _add_objects(self, sa, name, value, env, st):
        """self.submodules[.name] += X ; self.specials += X"""
        vals = value.elts if isinstance(value, (ast.Tuple, ast.List)) else [value]
        for v in vals:
            inner, wrappers = _strip_wrappers(v)
            if isinstance(inner, ast.Call):
                cname = _callee_name(inner)
                if cname == "FSM":
                    ref = self._call_value(v, env, [ast.Attribute(value=ast.Name(id="self", ctx=ast.Load()),
                                                                  attr=name, ctx=ast.Load())] if name else None, st)
                    if name:
                        self.attr["self." + name] = ref
                    continue
                cc = self._canon_call(inner, env)
                nm = ("self." + name) if name else f"<{sa}@L{st.lineno}>"
                self._inst(nm, norm(inner.func), cc, [self.canon(w, env) for w in wrappers], st, sa)
                if isinstance(inner.func, ast.Name) and (inner.func.id in self.local_classes or
                                                         inner.func.id in self.inline_classes):
                    self._inline_class(inner.func.id, inner, env, ast.Name(id=nm, ctx=ast.Load()), wrappers)
                if name:
                    self.attr["self." + name] = ast.Attribute(value=ast.Name(id="self", ctx=ast.Load()), attr=name,
                                                              ctx=ast.Load())
            elif wrappers and isinstance(inner, (ast.Name, ast.Attribute)):
                val = self._call_value(v, env, None, st)
                continue
            else:
                # an already-built object (name) is being registered
                val = self._value(v, env)
                if isinstance(val, PyList):
                    continue
                if isinstance(val, FSMRef):
                    continue
                txt = norm(val) if isinstance(val, ast.AST) else norm(v)
                if any(i.name == txt and i.cls != "<registered>" for i in self.insts):
                    continue        # the object's own instance record already exists
                self._inst(txt, "<registered>", None, [], st, sa)

    # ---- inlining
    def _inline(self, clo, call, env, is_method, self_expr=None):
        if self.depth >= self.MAX_INLINE:
            return Opq("inline depth exceeded: " + norm(call), call)
        args = []
        for a in call.args:
            if isinstance(a, ast.Starred):
                v = self._value(a.value, env)
                if isinstance(v, PyList):
                    args.extend(x[2] for x in v.items)
                else:
                    args.append(self._value(a, env))
            else:
                args.append(self._value(a, env))
        kwargs = {k.arg: self._value(k.value, env) for k in call.keywords if k.arg}
        fenv = dict(clo.env)
        self._bind_params(clo.fn, fenv, args, kwargs, is_method=is_method)
        if self_expr is not None:
            fenv["self"] = self_expr
        self.depth += 1
        saved = (self.pyguards_at_entry, self._cond_returns)
        self.pyguards_at_entry, self._cond_returns = len(self.pyguards), []
        try:
            r = self._run_function(clo.fn, fenv)
            cr = self._cond_returns
        finally:
            self.depth -= 1
            self.pyguards_at_entry, self._cond_returns = saved
        if cr:
            vals = [(g, v) for g, v in cr if v is not None]
            if r is None and len(vals) == 1:
                return vals[0][1]
            if vals and all(isinstance(v, ast.AST) for _, v in vals) and (r is None or isinstance(r, ast.AST)):
                # nested conditional expression over the Python-level conditions of each return
                out = r if r is not None else vals[-1][1]
                rest = vals if r is not None else vals[:-1]
                for g, v in reversed(rest):
                    txt = " and ".join(("(" + c + ")") if p else ("not (" + c + ")") for c, p in g) or "True"
                    try:
                        test = ast.parse(txt, mode="eval").body
                    except SyntaxError:
                        test = ast.Name(id="<cond>", ctx=ast.Load())
                    out = ast.IfExp(test=test, body=copy.deepcopy(v), orelse=copy.deepcopy(out))
                return out
            if r is None and vals:
                return vals[-1][1]
        return r

    def _inline_class(self, cname, call, env, nm, wrappers):
        """Inline `__init__` of a local/requested class as a sub-scope named `nm`."""
        if cname in self.local_classes:
            cnode, cenv = self.local_classes[cname]
            menv = dict(cenv)
        else:
            r = self._lookup_class(cname)
            if r is None:
                return
            cnode, menv = r[0], {}
        init = None
        for n in cnode.body:
            if isinstance(n, ast.FunctionDef) and n.name == "__init__":
                init = n
        if init is None or self.depth >= self.MAX_INLINE:
            return
        args = [self._value(a, env) for a in call.args]
        kwargs = {k.arg: self._value(k.value, env) for k in call.keywords if k.arg}
        self._bind_params(init, menv, args, kwargs, is_method=True)
        sub = _SubScope(self, norm(nm), wrappers, env)
        self.depth += 1
        try:
            sub.run(init, menv)
        finally:
            self.depth -= 1

    # ---- call statements
    def _call_stmt(self, call, env):
        f = call.func
        if isinstance(f, ast.Attribute):
            recv = f.value
            if f.attr == "act":
                rv = self._value(recv, env)
                if isinstance(rv, FSMRef):
                    self._act(rv, call, env)
                    return
                if isinstance(recv, ast.Attribute) and _self_attr(recv):
                    rv = self.attr.get("self." + recv.attr)
                    if isinstance(rv, FSMRef):
                        self._act(rv, call, env)
                        return
                self.opaque.append((norm(call)[:120], call, "act on unknown fsm"))
                return
            if f.attr in ("append", "extend", "insert"):
                cont = self._value(recv, env)
                if isinstance(cont, PyList) and call.args:
                    v = self._value(call.args[-1], env)
                    if f.attr == "extend" and isinstance(v, PyList):
                        cont.items.extend(v.items)
                    elif f.attr == "insert" and len(call.args) == 2 and isinstance(call.args[0], ast.Constant) and call.args[0].value == 0:
                        cont.items.insert(0, (list(self.loops), list(self.pyguards), v))
                    else:
                        cont.items.append((list(self.loops), list(self.pyguards), v))
                return
            if f.attr == "update":
                cont = self._value(recv, env)
                if isinstance(cont, PyDict) and call.args:
                    v = self._value(call.args[0], env)
                    if isinstance(v, PyDict):
                        cont.items.extend(v.items)
                return
            if f.attr == "__init__" and isinstance(recv, ast.Name) and self.cls_name:
                # Base.__init__(self, ...)
                m = self._find_method_in(recv.id, "__init__")
                if m is not None and self.depth < self.MAX_INLINE:
                    c2 = copy.copy(call)
                    c2.args = call.args[1:]
                    self._inline(Closure(m[0], {}), c2, env, is_method=True)
                    return
                self._inst("self", recv.id + ".__init__", self._canon_call(call, env), [], call, "base-init")
                return
            if f.attr == "__init__" and isinstance(recv, ast.Call) and _is_name(recv.func, "super") and self.cls_name:
                m = self._find_method("__init__", start_after=self.cls_name)
                if m is not None and self.depth < self.MAX_INLINE:
                    self._inline(Closure(m[0], {}), call, env, is_method=True)
                return
            if _is_name(recv, "self") and self.cls_name and not isinstance(env.get("self"), ast.AST):
                m = self._find_method(f.attr)
                if m is not None and self.depth < self.MAX_INLINE:
                    self._inline(Closure(m[0], {}), call, env, is_method=True)
                    return
                if f.attr in ("add_module", "add_submodule"):
                    return
            if f.attr == "finalize":
                return
        if isinstance(f, ast.Name):
            if f.id == "setattr" and len(call.args) == 3:
                o, n, v = call.args
                val = self._value(v, env)
                if _is_name(o, "self"):
                    if isinstance(n, ast.Constant):
                        self.attr["self." + str(n.value)] = val
                    else:
                        key = "getattr(self, " + self.ctext(n, env) + ")"
                        self.attr[key] = val
                else:
                    key = "getattr(" + self.ctext(o, env) + ", " + self.ctext(n, env) + ")"
                    self.attr[key] = val
                return
            clo = env.get(f.id)
            if isinstance(clo, Closure):
                self._inline(clo, call, env, is_method=False)
                return
        return

    def _act(self, ref, call, env):
        info = self.fsms[ref.fid]
        if not call.args:
            return
        s = call.args[0]
        states = []
        if isinstance(s, ast.Constant):
            states = [(s.value, None)]
        elif isinstance(s, ast.IfExp) and isinstance(s.body, ast.Constant) and isinstance(s.orelse, ast.Constant):
            states = [(s.body.value, self._pgs(s.test, env, True)), (s.orelse.value, self._pgs(s.test, env, False))]
        else:
            states = [(self.ctext(s, env), None)]
        body = []
        for a in call.args[1:]:
            body.extend(self._stmts(a, env))
        for name, pg in states:
            if pg:
                self.pyguards.extend(pg)
            try:
                info.states.setdefault(name, []).append((list(self.pyguards), call))
                if info.first_state is None:
                    info.first_state = name
                self.order += 1
                self._flatten(body, "comb", [], (ref.fid, name), list(self.loops), call)
            finally:
                if pg:
                    del self.pyguards[len(self.pyguards) - len(pg):]

    # ---- statement trees
    def _add(self, domain, value, env, st):
        nodes = self._stmts(value, env)
        self.order += 1
        self._flatten(nodes, domain, [], None, list(self.loops), st)

    def _stmts(self, e, env):
        """Evaluate expression `e` in statement position -> [Node]."""
        if e is None:
            return []
        if isinstance(e, Node):
            return [e]
        if isinstance(e, PyList):
            return self._from_pylist(e)
        if isinstance(e, (ast.List, ast.Tuple)):
            out = []
            for x in e.elts:
                out.extend(self._stmts(x, env))
            return out
        if isinstance(e, ast.Starred):
            return self._stmts(e.value, env)
        if isinstance(e, ast.Name):
            v = env.get(e.id)
            if isinstance(v, Node):
                return [v]
            if isinstance(v, PyList):
                return self._from_pylist(v)
            if isinstance(v, PyDict):
                return [Opq("dict in statement position: " + e.id, e)]
            if v is None or isinstance(v, ast.AST):
                return [Opq("name in statement position: " + e.id, e)]
            return [Opq("value in statement position: " + e.id, e)]
        if isinstance(e, ast.Attribute):
            v = self._value(e, env)
            if isinstance(v, PyList):
                return self._from_pylist(v)
            if isinstance(v, Node):
                return [v]
            return [Opq("attribute in statement position: " + norm(e), e)]
        if isinstance(e, ast.ListComp):
            return self._listcomp(e, env)
        if isinstance(e, ast.GeneratorExp):
            return self._listcomp(e, env)
        if isinstance(e, ast.IfExp):
            return [self._pyg(self._pgs(e.test, env, True), self._stmts(e.body, env), e),
                    self._pyg(self._pgs(e.test, env, False), self._stmts(e.orelse, env), e)]
        if isinstance(e, ast.BinOp) and isinstance(e.op, ast.Add):
            return self._stmts(e.left, env) + self._stmts(e.right, env)
        if isinstance(e, ast.Subscript):
            v = self._value(e.value, env)
            if isinstance(v, PyDict):
                key = e.slice.value if isinstance(e.slice, ast.Constant) and isinstance(e.slice.value, str) \
                    else norm(self.canon(e.slice, env))
                for k, val, lp, pg in v.items:
                    kk = k if isinstance(k, str) else norm(k)
                    if kk == key:
                        return self._stmts_of_value(val, e)
            return [Opq("subscript in statement position: " + norm(e), e)]
        if isinstance(e, ast.Call):
            return self._call_stmts(e, env)
        if isinstance(e, ast.Constant) and e.value is None:
            return []
        return [Opq("unknown statement expr: " + norm(e)[:100], e)]

    def _stmts_of_value(self, v, node):
        if v is None:
            return []
        if isinstance(v, Node):
            return [v]
        if isinstance(v, PyList):
            return self._from_pylist(v)
        if isinstance(v, ast.AST):
            return [Opq("expression in statement position: " + norm(v)[:100], node)]
        return [Opq("value in statement position", node)]

    def _from_pylist(self, pl):
        out = []
        cur_loops, cur_pg = list(self.loops), list(self.pyguards)
        for loops, pg, v in pl.items:
            ns = self._stmts_of_value(v, None)
            extra_pg = [g for g in pg if g not in cur_pg]
            extra_lp = [l for l in loops if l not in cur_loops]
            for g in reversed(extra_pg):
                ns = [PyG(g[0], g[1], ns, None)]
            if extra_lp:
                ns = [LoopN(extra_lp, ns, None)]
            out.extend(ns)
        return out

    def _pyg(self, pgs, body, node):
        for c, p in reversed(pgs):
            body = [PyG(c, p, body, node)]
        return body[0] if len(body) == 1 else LoopN([], body, node)

    def _listcomp(self, e, env):
        env2 = dict(env)
        loops = []
        conds = []
        if len(e.generators) == 1 and not e.generators[0].ifs:
            lit = self._literal_iter(e.generators[0].iter, env)
            if lit is not None:
                out = []
                for val in lit:
                    self._bind_target_const(e.generators[0].target, val, env2)
                    out += self._stmts(e.elt, env2)
                return out
            g0 = e.generators[0]
            pl = self._value(g0.iter, env) if isinstance(g0.iter, (ast.Name, ast.Attribute)) else None
            if isinstance(pl, PyList) and pl.items and isinstance(g0.target, ast.Name) and \
                    all(isinstance(v, (Node, PyList)) for _, _, v in pl.items):
                # a list of statements built earlier (possibly in a loop), wrapped element by element
                out = []
                cur_loops, cur_pg = list(self.loops), list(self.pyguards)
                for lps, pg, v in pl.items:
                    env2[g0.target.id] = v
                    ns = self._stmts(e.elt, env2)
                    for gd in reversed([x for x in pg if x not in cur_pg]):
                        ns = [PyG(gd[0], gd[1], ns, None)]
                    extra_lp = [l for l in lps if l not in cur_loops]
                    if extra_lp:
                        ns = [LoopN(extra_lp, ns, None)]
                    out.extend(ns)
                return out
        for g in e.generators:
            self._bind_loop(g.target, g.iter, env2)
            loops.append((norm(g.target), self.ctext(g.iter, env2)))
            for c in g.ifs:
                conds.extend(self._pgs(c, env2, True))
        body = self._stmts(e.elt, env2)
        for c, p in reversed(conds):
            body = [PyG(c, p, body, e)]
        return [LoopN(loops, body, e)]

    def _call_stmts(self, e, env):
        f = e.func
        if isinstance(f, ast.Name):
            if f.id == "If":
                if not e.args:
                    return [Opq("If without condition", e)]
                n = IfN(e)
                body = []
                for a in e.args[1:]:
                    body.extend(self._stmts(a, env))
                n.arms.append((self.canon(e.args[0], env), body))
                return [n]
            if f.id == "Case":
                return [self._case(e, env, False)]
            if f.id == "NextValue" and len(e.args) == 2:
                return [NV(self.canon(e.args[0], env), self.canon(e.args[1], env), e)]
            if f.id == "NextState" and len(e.args) == 1:
                s = e.args[0]
                if isinstance(s, ast.Constant):
                    return [NS(s.value, e)]
                if isinstance(s, ast.IfExp) and isinstance(s.body, ast.Constant) and isinstance(s.orelse, ast.Constant):
                    return [self._pyg(self._pgs(s.test, env, True), [NS(s.body.value, e)], e),
                            self._pyg(self._pgs(s.test, env, False), [NS(s.orelse.value, e)], e)]
                v = self._value(s, env)
                if isinstance(v, ast.Constant) and isinstance(v.value, str):
                    return [NS(v.value, e)]
                if isinstance(v, ast.IfExp) and isinstance(v.body, ast.Constant) and isinstance(v.orelse, ast.Constant):
                    return [self._pyg(_pg_norm(v.test, True), [NS(v.body.value, e)], e),
                            self._pyg(_pg_norm(v.test, False), [NS(v.orelse.value, e)], e)]
                return [NS("?" + self.ctext(s, env), e)]
            if f.id in ("chooser", "displacer") and len(e.args) >= 3:
                # chooser(i, n, o, ...): o is driven from i selected by n
                return [Eq(self.canon(e.args[2], env), self.canon(e, env), e, via=f.id)]
            if f.id == "timeline":
                return [self._timeline(e, env)]
            clo = env.get(f.id)
            if isinstance(clo, Closure):
                return self._stmts_of_value(self._inline(clo, e, env, is_method=False), e)
            if f.id in self.mod.functions and self._inlinable_helper(self.mod, f.id):
                return self._stmts_of_value(
                    self._inline(Closure(self.mod.functions[f.id], {}), e, env, is_method=False), e)
            for m in self.extra_mods:
                if f.id in m.functions and self._inlinable_helper(m, f.id):
                    return self._stmts_of_value(self._inline(Closure(m.functions[f.id], {}), e, env, False), e)
        if isinstance(f, ast.Attribute):
            if f.attr == "eq" and len(e.args) == 1:
                return [Eq(self.canon(f.value, env), self.canon(e.args[0], env), e)]
            if f.attr == "connect":
                omit = keep = None
                extra = []
                for k in e.keywords:
                    if k.arg == "omit":
                        omit = self.canon(k.value, env)
                    elif k.arg == "keep":
                        keep = self.canon(k.value, env)
                    else:
                        extra.append((k.arg or "**") + "=" + self.ctext(k.value, env))
                dsts = [self.canon(a, env) for a in e.args]
                src = self.canon(f.value, env)
                return [Conn(src, d, omit, keep, e, extra=", ".join(extra) or None) for d in dsts] or \
                       [Opq("connect without destination", e)]
            if f.attr in ("Elif", "Else"):
                inner = self._stmts(f.value, env)
                if len(inner) == 1 and isinstance(inner[0], IfN):
                    n = inner[0]
                    body = []
                    if f.attr == "Elif":
                        if not e.args:
                            return [Opq("Elif without condition", e)]
                        for a in e.args[1:]:
                            body.extend(self._stmts(a, env))
                        n.arms.append((self.canon(e.args[0], env), body))
                    else:
                        for a in e.args:
                            body.extend(self._stmts(a, env))
                        n.orelse = body
                    return [n]
                return [Opq("Elif/Else on non-If: " + norm(e)[:80], e)]
            if f.attr == "makedefault":
                inner = self._stmts(f.value, env)
                if len(inner) == 1 and isinstance(inner[0], CaseN):
                    inner[0].makedefault = True
                    return inner
                return [Opq("makedefault on non-Case", e)]
            if _is_name(f.value, "self") and self.cls_name and not isinstance(env.get("self"), ast.AST):
                m = self._find_method(f.attr)
                if m is not None:
                    return self._stmts_of_value(self._inline(Closure(m[0], {}), e, env, is_method=True), e)
            if f.attr in ("encode", "decode") and "Header" in self.mod.classes:
                v = self._call_value(e, env, None, None)
                return self._stmts_of_value(v, e)
        return [Opq("unknown call in statement position: " + norm(e)[:100], e)]

    def _case(self, e, env, makedefault):
        if len(e.args) < 2:
            return Opq("Case with <2 args", e)
        sel = self.canon(e.args[0], env)
        cv = self._value(e.args[1], env)
        if isinstance(cv, ast.Name) and isinstance(self.localdefs.get(cv.id), ast.DictComp):
            cv = self.localdefs[cv.id]          # cases = {i: ... for ...}; Case(sel, cases)
        arms = []
        if isinstance(cv, PyDict):
            for k, v, lp, pg in cv.items:
                body = self._stmts_of_value(v, e)
                cur_pg = list(self.pyguards)
                extra_pg = [g for g in pg if g not in cur_pg]
                for g in reversed(extra_pg):
                    body = [PyG(g[0], g[1], body, None)]
                extra_lp = [l for l in lp if l not in self.loops]
                arms.append((k, body, extra_lp))
        elif isinstance(cv, ast.DictComp):
            env2 = dict(env)
            loops = []
            for g in cv.generators:
                self._bind_loop(g.target, g.iter, env2)
                loops.append((norm(g.target), self.ctext(g.iter, env2)))
            arms.append((self.canon(cv.key, env2), self._stmts(cv.value, env2), loops))
        else:
            return Opq("Case with non-dict arms: " + norm(e.args[1])[:60], e)
        return CaseN(sel, arms, e, makedefault)

    def _timeline(self, e, env):
        # timeline(trigger, [(t, [stmts]), ...]) -> statements guarded by an opaque time atom
        n = IfN(e)
        if len(e.args) == 2 and isinstance(e.args[1], (ast.List, ast.Tuple)):
            for ev in e.args[1].elts:
                if isinstance(ev, ast.Tuple) and len(ev.elts) == 2:
                    cond = ast.Compare(left=ast.Name(id="<timeline:" + self.ctext(e.args[0], env) + ">", ctx=ast.Load()),
                                       ops=[ast.Eq()], comparators=[self.canon(ev.elts[0], env)])
                    sub = IfN(ev)
                    sub.arms.append((cond, self._stmts(ev.elts[1], env)))
                    n.arms.append((cond, self._stmts(ev.elts[1], env)))
            res = []
            for c, b in n.arms:
                x = IfN(e)
                x.arms.append((c, b))
                res.append(x)
            return LoopN([], res, e)
        return Opq("timeline (unparsed)", e)

    # ---- flattening
    def _flatten(self, nodes, domain, guards, state, loops, st, pyextra=()):
        for n in nodes:
            if isinstance(n, Eq):
                self._emit(domain, n.t, n.v, guards, state, loops, n.node or st, n.via, "eq", pyextra)
            elif isinstance(n, NV):
                dom = "sync:sys"
                if state is not None:
                    info = self.fsms.get(state[0])
                    dom = self._fsm_domain(info)
                self._emit(dom, n.t, n.v, guards, state, loops, n.node or st, None, "nextvalue", pyextra)
            elif isinstance(n, NS):
                if state is None:
                    self.opaque.append(("NextState outside act", n.node, domain))
                    continue
                self.trans.append(Trans(fsm=state[0], src=state[1], dst=n.state, guards=list(guards),
                                        pyguards=list(self.pyguards) + list(pyextra), loops=list(loops),
                                        node=n.node or st, order=self.order, fx=self))
            elif isinstance(n, IfN):
                neg = []
                for cond, body in n.arms:
                    self._flatten(body, domain, guards + neg + [(cond, True)], state, loops, st, pyextra)
                    neg = neg + [(cond, False)]
                if n.orelse is not None:
                    self._flatten(n.orelse, domain, guards + neg, state, loops, st, pyextra)
            elif isinstance(n, CaseN):
                keys = []
                has_default = False
                for k, body, lp in n.arms:
                    if isinstance(k, str) and k == "default":
                        has_default = True
                        continue
                    cond = ast.Compare(left=n.sel, ops=[ast.Eq()], comparators=[k if isinstance(k, ast.AST)
                                                                               else ast.Constant(value=k)])
                    keys.append(cond)
                    self._flatten(body, domain, guards + [(cond, True)], state,
                                  loops + [l for l in lp if l not in loops], st, pyextra)
                for k, body, lp in n.arms:
                    if isinstance(k, str) and k == "default":
                        self._flatten(body, domain, guards + [(c, False) for c in keys], state,
                                      loops + [l for l in lp if l not in loops], st, pyextra)
            elif isinstance(n, Conn):
                self.order_conn = self.order
                self.conns.append(dict(conn=n, domain=domain, guards=list(guards), state=state,
                                       pyguards=list(self.pyguards) + list(pyextra), loops=list(loops),
                                       order=self.order, node=n.node or st))
                self._emit(domain, n.src, n.dst, guards, state, loops, n.node or st, n, "connect", pyextra)
            elif isinstance(n, LoopN):
                self._flatten(n.body, domain, guards, state, loops + [l for l in n.loops if l not in loops], st, pyextra)
            elif isinstance(n, PyG):
                self._flatten(n.body, domain, guards, state, loops, st, tuple(pyextra) + ((n.cond, n.pol),))
            elif isinstance(n, Opq):
                self.opaque.append((n.text, n.node or st, domain))
                self._emit(domain, ast.Name(id="<opaque>", ctx=ast.Load()), ast.Constant(value=n.text), guards, state,
                           loops, n.node or st, None, "opaque", pyextra)
            else:
                self.opaque.append((repr(n), st, domain))

    def _fsm_domain(self, info):
        dom = "sync:sys"
        if info is not None:
            for w in info.wrappers:
                if _callee_name(w) == "ClockDomainsRenamer" and w.args:
                    a = w.args[0]
                    dom = "sync:" + (a.value if isinstance(a, ast.Constant) and isinstance(a.value, str) else norm(a))
        return dom

    def _emit(self, domain, t, v, guards, state, loops, node, via, kind, pyextra=()):
        a = Assign(domain=domain, target=t, value=v, guards=list(guards), state=state,
                   pyguards=list(self.pyguards) + list(pyextra), loops=list(loops), order=self.order, node=node,
                   via=via, kind=kind, fx=self)
        self.assigns.append(a)

    def expand(self, e, depth=3, keep=()):
        """Substitute locals that were kept symbolic (localdefs) back into expression `e`."""
        fx = self

        class X(ast.NodeTransformer):
            def visit_Name(self, n):
                if n.id in fx.localdefs and depth > 0 and n.id not in keep:
                    return fx.expand(copy.deepcopy(fx.localdefs[n.id]), depth - 1, keep)
                return n
        return X().visit(copy.deepcopy(e))

    def flatten_value(self, val, domain):
        """Flatten a statement-valued Python value (e.g. the list returned by a builder method) into
        Assign records of pseudo-domain `domain`; returns the new records."""
        n0 = len(self.assigns)
        self.order += 1
        self._flatten(self._stmts_of_value(val, None), domain, [], None, [], None)
        return self.assigns[n0:]

    # ------------------------------------------------------------------ queries
    def find(self, domain=None, target=None, prefix=None, kind=None, state=None, pred=None):
        out = []
        for a in self.assigns:
            if domain is not None:
                if domain == "sync":
                    if not a.domain.startswith("sync"):
                        continue
                elif a.domain != domain:
                    continue
            if kind is not None and a.kind != kind:
                continue
            if kind is None and a.kind in ("opaque", "connect"):
                continue
            if target is not None and a.t != target:
                continue
            if prefix is not None and not a.t.startswith(prefix):
                continue
            if state is not None and (a.state is None or a.state[1] != state):
                continue
            if pred is not None and not pred(a):
                continue
            out.append(a)
        return out

    def opaque_in_logic(self):
        return [o for o in self.opaque]

    def dump(self):
        lines = []
        for a in self.assigns:
            lines.append(repr(a))
        for t in self.trans:
            lines.append(repr(t))
        for i in self.insts:
            lines.append(repr(i))
        for f in self.fsms.values():
            lines.append(repr(f))
        for o in self.opaque:
            lines.append(f"<OPAQUE {o[0]} L{getattr(o[1], 'lineno', 0)} in {o[2]}>")
        return "\n".join(lines)


def _imported_mods(ctx, mod, depth=0, seen=None):
    """Modules of /repo imported with `from litex... import ...` (transitively, depth <= 3)."""
    seen = seen if seen is not None else set()
    out = []
    for n in mod.tree.body:
        if isinstance(n, ast.ImportFrom) and n.module and n.module.startswith("litex") and n.level == 0:
            cands = [n.module.replace(".", "/") + ".py", n.module.replace(".", "/") + "/__init__.py"]
            for a in n.names:
                cands.append(n.module.replace(".", "/") + "/" + a.name + ".py")
            for rel in cands:
                if rel in seen or not ctx.exists(rel):
                    continue
                seen.add(rel)
                try:
                    m = ctx.mod(rel)
                except AnalysisError:
                    continue
                out.append(m)
                if depth < 2:
                    out.extend(_imported_mods(ctx, m, depth + 1, seen))
    return out


PURE_FUNCS = {"len", "log2_int", "max", "min", "int", "bits_for", "range", "list", "dict", "set", "sorted", "getattr",
              "abs", "sum", "tuple", "str", "float", "round", "bool", "hasattr", "isinstance", "reversed", "zip",
              "enumerate", "ceil", "floor", "log2", "format", "type", "divmod", "any", "all", "get", "copy", "deepcopy"}

FRESH_METHODS = {"get_port", "like", "request", "request_all", "request_remaining"}

INLINE_HELPERS = {"inc_mod", "_inc", "convert_addr", "convert_len", "convert_size", "convert_burst",
                  "axi_lite_to_simple", "channel_fsm", "connect_axi", "connect_to_pads"}


class _SubScope:
    """Runs the __init__ of a local class as part of the enclosing FX with `self` renamed."""

    def __init__(self, fx, name, wrappers, outer_env):
        self.fx, self.name, self.wrappers = fx, name, wrappers

    def run(self, init, env):
        fx = self.fx
        env = dict(env)
        env["self"] = ast.Name(id=self.name, ctx=ast.Load())
        fx.prefix_stack.append(self.name)
        try:
            try:
                fx._exec_block(init.body, env)
            except _Return:
                pass
        finally:
            fx.prefix_stack.pop()


def _pg_norm(c, pol=True):
    """[(text, polarity)] for a canonical Python condition."""
    while isinstance(c, ast.UnaryOp) and isinstance(c.op, ast.Not):
        c, pol = c.operand, not pol
    if isinstance(c, ast.BoolOp):
        if (isinstance(c.op, ast.And) and pol) or (isinstance(c.op, ast.Or) and not pol):
            out = []
            for v in c.values:
                out.extend(_pg_norm(v, pol))
            return out
    if isinstance(c, ast.Compare) and len(c.ops) == 1:
        inv = {ast.NotEq: ast.Eq, ast.IsNot: ast.Is, ast.NotIn: ast.In}
        for k, v in inv.items():
            if isinstance(c.ops[0], k):
                c2 = ast.Compare(left=c.left, ops=[v()], comparators=c.comparators)
                return [(norm(c2), not pol)]
    return [(norm(c), pol)]


def _path_ast(key):
    try:
        return ast.parse(key, mode="eval").body
    except SyntaxError:
        return ast.Name(id=key, ctx=ast.Load())


def _to_ast(val):
    if isinstance(val, (list, tuple)):
        return ast.Tuple(elts=[_to_ast(v) for v in val], ctx=ast.Load())
    if isinstance(val, _Sym):
        return ast.Name(id=val.name, ctx=ast.Load())
    return ast.Constant(value=val)


class _Sym:
    def __init__(self, name):
        self.name = name

    def __repr__(self):
        return self.name

    def __eq__(self, o):
        return isinstance(o, _Sym) and o.name == self.name

    def __hash__(self):
        return hash(self.name)


def _lit_eval(node, mod):
    """Evaluate a module-level literal table; unknown names become symbols."""
    if isinstance(node, ast.Constant):
        return node.value
    if isinstance(node, (ast.List, ast.Tuple)):
        return [_lit_eval(e, mod) for e in node.elts] if isinstance(node, ast.List) else \
            tuple(_lit_eval(e, mod) for e in node.elts)
    if isinstance(node, ast.Name):
        return _Sym(node.id)
    if isinstance(node, ast.BinOp) and isinstance(node.op, ast.Add):
        a, b = _lit_eval(node.left, mod), _lit_eval(node.right, mod)
        if isinstance(a, list) and isinstance(b, list):
            return a + b
    raise ValueError("not a literal table")


class _Canon(ast.NodeTransformer):
    def __init__(self, fx, env):
        self.fx, self.env = fx, env

    def visit_Name(self, n):
        v = self.env.get(n.id)
        if v is None:
            return n
        if isinstance(v, ast.AST):
            if isinstance(v, ast.Name) and v.id == n.id:
                return n
            return copy.deepcopy(v)
        if isinstance(v, FSMRef):
            return ast.Name(id=self.fx.fsms[v.fid].name if v.fid in self.fx.fsms else v.fid, ctx=ast.Load())
        if isinstance(v, (int, str, float, bool)):
            return ast.Constant(value=v)
        if isinstance(v, PyList) and v.items and all(isinstance(x[2], ast.AST) for x in v.items):
            elts = []
            for loops, pg, x in v.items:
                x = copy.deepcopy(x)
                # conditions / loops that also enclose the place of use say nothing about this element
                pg = [g for g in pg if g not in self.fx.pyguards]
                loops = [l for l in loops if l not in self.fx.loops]
                if loops or pg:
                    txt = "; ".join(f"{a} in {b}" for a, b in loops)
                    if pg:
                        txt += " if " + " and ".join(("" if p else "not ") + c for c, p in pg)
                    x = ast.Call(func=ast.Name(id="_each", ctx=ast.Load()), args=[x, ast.Constant(value=txt)], keywords=[])
                elts.append(x)
            return ast.List(elts=elts, ctx=ast.Load())
        return n

    def visit_Attribute(self, n):
        if _is_name(n.value, "self") and not isinstance(self.env.get("self"), ast.AST):
            key = "self." + n.attr
            v = self.fx.attr.get(key)
            if isinstance(v, ast.AST):
                if isinstance(v, ast.Attribute) and norm(v) == key:
                    return n
                return copy.deepcopy(v)
            if isinstance(v, FSMRef):
                return ast.Name(id=self.fx.fsms[v.fid].name, ctx=ast.Load())
            return n
        n.value = self.visit(n.value)
        key = norm(n)
        v = self.fx.attr.get(key)
        if isinstance(v, ast.AST) and norm(v) != key:
            return copy.deepcopy(v)
        if isinstance(v, FSMRef):
            return ast.Name(id=self.fx.fsms[v.fid].name, ctx=ast.Load())
        return n

    def visit_Call(self, n):
        # getattr(x, "name") -> x.name ; getattr(x, <expr>) canonicalised and alias-resolved
        if _is_name(n.func, "getattr") and len(n.args) >= 2:
            o = self.visit(n.args[0])
            a = self.visit(n.args[1])
            if isinstance(a, ast.Constant) and isinstance(a.value, str) and a.value.isidentifier():
                return self.visit_Attribute(ast.Attribute(value=n.args[0], attr=a.value, ctx=ast.Load())) \
                    if False else self._attr_of(o, a.value)
            n.args = [o, a] + [self.visit(x) for x in n.args[2:]]
            key = norm(n)
            v = self.fx.attr.get(key)
            if isinstance(v, ast.AST) and norm(v) != key:
                return copy.deepcopy(v)
            return n
        if isinstance(n.func, ast.Name) and isinstance(self.env.get(n.func.id), Closure) and self.fx.depth < self.fx.MAX_INLINE:
            r = self.fx._inline(self.env[n.func.id], n, self.env, is_method=False)
            if isinstance(r, ast.AST):
                return r
        if isinstance(n.func, ast.Name) and isinstance(self.env.get(n.func.id), ast.AST):
            n.func = self.visit(n.func)
        elif isinstance(n.func, ast.Attribute):
            n.func = self.visit(n.func)
        n.args = [self.visit(a) for a in n.args]
        n.keywords = [ast.keyword(arg=k.arg, value=self.visit(k.value)) for k in n.keywords]
        return n

    def _attr_of(self, o, attr):
        node = ast.Attribute(value=o, attr=attr, ctx=ast.Load())
        key = norm(node)
        v = self.fx.attr.get(key)
        if isinstance(v, ast.AST) and norm(v) != key:
            return copy.deepcopy(v)
        return node

    def visit_Lambda(self, n):
        return n

    def visit_ListComp(self, n):
        # do not substitute comprehension-bound names
        bound = set()
        for g in n.generators:
            for x in ast.walk(g.target):
                if isinstance(x, ast.Name):
                    bound.add(x.id)
        sub = _Canon(self.fx, {k: v for k, v in self.env.items() if k not in bound})
        n.elt = sub.visit(n.elt)
        for g in n.generators:
            g.iter = sub.visit(g.iter)
            g.ifs = [sub.visit(i) for i in g.ifs]
        return n

    visit_GeneratorExp = visit_ListComp
    visit_SetComp = visit_ListComp

    def visit_DictComp(self, n):
        return n

    def visit_JoinedStr(self, n):
        n.values = [self.visit(v) for v in n.values]
        return n
