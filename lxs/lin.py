"""lxs.lin -- linear forms over opaque positive quantities.

linform(node) -> {atom_text: coeff, 1: const}: +, -, unary -, integer constants and multiplication by an integer constant are
interpreted; every other sub-expression is an opaque atom keyed by its normalised source text.  The atoms are widths, depths,
ratios: integers the constructors require to be >= 1, so a form with no positive atom coefficient is at most its value at
atoms = 1 (and dually); sign() decides <= 0 / >= 0 from that, anything else is `None` (unknown), never guessed."""
import ast
from .core import norm, cnorm


def linform(n):
    if isinstance(n, ast.Constant) and isinstance(n.value, int) and not isinstance(n.value, bool):
        return {1: n.value} if n.value else {}
    if isinstance(n, ast.UnaryOp) and isinstance(n.op, ast.USub):
        return scale(linform(n.operand), -1)
    if isinstance(n, ast.BinOp) and isinstance(n.op, (ast.Add, ast.Sub)):
        a, b = linform(n.left), linform(n.right)
        return add(a, scale(b, -1) if isinstance(n.op, ast.Sub) else b)
    if isinstance(n, ast.BinOp) and isinstance(n.op, ast.Mult):
        for c, o in ((n.left, n.right), (n.right, n.left)):
            if isinstance(c, ast.Constant) and isinstance(c.value, int) and not isinstance(c.value, bool):
                return scale(linform(o), c.value)
    return {cnorm(n): 1}


def scale(f, k):
    return {a: c * k for a, c in f.items() if c * k}


def add(f, g):
    out = dict(f)
    for a, c in g.items():
        out[a] = out.get(a, 0) + c
    return {a: c for a, c in out.items() if c}


def sub(f, g):
    return add(f, scale(g, -1))


def const(k):
    return {1: k} if k else {}


def sign(f):
    """-1: f <= 0 for all positive atoms; +1: f >= 0; 0: f == 0; None: unknown."""
    if not f:
        return 0
    k = f.get(1, 0)
    at = [c for a, c in f.items() if a != 1]
    # atoms are integers >= 1
    if all(c <= 0 for c in at) and k + sum(at) <= 0:
        return -1
    if all(c >= 0 for c in at) and k + sum(at) >= 0:
        return 1
    return None


def show(f):
    if not f:
        return "0"
    out = []
    for a, c in sorted(f.items(), key=lambda x: str(x[0])):
        t = str(abs(c)) if a == 1 else (("" if abs(c) == 1 else f"{abs(c)}*") + (a if len(a) < 40 else a[:18] + ".." + a[-18:]))
        out.append(("-" if c < 0 else "+") + t)
    return " ".join(out).lstrip("+")
