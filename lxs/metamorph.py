"""lxs.metamorph -- metamorphic self-check of a property's rules on the *current* tree (thorough tier).

Behaviour-preserving variants of the files the check reads are produced in memory (one local renamed; one refactoring applied at
one site: operands of & / | swapped, an If condition hoisted into a Python local or a new comb signal, two independent adjacent
statements swapped, a statement list split, De Morgan, an inequality mirrored, integer literals folded, Elif -> Else(If)) and the
property's rules are run on each; every variant must give the same verdict as the unmodified tree.  A sample (seeded by VERIF_SEED)
is taken so that the thorough run stays within a couple of minutes; tools/rename_fuzz.py and tools/refactor_fuzz.py run all sites."""
import importlib
import os
import random
import sys
from concurrent.futures import ProcessPoolExecutor

VERIF = os.path.dirname(os.path.dirname(os.path.abspath(__file__)))
sys.path.insert(0, os.path.join(VERIF, "tools"))


def run(pid, repo="/repo", seed=0, n_rename=240, n_refactor=240):
    import rename_fuzz as RN
    import refactor_fuzz as RF
    import ast
    from .core import Ctx
    from . import names
    RN.REPO = RF.REPO = repo
    mod = importlib.import_module(f"lxs.props.{pid.lower()}")
    ctx = Ctx(pid, repo=repo, tier="quick")
    mod.run(ctx)
    base_bad = bool([f for f in ctx.findings]) and False
    files = sorted(ctx._mods)
    tab = names.table()
    rj = [(pid, rel, scope, nm) for rel in files for scope, ent in tab.get(rel, {}).items() for nm in ent]
    fj = []
    for rel in files:
        tree = ast.parse(open(os.path.join(repo, rel)).read())
        for kind in ("commute", "alias", "swapstmt", "splitlist", "combalias", "demorgan", "cmpflip", "constfold", "elif2else"):
            for i in range(len(RF.sites(tree, kind))):
                fj.append((pid, rel, kind, i))
    rng = random.Random(seed)
    rng.shuffle(rj)
    rng.shuffle(fj)
    rj, fj = rj[:n_rename], fj[:n_refactor]
    with ProcessPoolExecutor(max_workers=min(16, os.cpu_count() or 4)) as ex:
        r1 = list(ex.map(RN.run_one, rj, chunksize=8))
        r2 = list(ex.map(RF.run_one, fj, chunksize=8))
    res = r1 + r2
    by = {}
    for r in res:
        by[r[1]] = by.get(r[1], 0) + 1
    bad = [f"{r[1]}: {r[0][1]} {r[0][2]} {r[0][3]}: {r[2][:160]}" for r in res if r[1] not in ("ok", "skip")]
    return dict(variants=len(res), renames=len(r1), refactorings=len(r2), outcomes=by, not_silent=bad[:20],
                population=dict(renames=len([1 for rel in files for scope, ent in tab.get(rel, {}).items() for _ in ent]),
                                refactoring_sites=sum(1 for _ in fj) if False else None))
