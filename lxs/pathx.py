"""lxs.pathx -- PATH engine: structured control-flow walk of one Python function.

Enumerates the acyclic paths of a function's statement tree (if/elif/else fork; for/while taken 0 or
1 times, `continue`/`break` honoured; try: body [+ else] or body-prefix + handler; with: body) and
answers dominance / must-pass-through / pairing questions over them.  Paths are sequences of
events:  ("stmt", node) | ("test", expr, polarity) | ("loop", node, "enter"|"skip") ; each path ends
with `end` in {"return", "raise", "fall"} and `end_node`."""
import ast
from .core import AnalysisError, norm

import os
MAX_PATHS = 60000
COMPOSITE = bool(os.environ.get("LXS_PATH_COMPOSITE"))


class Path:
    __slots__ = ("ev", "end", "end_node")

    def __init__(self, ev=None, end=None, end_node=None):
        self.ev = ev or []
        self.end = end
        self.end_node = end_node

    def stmts(self):
        return [e[1] for e in self.ev if e[0] == "stmt"]

    def index_where(self, pred, start=0):
        for i in range(start, len(self.ev)):
            if pred(self.ev[i]):
                return i
        return -1

    def tests_before(self, idx):
        return [(e[1], e[2]) for e in self.ev[:idx] if e[0] == "test"]

    def show(self, lo=0, hi=None):
        out = []
        for e in self.ev[lo:hi]:
            if e[0] == "stmt":
                out.append(f"L{e[1].lineno}")
            elif e[0] == "test":
                out.append(("" if e[2] else "!") + f"({norm(e[1])[:40]})")
        return " > ".join(out) + f" => {self.end}"


class _Flow:
    """partial paths under construction"""


def enumerate_paths(fn, max_paths=MAX_PATHS):
    """All paths through function `fn` (ast.FunctionDef)."""
    done = []

    def block(stmts, prefixes, loop_depth):
        """returns (normal_out, breaks, continues) -- lists of event-lists."""
        cur = prefixes
        breaks, conts = [], []
        for st in stmts:
            if not cur:
                break
            cur, b, c = stmt(st, cur, loop_depth)
            breaks.extend(b)
            conts.extend(c)
            if len(cur) + len(done) > max_paths:
                raise AnalysisError(f"{fn.name}: more than {max_paths} paths")
        return cur, breaks, conts

    def branch(test, prefixes):
        """(prefixes on which `test` holds, prefixes on which it does not): `and` / `or` / `not` are taken apart the way Python
        evaluates them (short circuit), `!=`, `is not`, `not in` are read as the negated `==`, `is`, `in` -- every test event is an
        atomic condition with a polarity, however the maintainer composed them."""
        if COMPOSITE:
            return [p + [("test", test, True)] for p in prefixes], [p + [("test", test, False)] for p in prefixes]
        if isinstance(test, ast.UnaryOp) and isinstance(test.op, ast.Not):
            t, f = branch(test.operand, prefixes)
            return f, t
        if isinstance(test, ast.BoolOp):
            if isinstance(test.op, ast.And):
                cur, false = prefixes, []
                for v in test.values:
                    cur, f = branch(v, cur)
                    false += f
                return cur, false
            cur, true = prefixes, []
            for v in test.values:
                t, cur = branch(v, cur)
                true += t
            return true, cur
        if isinstance(test, ast.Compare) and len(test.ops) == 1 and isinstance(test.ops[0], (ast.NotEq, ast.IsNot, ast.NotIn)):
            pos = ast.copy_location(ast.Compare(left=test.left, ops=[{ast.NotEq: ast.Eq, ast.IsNot: ast.Is, ast.NotIn: ast.In}[type(test.ops[0])]()],
                                                comparators=test.comparators), test)
            return [p + [("test", pos, False)] for p in prefixes], [p + [("test", pos, True)] for p in prefixes]
        if isinstance(test, ast.Compare) and len(test.ops) > 1:
            # a < b < c  ==  a < b and b < c
            parts, left = [], test.left
            for op, c in zip(test.ops, test.comparators):
                parts.append(ast.copy_location(ast.Compare(left=left, ops=[op], comparators=[c]), test))
                left = c
            return branch(ast.copy_location(ast.BoolOp(op=ast.And(), values=parts), test), prefixes)
        return [p + [("test", test, True)] for p in prefixes], [p + [("test", test, False)] for p in prefixes]

    def stmt(st, prefixes, loop_depth):
        if isinstance(st, ast.Return):
            for p in prefixes:
                done.append(Path(p + [("stmt", st)], "return", st))
            return [], [], []
        if isinstance(st, ast.Raise):
            for p in prefixes:
                done.append(Path(p + [("stmt", st)], "raise", st))
            return [], [], []
        if isinstance(st, ast.Break):
            return [], [p + [("stmt", st)] for p in prefixes], []
        if isinstance(st, ast.Continue):
            return [], [], [p + [("stmt", st)] for p in prefixes]
        if isinstance(st, ast.If):
            pt, pf = branch(st.test, prefixes)
            o1, b1, c1 = block(st.body, pt, loop_depth)
            o2, b2, c2 = block(st.orelse, pf, loop_depth) if st.orelse else (pf, [], [])
            return o1 + o2, b1 + b2, c1 + c2
        if isinstance(st, (ast.For, ast.While)):
            hdr = ("stmt", st)
            if isinstance(st, ast.While):
                # a while loop is left normally only with its test false
                _, skip = branch(st.test, [p + [hdr, ("loop", st, "skip")] for p in prefixes])
                enter, _ = branch(st.test, [p + [hdr, ("loop", st, "enter")] for p in prefixes])
                o, b, c = block(st.body, enter, loop_depth + 1)
                _, o = branch(st.test, o)
                _, c = branch(st.test, c)
            else:
                skip = [p + [hdr, ("loop", st, "skip")] for p in prefixes]
                enter = [p + [hdr, ("loop", st, "enter")] for p in prefixes]
                o, b, c = block(st.body, enter, loop_depth + 1)
            after = skip + o + b + c
            if st.orelse:
                o2, b2, c2 = block(st.orelse, skip + o + c, loop_depth)
                return o2 + b, b2, c2
            return after, [], []
        if isinstance(st, ast.Try):
            o, b, c = block(st.body, prefixes, loop_depth)
            outs = list(o)
            if st.orelse:
                outs, b2, c2 = block(st.orelse, o, loop_depth)
                b, c = b + b2, c + c2
            for h in st.handlers:
                # exception raised somewhere in the body: approximate by entering the handler from the prefix
                hp = [p + [("test", h.type if h.type is not None else ast.Constant(value="except"), True)]
                      for p in prefixes]
                o3, b3, c3 = block(h.body, hp, loop_depth)
                outs, b, c = outs + o3, b + b3, c + c3
            if st.finalbody:
                outs, b4, c4 = block(st.finalbody, outs, loop_depth)
                b, c = b + b4, c + c4
            return outs, b, c
        if isinstance(st, (ast.With, ast.AsyncWith)):
            return block(st.body, [p + [("stmt", st)] for p in prefixes], loop_depth)
        if isinstance(st, (ast.FunctionDef, ast.ClassDef, ast.AsyncFunctionDef)):
            return [p + [("stmt", st)] for p in prefixes], [], []
        return [p + [("stmt", st)] for p in prefixes], [], []

    out, b, c = block(fn.body, [[]], 0)
    for p in out + b + c:
        done.append(Path(p, "fall", None))
    return done


# ------------------------------------------------------------------------------------------
# predicates on events
# ------------------------------------------------------------------------------------------

def calls_in(node):
    """Call nodes inside a statement (not descending into nested defs/lambdas)."""
    out = []
    todo = [node]
    while todo:
        n = todo.pop()
        if isinstance(n, ast.Call):
            out.append(n)
        for c in ast.iter_child_nodes(n):
            if isinstance(c, (ast.FunctionDef, ast.AsyncFunctionDef, ast.ClassDef, ast.Lambda)):
                continue
            todo.append(c)
    return out


def header_only(st):
    """For compound statements only the header expressions belong to the event."""
    if isinstance(st, (ast.For,)):
        return [st.iter, st.target]
    if isinstance(st, ast.While):
        return [st.test]
    if isinstance(st, (ast.With,)):
        return [i.context_expr for i in st.items]
    return [st]


def is_call_to(ev, name):
    """event is a statement (or test) containing a call whose callee text ends with `name`."""
    if ev[0] == "stmt":
        nodes = header_only(ev[1])
    elif ev[0] == "test":
        nodes = [ev[1]]
    else:
        return False
    for n in nodes:
        for c in calls_in(n):
            t = norm(c.func)
            if t == name or t.endswith("." + name):
                return True
    return False


def stores_to(ev, target_text_pred):
    """event is an assignment whose (one) target satisfies the predicate on its text."""
    if ev[0] != "stmt":
        return False
    st = ev[1]
    tg = []
    if isinstance(st, ast.Assign):
        tg = st.targets
    elif isinstance(st, (ast.AugAssign, ast.AnnAssign)):
        tg = [st.target]
    for t in tg:
        for x in ([t] if not isinstance(t, (ast.Tuple, ast.List)) else t.elts):
            if target_text_pred(norm(x)):
                return True
    return False


def every_path(paths, pred):
    bad = [p for p in paths if not pred(p)]
    return (not bad), bad


# ------------------------------------------------------------------------------------------
# light path-sensitivity: boolean/None flag locals
# ------------------------------------------------------------------------------------------

def _flag_value(e, env):
    """True / False when the boolean expression `e` over flag locals is decided by the constants known in env, else None"""
    if isinstance(e, ast.Constant) and isinstance(e.value, bool):
        return e.value
    if isinstance(e, ast.Name) and e.id in env and isinstance(env[e.id][1], bool):
        return env[e.id][1]
    if isinstance(e, ast.UnaryOp) and isinstance(e.op, ast.Not):
        v = _flag_value(e.operand, env)
        return None if v is None else (not v)
    if isinstance(e, ast.BoolOp):
        vs = [_flag_value(x, env) for x in e.values]
        if isinstance(e.op, ast.And):
            if any(v is False for v in vs):
                return False
            return True if all(v is True for v in vs) else None
        if any(v is True for v in vs):
            return True
        return False if all(v is False for v in vs) else None
    return None


def feasible(path):
    """False when a test on a local flag contradicts the constant assigned to it earlier on the path."""
    env = {}
    seen_tests = {}          # test text -> (polarity, names)

    def kill(name):
        for k in [k for k, v in seen_tests.items() if name in v[1]]:
            del seen_tests[k]
    for e in path.ev:
        if e[0] == "stmt":
            st = e[1]
            tg = []
            if isinstance(st, ast.Assign):
                tg = st.targets
            elif isinstance(st, (ast.AugAssign, ast.AnnAssign)):
                tg = [st.target]
            elif isinstance(st, ast.For):
                tg = [st.target]
            for t in tg:
                for n in ast.walk(t):
                    if isinstance(n, ast.Name):
                        kill(n.id)
                    elif isinstance(n, ast.Attribute):
                        kill(n.attr)
            if isinstance(st, ast.Expr) and isinstance(st.value, ast.Call) and isinstance(st.value.func, ast.Attribute):
                # a method call may mutate its receiver (list.append, dict.update, ...)
                for n in ast.walk(st.value.func.value):
                    if isinstance(n, ast.Name):
                        kill(n.id)
                    elif isinstance(n, ast.Attribute):
                        kill(n.attr)
            if isinstance(st, ast.Assign) and len(st.targets) == 1 and isinstance(st.targets[0], ast.Name):
                nm = st.targets[0].id
                if isinstance(st.value, ast.Constant) and (isinstance(st.value.value, bool) or st.value.value is None):
                    env[nm] = ("c", st.value.value)
                else:
                    # flag algebra: `ok = ok and found`, `bad = not ok`, ... with what is known about the operands
                    v = _flag_value(st.value, env)
                    if v is None:
                        env.pop(nm, None)
                    else:
                        env[nm] = ("c", v)
            elif isinstance(st, (ast.AugAssign,)) and isinstance(st.target, ast.Name):
                env.pop(st.target.id, None)
            elif isinstance(st, (ast.For,)):
                for n in ast.walk(st.target):
                    if isinstance(n, ast.Name):
                        env.pop(n.id, None)
        elif e[0] == "test":
            t, pol = e[1], e[2]
            while isinstance(t, ast.UnaryOp) and isinstance(t.op, ast.Not):
                t, pol = t.operand, not pol
            # the same side-effect free test repeated with nothing it mentions re-assigned in between
            if not any(isinstance(n, ast.Call) for n in ast.walk(t)):
                key = norm(t)
                if key in seen_tests:
                    if seen_tests[key][0] != pol:
                        return False
                else:
                    names = {n.id for n in ast.walk(t) if isinstance(n, ast.Name)} | \
                            {n.attr for n in ast.walk(t) if isinstance(n, ast.Attribute)}
                    seen_tests[key] = (pol, names)
            if isinstance(t, ast.Name) and t.id in env:
                if bool(env[t.id][1]) != pol:
                    return False
            if isinstance(t, ast.Compare) and len(t.ops) == 1 and isinstance(t.left, ast.Name) and t.left.id in env \
                    and isinstance(t.comparators[0], ast.Constant):
                v, c = env[t.left.id][1], t.comparators[0].value
                op = t.ops[0]
                res = None
                if isinstance(op, (ast.Is, ast.Eq)):
                    res = (v is c) if isinstance(op, ast.Is) else (v == c)
                elif isinstance(op, (ast.IsNot, ast.NotEq)):
                    res = (v is not c) if isinstance(op, ast.IsNot) else (v != c)
                if res is not None and res != pol:
                    return False
    return True


def feasible_paths(fn):
    return [p for p in enumerate_paths(fn) if feasible(p)]


# ------------------------------------------------------------------------------------------
# per-iteration freshness of flags
# ------------------------------------------------------------------------------------------

def _key_of_target(t):
    if isinstance(t, ast.Name):
        return t.id
    if isinstance(t, ast.Subscript) and isinstance(t.slice, ast.Constant) and isinstance(t.value, ast.Name):
        return norm(t)
    return None


def _reads_of(node, keys):
    out = []
    for n in ast.walk(node):
        if isinstance(n, ast.Name) and isinstance(n.ctx, ast.Load) and n.id in keys:
            out.append((n.id, n))
        elif isinstance(n, ast.Subscript) and isinstance(n.ctx, ast.Load) and isinstance(n.slice, ast.Constant) and norm(n) in keys:
            out.append((norm(n), n))
    return out


def flag_keys(fn):
    """Names / constant-key dict slots that are assigned True, False or None somewhere inside a loop of `fn`."""
    keys = set()
    for lp in ast.walk(fn):
        if isinstance(lp, (ast.For, ast.While)):
            for n in ast.walk(lp):
                if isinstance(n, ast.Assign) and isinstance(n.value, ast.Constant) and (isinstance(n.value.value, bool) or n.value.value is None):
                    for t in n.targets:
                        k = _key_of_target(t)
                        if k:
                            keys.add(k)
    return keys


def _loops_with_parents(fn):
    out = {}

    def rec(node, chain):
        for ch in ast.iter_child_nodes(node):
            if isinstance(ch, (ast.FunctionDef, ast.AsyncFunctionDef, ast.ClassDef, ast.Lambda)):
                continue
            if isinstance(ch, (ast.For, ast.While)):
                out[id(ch)] = (ch, chain)
                rec(ch, chain + [ch])
            else:
                rec(ch, chain)
    rec(fn, [])
    return out


def candidate_loop(fn):
    """Innermost loop that contains a `return <value>`: one iteration of it evaluates one candidate."""
    loops = _loops_with_parents(fn)
    best = None
    for lid, (lp, chain) in loops.items():
        if any(isinstance(n, ast.Return) and n.value is not None and not (isinstance(n.value, ast.Constant) and n.value.value is None)
               for n in walk_loop_body(lp)):
            if best is None or len(chain) > len(loops[id(best)][1]):
                best = lp
    return best


def walk_loop_body(lp):
    """Nodes of the loop body that are not inside a nested loop."""
    stack = list(lp.body) + list(lp.orelse)
    while stack:
        n = stack.pop()
        yield n
        for ch in ast.iter_child_nodes(n):
            if not isinstance(ch, (ast.For, ast.While, ast.FunctionDef, ast.ClassDef, ast.Lambda)):
                stack.append(ch)


def stale_reads(fn, keys=None):
    """Reads of per-candidate flags that can see the value left by an earlier candidate.

    Lc = candidate_loop(fn).  A read R of flag K inside Lc is *fresh* with respect to an enclosing loop L (L = Lc or nested in
    Lc) when on every feasible path through one iteration of L a store to K precedes R.  R must be fresh with respect to at
    least one such L; otherwise the value read was stored while an earlier candidate (an earlier iteration of Lc, or of a loop
    around it) was evaluated.  Returns ([(key, Lc, read node, path)], number of (flag, read) pairs examined)."""
    keys = set(keys) if keys is not None else flag_keys(fn)
    Lc = candidate_loop(fn)
    if Lc is None:
        return [], 0
    loops = _loops_with_parents(fn)
    inner = [lp for lp, chain in loops.values() if lp is Lc or any(c is Lc for c in chain)]
    stored_in = {}
    for lp in inner:
        ks = set()
        for n in ast.walk(lp):
            if isinstance(n, (ast.Assign, ast.AugAssign)):
                for t in (n.targets if isinstance(n, ast.Assign) else [n.target]):
                    for x in ([t] if not isinstance(t, (ast.Tuple, ast.List)) else t.elts):
                        k = _key_of_target(x)
                        if k in keys:
                            ks.add(k)
        stored_in[id(lp)] = ks
    tracked = stored_in[id(Lc)]
    # per loop: reads that are NOT fresh w.r.t. that loop, and all reads seen
    unfresh = {}
    allreads = {}
    for lp in inner:
        synth = ast.FunctionDef(name="<iteration>", args=ast.arguments(posonlyargs=[], args=[], kwonlyargs=[], kw_defaults=[], defaults=[]),
                                body=lp.body, decorator_list=[], lineno=lp.lineno, col_offset=0)
        for p in feasible_paths(synth):
            have = set()
            for e in p.ev:
                if e[0] == "test":
                    rd, st_targets = _reads_of(e[1], tracked), []
                elif e[0] == "stmt":
                    st = e[1]
                    if isinstance(st, (ast.For, ast.While)):
                        rd = _reads_of(st.iter if isinstance(st, ast.For) else st.test, tracked)
                        st_targets = [st.target] if isinstance(st, ast.For) else []
                    elif isinstance(st, ast.Assign):
                        rd = _reads_of(st.value, tracked)
                        for t in st.targets:
                            if isinstance(t, ast.Subscript):
                                rd += _reads_of(t.slice, tracked)
                        st_targets = st.targets
                    elif isinstance(st, ast.AugAssign):
                        rd = _reads_of(st.value, tracked)
                        k = _key_of_target(st.target)
                        if k in tracked:
                            rd.append((k, st.target))
                        st_targets = [st.target]
                    elif isinstance(st, (ast.If, ast.With, ast.Try, ast.FunctionDef, ast.ClassDef)):
                        rd, st_targets = [], []
                    else:
                        rd, st_targets = _reads_of(st, tracked), []
                else:
                    continue
                for k, node in rd:
                    allreads[(k, id(node))] = node
                    if k not in have:
                        unfresh.setdefault((k, id(node)), {})[id(lp)] = p
                    else:
                        unfresh.setdefault((k, id(node)), {})
                for t in st_targets:
                    for x in ([t] if not isinstance(t, (ast.Tuple, ast.List)) else t.elts):
                        k = _key_of_target(x)
                        if k in tracked:
                            have.add(k)
    # enclosing loops (within Lc) of each read
    out = []
    for (k, nid), node in allreads.items():
        encl = [lp for lp in inner if any(n is node for n in ast.walk(lp))]
        fresh_somewhere = any(id(lp) not in unfresh.get((k, nid), {}) for lp in encl)
        if not fresh_somewhere:
            out.append((k, Lc, node, unfresh[(k, nid)].get(id(Lc)) or list(unfresh[(k, nid)].values())[0]))
    return out, len(allreads)


# ------------------------------------------------------------------------------------------
# spelling-independent lookup of a condition on a path
# ------------------------------------------------------------------------------------------

def canon_test(text_or_node, pol=True):
    """(canonical text, polarity) of a condition as the path events spell it: `not` unwrapped, `!=` / `is not` / `not in` read
    as the negated `==` / `is` / `in`, operands of commutative operators in canonical order."""
    from .core import cnorm
    if isinstance(text_or_node, str):
        from . import names as _names
        t = _names.canon_consts(ast.parse(text_or_node, mode="eval")).body      # same folding as the analysed source gets
    else:
        t = text_or_node
    while isinstance(t, ast.UnaryOp) and isinstance(t.op, ast.Not):
        t, pol = t.operand, not pol
    if isinstance(t, ast.Compare) and len(t.ops) == 1 and isinstance(t.ops[0], (ast.NotEq, ast.IsNot, ast.NotIn)):
        t = ast.Compare(left=t.left, ops=[{ast.NotEq: ast.Eq, ast.IsNot: ast.Is, ast.NotIn: ast.In}[type(t.ops[0])]()], comparators=t.comparators)
        pol = not pol
    if isinstance(t, ast.Compare) and len(t.ops) == 1 and isinstance(t.ops[0], (ast.Gt, ast.GtE)):
        t = ast.Compare(left=t.comparators[0], ops=[ast.Lt() if isinstance(t.ops[0], ast.Gt) else ast.LtE()], comparators=[t.left])
    return cnorm(t, eqsym=True), pol


def has_test(path, text, pol=True, upto=None, frm=0):
    """does `path` pass the condition `text` with the given outcome (any spelling) among events [frm, upto)?"""
    want = canon_test(text, pol)
    for e in path.ev[frm:upto if upto is not None else len(path.ev)]:
        if e[0] == "test" and canon_test(e[1], e[2]) == want:
            return True
    return False
