"""C01 -- generated Verilog behaves exactly like the simulated FHDL design (claimed, narrow).

Equivalence over all fragments x inputs is translation validation; no static argument bounds it.
Decided (structural, necessary) on verilog.py / expression.py / memory.py / sim/core.py:
a lowering pipeline order and result use; b node exhaustiveness sim <= printer + lowered kinds; c operator
tables agree (simulator, printer, Migen constructors, Verilog arities); d assignment-kind decision table;
e signed-promotion decision tables (binary, ternary, unary minus); f comb default-before-body for every
target; g register initialisers print sig.reset; h memory template: helper registers written iff read,
one dat_r driver per port, write under we, NO_CHANGE read under !we, re wraps the read; i literal
format; j inclusive bounds; k Cat bit order; l clock/statement pairing.
Not decided: the equivalence itself (operator widths, slice lowering arithmetic, Case ordering, Instances)."""
import ast
import glob
import itertools
import os
from ..core import AnalysisError, norm, walk_no_nested, const_fold, Mod
from .. import pathx as P
from .. import pyconst

VER = "litex/gen/fhdl/verilog.py"
EXP = "litex/gen/fhdl/expression.py"
MEM = "litex/gen/fhdl/memory.py"
SIM = "litex/gen/sim/core.py"

EXPLANATION = ("Static comparison of the Verilog printer with the reference simulator: dispatch-arm sets (isinstance "
               "arms) of simulator vs printer + lowering passes, operator tables, decision tables extracted by abstract "
               "interpretation of the printer's branch structure over finite inputs (assignment kind x variable, operand "
               "signs, memory port mode x async_read x we x re), path order of the lowering pipeline in convert(), "
               "normal forms of printed ranges and literals.")
TECHNIQUE = ("dispatch-table comparison + path order + abstract interpretation of the printers (expression / statement / blo"
             "ck printers interpreted by the checker's own evaluator on model trees, the returned text parsed and executed abstractly) + decision tables")

VERILOG_ARITY = {"~": {1}, "+": {1, 2}, "-": {1, 2}, "*": {2}, "<<<": {2}, ">>>": {2}, "&": {1, 2}, "^": {1, 2}, "|": {1, 2},
                 "<": {2}, "<=": {2}, "==": {2}, "!=": {2}, ">": {2}, ">=": {2}, "m": {3}}


def _migen_file(name):
    cands = sorted(glob.glob(f"/venv/lib/python3*/site-packages/migen/fhdl/{name}"))
    if not cands:
        raise AnalysisError(f"installed Migen source migen/fhdl/{name} not found (needed for the C01 tables)")
    return cands[-1]


def _isinstance_arms(fn, var=None):
    """class names tested by `isinstance(<var>, X)` in the if/elif chain(s) of fn."""
    out = []
    for n in walk_no_nested(fn):
        if isinstance(n, ast.If):
            for c in ast.walk(n.test):
                if isinstance(c, ast.Call) and isinstance(c.func, ast.Name) and c.func.id == "isinstance" and len(c.args) == 2:
                    if var is not None and norm(c.args[0]) != var:
                        continue
                    t = c.args[1]
                    for x in (t.elts if isinstance(t, ast.Tuple) else [t]):
                        out.append(norm(x))
    return set(out)


def _if_chain_paths(stmts):
    fn = ast.FunctionDef(name="<frag>", args=ast.arguments(posonlyargs=[], args=[], kwonlyargs=[], kw_defaults=[], defaults=[]),
                         body=stmts, decorator_list=[], lineno=getattr(stmts[0], "lineno", 0) if stmts else 0)
    return P.enumerate_paths(fn)


def _beval(e, env):
    """Evaluate a boolean expression over env (names/texts -> bool); None if unknown."""
    if isinstance(e, ast.Constant):
        return bool(e.value)
    if isinstance(e, ast.UnaryOp) and isinstance(e.op, ast.Not):
        v = _beval(e.operand, env)
        return None if v is None else (not v)
    if isinstance(e, ast.BoolOp):
        vs = [_beval(v, env) for v in e.values]
        if isinstance(e.op, ast.And):
            if any(v is False for v in vs):
                return False
            return None if any(v is None for v in vs) else True
        if any(v is True for v in vs):
            return True
        return None if any(v is None for v in vs) else False
    t = norm(e)
    if t in env:
        return env[t]
    if isinstance(e, ast.Compare) and len(e.ops) == 1:
        dual = {ast.In: ast.NotIn, ast.NotIn: ast.In, ast.Eq: ast.NotEq, ast.NotEq: ast.Eq, ast.Is: ast.IsNot, ast.IsNot: ast.Is}.get(type(e.ops[0]))
        if dual is not None:
            td = norm(ast.Compare(left=e.left, ops=[dual()], comparators=e.comparators))
            if td in env and isinstance(env[td], bool):
                return not env[td]
        l, r = norm(e.left), e.comparators[0]
        op = e.ops[0]
        if l in env and not isinstance(env[l], bool):
            val = env[l]
            if isinstance(op, (ast.Eq, ast.NotEq)):
                res = (val == norm(r))
                return res if isinstance(op, ast.Eq) else (not res)
            if isinstance(op, (ast.In, ast.NotIn)) and isinstance(r, (ast.List, ast.Tuple, ast.Set)):
                res = val in [norm(x) for x in r.elts]
                return res if isinstance(op, ast.In) else (not res)
            if isinstance(op, (ast.Is, ast.IsNot)) and norm(r) == "None":
                res = (val == "None")
                return res if isinstance(op, ast.Is) else (not res)
    return None


def _stmt_guards(fn):
    """id(stmt) -> [(test, polarity)] enclosing Python conditions, including `if c: continue` prefixes."""
    out = {}

    def block(stmts, guards):
        extra = []
        for st in stmts:
            g = guards + extra
            out[id(st)] = g
            if isinstance(st, ast.If):
                block(st.body, g + [(st.test, True)])
                block(st.orelse, g + [(st.test, False)])
                if st.body and isinstance(st.body[-1], (ast.Continue, ast.Return, ast.Raise, ast.Break)) and not st.orelse:
                    extra.append((st.test, False))
            elif isinstance(st, (ast.For, ast.While)):
                block(st.body, g)
            elif isinstance(st, (ast.With, ast.Try)):
                block(st.body, g)
    block(fn.body, [])
    return out


def run(ctx):
    ctx.rule("C01.a", "lowering pipeline: lower_complex_slices, insert_resets, lower_basics, lower_specials, lower_basics in "
                      "this order before the first emission on every path; each value-returning pass is rebound to f; "
                      "specials emitted are f.specials - lowered_specials", min_sites=7)
    ctx.rule("C01.b", "node exhaustiveness: expression/statement kinds the simulator evaluates are printed, lowered away "
                      "(visit_* of Migen's _BasicLowerer) or memory-only", min_sites=3)
    ctx.rule("C01.c", "operator agreement: simulator table + {-, m} = operators Migen can construct; each is a Verilog "
                      "operator of the same arity; every spelling the printer special-cases exists", min_sites=4)
    ctx.rule("C01.d", "assignment kind table: BLOCKING '=', NON_BLOCKING '<=', SIGNAL: '=' iff variable; sync emitter passes "
                      "SIGNAL; `assign` statements pass BLOCKING", min_sites=9)
    ctx.rule("C01.e", "signed promotion: in binary (non-shift) and ternary operators exactly the unsigned operand is wrapped "
                      "in $signed when signs differ, result sign = OR; unary minus wraps iff unsigned and yields signed",
             min_sites=13)
    ctx.rule("C01.f", "comb always blocks: a reset-value default line for every target precedes the statements; only a single "
                      "whole-signal assignment is printed as a wire", min_sites=5)
    ctx.rule("C01.g", "register initialiser is the printed sig.reset", min_sites=1)
    ctx.rule("C01.h", "memory template: helper registers written iff read; exactly one dat_r driver per port; write block "
                      "under we (with the lane bit iff granular); NO_CHANGE read under !we; re wraps the read", min_sites=13)
    ctx.rule("C01.i", "literal format: <sign><nbits>'d<abs(value)>, sign iff value < 0", min_sites=4)
    ctx.rule("C01.j", "inclusive bounds: every printed range upper bound is (length or stop) - 1", min_sites=10)
    ctx.rule("C01.k", "Cat prints its operands reversed exactly once (Migen LSB-first, Verilog MSB-first); Cat and Replicate always "
                      "print a brace-delimited concatenation and report it unsigned: inside {} an operand is self-determined and "
                      "unsigned, a bare operand would leak its sign and its context-determined width into the enclosing expression",
             min_sites=5)
    ctx.rule("C01.n", "memory initial contents: the $readmemh data file lists memory.init word by word, unmodified (at most masked to "
                      "the memory width), in hex, and is loaded into the declared memory", min_sites=5)
    ctx.rule("C01.m", "slice lowering: a slice of a Cat/Replicate/nested slice is re-targeted to the one element that holds all its "
                      "bits with start made relative to it; the element offset restarts for every Cat entered; containment tests "
                      "evaluated exhaustively on a small integer domain against their specification", min_sites=8)
    ctx.rule("C01.p", "statement printer: the text _generate_node prints for a statement tree (If with / without else, nested, Case with "
                      "constant arms, empty arms, default, lists; the three assignment kinds; the target filter) executes the same "
                      "assignments as the tree for every valuation of its conditions and selectors -- decided by interpreting the "
                      "printer on model trees and parsing the text it returns", min_sites=8)
    ctx.rule("C01.l", "each always @(posedge clk) block pairs the clock and the statements of the same sync domain; the "
                      "simulator applies insert_resets too", min_sites=2)

    vm, em, mm, sm = ctx.mod(VER), ctx.mod(EXP), ctx.mod(MEM), ctx.mod(SIM)

    # ================================================================ C01.a
    conv = vm.func("convert")
    paths = P.feasible_paths(conv)
    ctx.analysed["paths"] += len(paths)
    ctx.analysed["functions"].add(f"{VER}::convert")
    order = ["lower_complex_slices", "insert_resets", "lower_basics", "lower_specials", "lower_basics"]
    bad = None
    nem = 0
    for p in paths:
        first_emit = p.index_where(lambda e: e[0] == "stmt" and any(norm(c.func).startswith("_generate_module") or
                                                                    norm(c.func).startswith("_generate_signals") or
                                                                    norm(c.func).startswith("_generate_combinatorial") or
                                                                    norm(c.func).startswith("_generate_synchronous") or
                                                                    norm(c.func).startswith("_generate_specials")
                                                                    for c in P.calls_in(e[1])) and not isinstance(e[1], (ast.If, ast.For)))
        if first_emit < 0:
            continue
        nem += 1
        seq = []
        for e in p.ev[:first_emit]:
            if e[0] != "stmt" or isinstance(e[1], (ast.For, ast.While, ast.If, ast.With)):
                continue
            for c in P.calls_in(e[1]):
                fnm = norm(c.func)
                if fnm in set(order):
                    seq.append((fnm, e[1], c))
        names = [s[0] for s in seq]
        if names != order:
            bad = (p, f"passes before the first emission are {names}, required {order}")
            break
        for fnm, st, c in seq:
            if not (c.args and norm(c.args[-1]) == "f"):
                bad = (p, f"{fnm} is not applied to f")
            if fnm == "insert_resets":
                continue        # in-place
            ok = isinstance(st, ast.Assign) and st.value is c and \
                (norm(st.targets[0]) == "f" or (isinstance(st.targets[0], ast.Tuple) and norm(st.targets[0].elts[0]) == "f"))
            if not ok:
                bad = (p, f"the result of {fnm} is not rebound to f (`{norm(st)[:60]}`): later stages print the un-lowered fragment")
        if bad:
            break
        # f must not be rebound to something else between the last pass and the emissions
        last = max(i for i, e in enumerate(p.ev[:first_emit]) if e[0] == "stmt" and any(norm(c.func) == "lower_basics" for c in P.calls_in(e[1])))
        for e in p.ev[last + 1:]:
            if e[0] == "stmt" and isinstance(e[1], ast.Assign) and any(norm(t) == "f" for t in e[1].targets):
                bad = (p, f"f is rebound after the last lowering pass (L{e[1].lineno})")
    ctx.ob("C01.a", VER, "convert", "pipeline order and rebinding on every emitting path", bad is None and nem > 0,
           "" if (bad is None and nem) else (bad[1] if bad else "no emitting path found"), conv)
    for gname in ("_generate_module", "_generate_signals", "_generate_synchronous_logic"):
        calls = [c for c in ast.walk(conv) if isinstance(c, ast.Call) and norm(c.func) == gname]
        ok = len(calls) == 1 and calls[0].args and norm(calls[0].args[0]) == "f"
        ctx.ob("C01.a", VER, "convert", f"{gname} prints the lowered f", ok, "" if ok else f"{[norm(c) for c in calls]}", conv)
    # (the two emitters may be called directly or through a local name bound to one of them per flavour)
    alias = {}
    for n in ast.walk(conv):
        if isinstance(n, ast.Assign) and len(n.targets) == 1 and isinstance(n.targets[0], ast.Name) and isinstance(n.value, ast.Name) and \
                n.value.id.startswith("_generate_combinatorial_logic"):
            alias.setdefault(n.targets[0].id, set()).add(n.value.id)
    calls = [c for c in ast.walk(conv) if isinstance(c, ast.Call) and (norm(c.func).startswith("_generate_combinatorial_logic") or norm(c.func) in alias)]
    reached = set()
    for c in calls:
        reached |= alias.get(norm(c.func), {norm(c.func)})
    ok = reached == {"_generate_combinatorial_logic_sim", "_generate_combinatorial_logic_synth"} and all(c.args and norm(c.args[0]) == "f" for c in calls)
    ctx.ob("C01.a", VER, "convert", "comb emitters print the lowered f", ok, "" if ok else f"{[norm(c) for c in calls]}", conv)
    calls = [c for c in ast.walk(conv) if isinstance(c, ast.Call) and norm(c.func) == "_generate_specials"]
    sp = [norm(k.value) for c in calls for k in c.keywords if k.arg == "specials"]
    ok = sp == ["f.specials - lowered_specials"]
    ctx.ob("C01.a", VER, "convert", "specials emitted = f.specials - lowered_specials", ok, "" if ok else f"specials = {sp}", conv)
    ls = [n for n in ast.walk(conv) if isinstance(n, ast.Assign) and isinstance(n.targets[0], ast.Tuple) and
          norm(n.targets[0]) == "(f, lowered_specials)" and norm(n.value.func) == "lower_specials"]
    ctx.ob("C01.a", VER, "convert", "lowered_specials comes from lower_specials", len(ls) == 1, "lower_specials result not kept", conv)
    # the simulator applies insert_resets itself (so dropping it in convert shows in hardware only)
    sinit = sm.method("Simulator", "__init__")
    ok = any(isinstance(c, ast.Call) and norm(c.func) == "insert_resets" for c in ast.walk(sinit))
    ctx.ob("C01.l", SIM, "Simulator.__init__", "reference simulator applies insert_resets", ok, "" if ok else "simulator no longer inserts resets", sinit)

    # ================================================================ C01.b
    tools = Mod("/", _migen_file("tools.py").lstrip("/"))
    bl = tools.cls("_BasicLowerer")
    lowered = {"_" + n.name[len("visit_"):] if n.name[len("visit_"):] in ("ArrayProxy",) else n.name[len("visit_"):]
               for n in bl.body if isinstance(n, ast.FunctionDef) and n.name.startswith("visit_")}
    ev = sm.method("Evaluator", "eval")
    sim_arms = _isinstance_arms(ev, "node")
    prn_arms = _isinstance_arms(em.func("_generate_expression"), "node")
    extra = sim_arms - prn_arms - lowered - {"_MemoryLocation"}
    ctx.ob("C01.b", EXP, "_generate_expression", "expression kinds of the simulator are printed or lowered", not extra and len(prn_arms) >= 6,
           "" if not extra else f"the simulator evaluates {sorted(extra)} which the printer neither prints nor lowers (printer arms "
                                f"{sorted(prn_arms)}, lowered {sorted(lowered)})", em.func("_generate_expression"))
    asg = sm.method("Evaluator", "assign")
    sim_l = _isinstance_arms(asg, "node")
    extra = sim_l - prn_arms - lowered - {"_MemoryLocation"}
    ctx.ob("C01.b", EXP, "_generate_expression", "assignable kinds of the simulator are printed or lowered", not extra,
           "" if not extra else f"assign() handles {sorted(extra)}", asg)
    exe = sm.method("Evaluator", "execute")
    sim_st = _isinstance_arms(exe, "s")
    prn_st = _isinstance_arms(vm.func("_generate_node"), "node")
    extra = sim_st - prn_st
    ctx.ob("C01.b", VER, "_generate_node", "statement kinds of the simulator are printed", not extra and len(prn_st) >= 4,
           "" if not extra else f"execute() handles {sorted(extra)} which _generate_node does not print (arms {sorted(prn_st)})",
           vm.func("_generate_node"))

    # ================================================================ C01.c
    try:
        s2o = sm.const("str2op")
        keys = {k.value for k in s2o.keys}
    except Exception:
        raise AnalysisError("sim/core.py: str2op is not a literal dict")
    simops = keys | {"-", "m"}
    struct = Mod("/", _migen_file("structure.py").lstrip("/"))
    made = {c.args[0].value for c in ast.walk(struct.tree) if isinstance(c, ast.Call) and norm(c.func) == "_Operator" and c.args and
            isinstance(c.args[0], ast.Constant)}
    ok = made == simops
    ctx.ob("C01.c", SIM, "str2op", "simulator operators = operators Migen constructs", ok,
           "" if ok else f"constructible {sorted(made)} vs simulated {sorted(simops)}", s2o)
    unknown = sorted(o for o in simops if o not in VERILOG_ARITY)
    ctx.ob("C01.c", SIM, "str2op", "every operator is a Verilog-2001 operator (embedded table)", not unknown, f"{unknown}", s2o)
    go = em.func("_generate_operator")
    special = set()
    for n in ast.walk(go):
        if isinstance(n, ast.Compare) and norm(n.left) == "operator":
            for c in n.comparators:
                for x in (c.elts if isinstance(c, (ast.List, ast.Tuple)) else [c]):
                    if isinstance(x, ast.Constant):
                        special.add(x.value)
    ok = special <= simops and {"-", "m", "<<<", ">>>"} <= special
    ctx.ob("C01.c", EXP, "_generate_operator", "special-cased spellings exist and cover {-, m, <<<, >>>}", ok,
           "" if ok else f"special-cased {sorted(special)}", go)
    ar = [n for n in ast.walk(go) if isinstance(n, ast.Compare) and norm(n.left) == "arity"]
    arities = {norm(n.comparators[0]) for n in ar if isinstance(n.ops[0], ast.Eq)}
    ok = arities == {"OperatorType.UNARY", "OperatorType.BINARY", "OperatorType.TERNARY"}
    ctx.ob("C01.c", EXP, "_generate_operator", "arms for arity 1, 2, 3", ok, "" if ok else f"{arities}", go)

    # ================================================================ C01.d (the operator per assignment kind is read off the text the
    # interpreted statement printer returns, see _node_printer; the callers' kinds are checked below)
    _node_printer(ctx, vm)
    sy = vm.func("_generate_synchronous_logic")
    ats = [norm(c.args[1]) for c in ast.walk(sy) if isinstance(c, ast.Call) and norm(c.func) == "_generate_node"]
    ok = ats and all(a in ("AssignType.SIGNAL", "AssignType.NON_BLOCKING") for a in ats)
    ctx.ob("C01.d", VER, "_generate_synchronous_logic", "clocked statements use SIGNAL/NON_BLOCKING", ok, "" if ok else f"{ats}", sy)
    for fname in ("_generate_combinatorial_logic_sim", "_generate_combinatorial_logic_synth"):
        f = vm.func(fname)
        okk = True
        n_as = 0
        for n in ast.walk(f):
            if isinstance(n, ast.BinOp) and isinstance(n.op, ast.Add) and isinstance(n.left, ast.Constant) and n.left.value == "assign ":
                n_as += 1
                c = n.right
                okk = okk and isinstance(c, ast.Call) and norm(c.func) == "_generate_node" and norm(c.args[1]) == "AssignType.BLOCKING"
        ctx.ob("C01.d", VER, fname, "`assign` uses BLOCKING ('=')", okk and n_as == 1, "" if okk else "continuous assignment printed with <=", f)

    # ================================================================ C01.e / C01.i (decided on the text the interpreted expression printer
    # returns for model expression trees, see _expression_printer)
    _expression_printer(ctx, em)

    # ================================================================ C01.f (wire classification, reset defaults: decided on the text the
    # interpreted block printers return, see the end of _node_printer)
    sinit_txt = norm(sinit)
    ok = "self.fragment.comb[0:0] = [s.eq(s.reset) for s in list_targets(self.fragment.comb)]" in sinit_txt
    ctx.ob("C01.f", SIM, "Simulator.__init__", "simulator defaults comb targets to reset first", ok, "" if ok else "simulator semantics changed", sinit)

    # ================================================================ C01.g
    gs = vm.func("_generate_signals")
    ok = False
    for n in ast.walk(gs):
        if isinstance(n, ast.If) and norm(n.test) == "regs_init":
            ok = any("_generate_expression(ns, sig.reset)[0]" in norm(st) and "' = '" in norm(st) for st in n.body)
    ctx.ob("C01.g", VER, "_generate_signals", "initialiser = printed sig.reset", ok, "" if ok else "register initial value is not sig.reset", gs)

    # ================================================================ C01.h
    mg = mm.func("_memory_generate_verilog")
    guards = _stmt_guards(mg)
    MODES = ["WRITE_FIRST", "READ_FIRST", "NO_CHANGE"]

    def holds(gl, env):
        for t, pol in gl:
            v = _beval(t, env)
            if v is None:
                # conditions that do not concern the port configuration (memory.init, granularity text) are ignored
                if any(k in norm(t) for k in ("port.mode", "port.async_read", "port.we is", "port.re is")):
                    raise AnalysisError(f"memory template: condition `{norm(t)}` outside the decision-table grammar")
                continue
            if v != pol:
                return False
        return True

    def occ(name, store):
        out = []
        for st in ast.walk(mg):
            if not isinstance(st, ast.stmt) or id(st) not in guards or isinstance(st, (ast.If, ast.For, ast.While, ast.FunctionDef)):
                continue
            for n in ast.walk(st):
                if isinstance(n, ast.Subscript) and norm(n.value) == name and isinstance(n.ctx, ast.Store if store else ast.Load):
                    out.append(st)
                    break
        return out
    vals = []
    for mode in MODES:
        for ar in (False, True):
            for we in ("None", "sig"):
                for re_ in ("None", "sig"):
                    vals.append({"port.mode": mode, "port.async_read": ar, "port.we": we, "port.re": re_})
    for reg in ("adr_regs", "data_regs"):
        st_w, st_r = occ(reg, True), occ(reg, False)
        ctx.ob("C01.h", MEM, "_memory_generate_verilog", f"{reg}: written and read", bool(st_w) and len(st_r) >= 2,
               f"{reg}: {len(st_w)} writes, {len(st_r)} reads", mg)
        bad = None
        for env in vals:
            w = any(holds(guards[id(s)], env) for s in st_w)
            for s in st_r:
                if holds(guards[id(s)], env) and not w:
                    bad = (env, s)
            # written => read both in the clocked block and in the dat_r mapping (else the register is dead and dat_r undriven)
            if w:
                nr = sum(1 for s in st_r if holds(guards[id(s)], env) and s not in st_w)
                if nr < 2:
                    bad = (env, st_w[0])
        ctx.ob("C01.h", MEM, "_memory_generate_verilog", f"{reg} written iff read (mode x async_read x we x re)", bad is None,
               "" if bad is None else f"for port configuration {bad[0]} `{reg}` is read without having been created, or created "
                                      f"and not used on both the clocked and the mapping side (L{bad[1].lineno})", bad[1] if bad else mg)
    # exactly one `assign dat_r` per configuration
    assigns = [st for st in ast.walk(mg) if isinstance(st, ast.AugAssign) and id(st) in guards and "assign {_get_name(port.dat_r)}" in norm(st)]
    bad = None
    for env in vals:
        n = sum(1 for s in assigns if holds(guards[id(s)], env))
        if n != 1:
            bad = (env, n)
    ctx.ob("C01.h", MEM, "_memory_generate_verilog", "exactly one dat_r driver per port configuration", bad is None and len(assigns) == 3,
           "" if bad is None else f"port configuration {bad[0]} gets {bad[1]} `assign dat_r` statements", mg)
    # sources of dat_r per mode
    src = {}
    for s in assigns:
        for env in vals:
            if holds(guards[id(s)], env):
                key = ("async" if env["port.async_read"] else env["port.mode"])
                t = norm(s.value)
                src.setdefault(key, set()).add("adr_regs" if "adr_regs[n]" in t else ("data_regs" if "data_regs[n]" in t else
                                                                                     ("direct" if "[{_get_name(port.adr)}]" in t else "?")))
    ok = src == {"async": {"direct"}, "WRITE_FIRST": {"adr_regs"}, "READ_FIRST": {"data_regs"}, "NO_CHANGE": {"data_regs"}}
    ctx.ob("C01.h", MEM, "_memory_generate_verilog", "dat_r source per mode (async direct, write-first via adr reg, others via data reg)",
           ok, "" if ok else f"{src}", mg)
    # write block
    wr = [st for st in ast.walk(mg) if isinstance(st, ast.AugAssign) and id(st) in guards and "<= {_get_name(port.dat_w)}" in norm(st)]
    ok = len(wr) == 1 and any(norm(t) == "port.we is not None" and pol for t, pol in guards[id(wr[0])])
    ctx.ob("C01.h", MEM, "_memory_generate_verilog", "write statement only for ports with we", ok, "" if ok else "write block not under `port.we is not None`", mg)
    wl = [st for st in ast.walk(mg) if isinstance(st, ast.AugAssign) and id(st) in guards and "if ({_get_name(port.we)}{wbit})" in norm(st)]
    ok = len(wl) == 1 and wr and wl[0].lineno < wr[0].lineno
    ctx.ob("C01.h", MEM, "_memory_generate_verilog", "write guarded by we (with lane bit) before the data", ok, "" if ok else "we guard line missing or after the write", mg)
    wb = [n for n in ast.walk(mg) if isinstance(n, ast.Assign) and norm(n.targets[0]) == "wbit"]
    ok = len(wb) == 1 and isinstance(wb[0].value, ast.IfExp) and norm(wb[0].value.test) == "memory.width != port.we_granularity" and \
        norm(wb[0].value.orelse) == "''" and "[{i}]" in norm(wb[0].value.body)
    ctx.ob("C01.h", MEM, "_memory_generate_verilog", "lane bit [i] iff granular", ok, "" if ok else f"wbit = {norm(wb[0].value) if wb else '?'}", mg)
    ds = [n for n in ast.walk(mg) if isinstance(n, ast.Assign) and norm(n.targets[0]) == "dslc"]
    ok = len(ds) == 1 and isinstance(ds[0].value, ast.IfExp) and norm(ds[0].value.test) == "memory.width != port.we_granularity" and \
        "[{hbit}:{lbit}]" in norm(ds[0].value.body)
    ctx.ob("C01.h", MEM, "_memory_generate_verilog", "data slice [hbit:lbit] iff granular, same slice on both sides", ok and
           norm(wr[0].value).count("{dslc}") == 2 if wr else False, "" if ok else "data lane slice changed", mg)
    nc = [st for st in ast.walk(mg) if isinstance(st, ast.AugAssign) and id(st) in guards and "if (!{_get_name(port.we)})" in norm(st)]
    ok = len(nc) == 1 and any(norm(t) == "port.mode == NO_CHANGE" and pol for t, pol in guards[id(nc[0])])
    ctx.ob("C01.h", MEM, "_memory_generate_verilog", "NO_CHANGE read only when not writing", ok, "" if ok else "NO_CHANGE `if (!we)` guard missing", mg)
    rew = [st for st in ast.walk(mg) if isinstance(st, ast.AugAssign) and id(st) in guards and "if ({_get_name(port.re)})" in norm(st)]
    ok = len(rew) == 1 and any(norm(t) == "port.re is None" and not pol for t, pol in guards[id(rew[0])])
    ctx.ob("C01.h", MEM, "_memory_generate_verilog", "read enable wraps the read", ok, "" if ok else "re guard missing", mg)
    ck = [st for st in ast.walk(mg) if isinstance(st, ast.AugAssign) and "always @(posedge {_get_name(port.clock)})" in norm(st)]
    ctx.ob("C01.h", MEM, "_memory_generate_verilog", "each port clocked by its own clock", len(ck) == 1, "port clock changed", mg)
    _memory_port_setup(ctx, mg)

    # ================================================================ C01.j
    def minus_one(e, defs):
        k = 0
        while isinstance(e, ast.Name) and e.id in defs and k < 3:
            e = defs[e.id]
            k += 1
        if isinstance(e, ast.Call) and norm(e.func) == "str" and len(e.args) == 1:
            e = e.args[0]
        return isinstance(e, ast.BinOp) and isinstance(e.op, ast.Sub) and isinstance(e.right, ast.Constant) and e.right.value == 1

    def ranges(fn):
        """[(upper expr, lower expr or None, node)] for every `[{U}:{L}]`, `[{U}:0]`, `[0:{U}]` in f-strings of fn."""
        out = []
        for js in ast.walk(fn):
            if not isinstance(js, ast.JoinedStr):
                continue
            v = js.values
            for i, part in enumerate(v):
                if isinstance(part, ast.FormattedValue):
                    prev = v[i - 1].value if i > 0 and isinstance(v[i - 1], ast.Constant) else ""
                    nxt = v[i + 1].value if i + 1 < len(v) and isinstance(v[i + 1], ast.Constant) else ""
                    if isinstance(prev, str) and isinstance(nxt, str):
                        if prev.endswith("[") and nxt.startswith(":"):
                            out.append(("msb", part.value, js))
                        elif prev.endswith("[0:") and nxt.startswith("]"):
                            out.append(("last", part.value, js))
        return out
    nsites = 0
    for rel, mod, fname in ((EXP, em, "_generate_slice"), (EXP, em, "_generate_signal"), (MEM, mm, "_memory_generate_verilog")):
        f = mod.func(fname)
        defs = {}
        for n in ast.walk(f):
            if isinstance(n, ast.Assign) and isinstance(n.targets[0], ast.Name):
                defs[n.targets[0].id] = n.value
        rs = ranges(f)
        for kind, e, js in rs:
            nsites += 1
            ok = minus_one(e, defs)
            ctx.ob("C01.j", rel, fname, f"range bound `{norm(e)}` is (len|stop) - 1", ok,
                   "" if ok else f"`{norm(js)[:70]}` prints `{norm(e)}` as an inclusive Verilog bound without - 1 (off by one bit)", js)
    ctx.ob("C01.j", EXP, "<ranges>", "range sites found", nsites >= 6, f"only {nsites} printed ranges found")
    # declarations by value: `_generate_signal` interpreted on model signals -- `signed` printed exactly for signed signals of every
    # width (a 1-bit signed signal holds 0 / -1 and is sign-extended by the simulator), range [n-1:0] exactly for n > 1, the name
    from ..pyconst import NS as _NS, Native as _Native
    gsig = em.func("_generate_signal")
    bad = None
    for nb in (1, 2, 8, 33):
        for sg in (False, True):
            try:
                kind, txt = pyconst.call(gsig, {"ns": _NS(get_name=_Native(lambda x_: "the_sig")), "s": _NS(signed=sg, nbits=nb, __len__=nb)},
                                         funcs={f_.name: f_ for f_ in em.tree.body if isinstance(f_, ast.FunctionDef)})
            except Exception as ex:     # noqa
                ctx.need(False, f"_generate_signal cannot be interpreted ({type(ex).__name__}: {ex})")
            toks = txt.split() if kind == "return" and isinstance(txt, str) else None
            want = (["signed"] if sg else []) + ([f"[{nb - 1}:0]"] if nb > 1 else []) + ["the_sig"]
            if toks != want and bad is None:
                bad = f"a {'signed' if sg else 'unsigned'} {nb}-bit signal is declared `{' '.join(toks) if toks else txt}`, expected `{' '.join(want)}`"
    ctx.ob("C01.j", EXP, "_generate_signal", "declaration = [signed] [n-1:0] name for every width and signedness", bad is None, bad or "", gsig)
    gsl = em.func("_generate_slice")
    gdefs = {n.targets[0].id: n.value for n in ast.walk(gsl) if isinstance(n, ast.Assign) and isinstance(n.targets[0], ast.Name)}

    def res(e):
        k = 0
        while isinstance(e, ast.Name) and e.id in gdefs and k < 3:
            e = gdefs[e.id]
            k += 1
        return norm(e)
    lows = []
    for js in ast.walk(gsl):
        if isinstance(js, ast.JoinedStr):
            v = js.values
            for i, part in enumerate(v):
                if isinstance(part, ast.FormattedValue) and i > 0 and isinstance(v[i - 1], ast.Constant) and \
                        str(v[i - 1].value).endswith((":", "[")) and i + 1 < len(v) and isinstance(v[i + 1], ast.Constant) and \
                        str(v[i + 1].value).startswith("]"):
                    lows.append(res(part.value))
    ok = len(lows) == 2 and set(lows) == {"node.start"}
    ctx.ob("C01.j", EXP, "_generate_slice", "low bound / single bit index = node.start", ok, "" if ok else f"low bounds {lows}", gsl)
    lb = [n for n in ast.walk(mg) if isinstance(n, ast.Assign) and norm(n.targets[0]) == "lbit"]
    ok = len(lb) == 1 and norm(lb[0].value) == "i * port.we_granularity"
    ctx.ob("C01.j", MEM, "_memory_generate_verilog", "lane low bit = i*granularity", ok, "" if ok else "lbit changed", mg)

    # ================================================================ C01.k
    gcat = em.func("_generate_cat")
    nrev = sum(1 for n in ast.walk(gcat) if (isinstance(n, ast.Call) and norm(n.func) == "reversed") or
               (isinstance(n, ast.Subscript) and norm(n.slice) == "::-1"))
    src_ok = any("node.l" in norm(n) for n in ast.walk(gcat) if (isinstance(n, ast.Call) and norm(n.func) == "reversed") or
                 (isinstance(n, ast.Subscript) and norm(n.slice) == "::-1"))
    ctx.ob("C01.k", EXP, "_generate_cat", "operands reversed exactly once", nrev == 1 and src_ok,
           "" if nrev == 1 else f"Cat operands are reversed {nrev} times: Migen's Cat is LSB-first, Verilog's {{}} MSB-first", gcat)

    for fname in ("_generate_cat", "_generate_replicate"):
        f = em.func(fname)
        rets = [p for p in P.feasible_paths(f) if p.end == "return"]
        ctx.ob("C01.k", EXP, fname, "return:present", bool(rets), "no return", f)
        for p in rets:
            v = p.end_node.value
            txt, sgn = (v.elts[0], v.elts[1]) if isinstance(v, ast.Tuple) and len(v.elts) == 2 else (None, None)
            parts = []

            def flat(e):
                if isinstance(e, ast.BinOp) and isinstance(e.op, ast.Add):
                    flat(e.left)
                    flat(e.right)
                elif isinstance(e, ast.JoinedStr):
                    parts.extend(e.values)
                else:
                    parts.append(e)
            if txt is not None:
                flat(txt)
            ok = bool(parts) and isinstance(parts[0], ast.Constant) and str(parts[0].value).startswith("{") and \
                isinstance(parts[-1], ast.Constant) and str(parts[-1].value).endswith("}")
            ctx.ob("C01.k", EXP, fname, f"returned text is brace-delimited (L{p.end_node.lineno})", ok,
                   "" if ok else f"`return {norm(v)[:70]}` prints the operand bare: its signedness and context-determined width leak into the "
                                 f"enclosing expression (Migen masks a Cat/Replicate to its own width and treats it as unsigned)", p.end_node)
            ok = sgn is not None and norm(sgn) == "False"
            ctx.ob("C01.k", EXP, fname, f"reported unsigned (L{p.end_node.lineno})", ok, "" if ok else f"signedness {norm(sgn) if sgn is not None else '?'}", p.end_node)

    # ================================================================ C01.l (clock / statement pairing: decided on the printed text, see
    # _node_printer; the simulator side is checked above)
    # ================================================================ C01.m
    _slice_lowering(ctx, vm)

    # ================================================================ C01.n
    _memory_init(ctx, mm)


def _ieval(e, env):
    """Integer/boolean value of a small expression over env (names and `len(<text>)` keys); raises KeyError/ValueError."""
    if isinstance(e, ast.Constant) and isinstance(e.value, (int, bool)):
        return e.value
    if isinstance(e, ast.Name):
        return env[e.id]
    if isinstance(e, ast.Call) and norm(e.func) == "len" and len(e.args) == 1:
        return env["len(" + norm(e.args[0]) + ")"]
    if isinstance(e, ast.UnaryOp) and isinstance(e.op, ast.Not):
        return not _ieval(e.operand, env)
    if isinstance(e, ast.UnaryOp) and isinstance(e.op, ast.USub):
        return -_ieval(e.operand, env)
    if isinstance(e, ast.BinOp):
        a, b = _ieval(e.left, env), _ieval(e.right, env)
        ops = {ast.Add: lambda: a + b, ast.Sub: lambda: a - b, ast.Mult: lambda: a * b, ast.FloorDiv: lambda: a // b, ast.Mod: lambda: a % b}
        if type(e.op) in ops:
            return ops[type(e.op)]()
    if isinstance(e, ast.BoolOp):
        vs = [_ieval(v, env) for v in e.values]
        return all(vs) if isinstance(e.op, ast.And) else any(vs)
    if isinstance(e, ast.Compare):
        l = _ieval(e.left, env)
        for op, c in zip(e.ops, e.comparators):
            r = _ieval(c, env)
            res = {ast.Lt: l < r, ast.LtE: l <= r, ast.Gt: l > r, ast.GtE: l >= r, ast.Eq: l == r, ast.NotEq: l != r}.get(type(op))
            if res is None:
                raise ValueError("operator")
            if not res:
                return False
            l = r
        return True
    raise ValueError(f"cannot evaluate {norm(e)}")


def _slice_lowering(ctx, vm):
    """C01.m: a slice of a Cat / Replicate / nested slice is re-targeted to the element that holds all its bits, with the
    offset made relative to that element (the simulator evaluates the slice on the whole value: both must select the same bits)."""
    # ---- _lower_slice_cat / _lower_slice_replicate: interpreted exactly (lxs/pyconst.py) on small expression trees of opaque leaves;
    #      whatever the functions return must select the same bits as the slice they were given, and must have descended whenever
    #      one element / one copy holds all the bits (a slice of a concatenation cannot be printed in Verilog)
    import itertools
    from .. import pyconst
    fc, fr = vm.func("_lower_slice_cat"), vm.func("_lower_slice_replicate")
    for f_ in (fc, fr):
        ctx.analysed["functions"].add(f"{VER}::{f_.name}")
        ctx.need(len(f_.args.args) == 3, f"{f_.name}(node, start, length): signature changed")

    def leaf(name, w):
        return pyconst.NS(__cls__={"Signal"}, __len__=w, name=name)

    def cat(*els):
        return pyconst.NS(__cls__={"Cat"}, l=list(els), __len__=sum(e["__len__"] for e in els))

    def rep(v, n):
        return pyconst.NS(__cls__={"Replicate"}, v=v, n=n, __len__=v["__len__"] * n)

    def bits(n):
        if "Signal" in n["__cls__"]:
            return [(n["name"], k) for k in range(n["__len__"])]
        if "Cat" in n["__cls__"]:
            return [b for e in n["l"] for b in bits(e)]
        return bits(n["v"]) * n["n"]
    a_, b_, c_ = leaf("a", 2), leaf("b", 3), leaf("c", 1)
    trees = [cat(a_, b_), cat(a_, b_, c_), cat(c_, cat(a_, b_)), cat(cat(a_, c_), b_), cat(b_, cat(c_, cat(a_, c_))),
             rep(a_, 3), rep(b_, 2), rep(cat(a_, c_), 2), cat(rep(a_, 2), b_), rep(rep(a_, 2), 2), cat(a_), rep(c_, 4)]
    funcs_ = {n.name: n for n in vm.tree.body if isinstance(n, ast.FunctionDef)}
    verdict = {"_lower_slice_cat": {"same": None, "down": None, "n": 0}, "_lower_slice_replicate": {"same": None, "down": None, "n": 0}}
    try:
        for tree in trees:
            W = tree["__len__"]
            allb = bits(tree)
            for st in range(W):
                for ln in range(1, W - st + 1):
                    for f_ in (fc, fr):
                        pa = [x.arg for x in f_.args.args]
                        got = pyconst.call(f_, {pa[0]: tree, pa[1]: st, pa[2]: ln}, funcs=funcs_)
                        v = verdict[f_.name]
                        v["n"] += 1
                        ok_shape = got[0] == "return" and isinstance(got[1], tuple) and len(got[1]) == 2 and isinstance(got[1][0], pyconst.NS) and \
                            isinstance(got[1][1], int)
                        if not ok_shape:
                            v["same"] = v["same"] or (tree, st, ln, got)
                            continue
                        n2, s2 = got[1]
                        if not (0 <= s2 and s2 + ln <= n2["__len__"] and bits(n2)[s2:s2 + ln] == allb[st:st + ln]):
                            v["same"] = v["same"] or (tree, st, ln, (n2["__cls__"], s2))
                        kind = "Cat" if f_ is fc else "Replicate"
                        if kind in tree["__cls__"]:
                            if kind == "Cat":
                                off, inside = 0, False
                                for e in tree["l"]:
                                    inside = inside or (off <= st and st + ln <= off + e["__len__"])
                                    off += e["__len__"]
                            else:
                                w_ = tree["v"]["__len__"]
                                inside = st // w_ == (st + ln - 1) // w_
                            if inside and n2 is tree:
                                v["down"] = v["down"] or (tree, st, ln)
                            if kind in n2["__cls__"] and n2 is not tree:
                                # stopped on an inner node of the same kind: allowed only if the slice really crosses its parts
                                pass
    except pyconst.Unknowable as ex:
        ctx.need(False, f"slice lowering helpers cannot be interpreted on constant expression trees ({ex})")

    def tshow(t):
        if "Signal" in t["__cls__"]:
            return f"{t['name']}[{t['__len__']}]"
        if "Cat" in t["__cls__"]:
            return "Cat(" + ", ".join(tshow(e) for e in t["l"]) + ")"
        return f"Replicate({tshow(t['v'])}, {t['n']})"
    for fname, roles in (("_lower_slice_cat", ("element chosen iff it holds every bit of the slice",
                                               "on selection: start becomes relative to the element, node becomes the element, scan stops")),
                         ("_lower_slice_replicate", ("descends iff the slice lies inside one copy",
                                                     "start taken modulo the copy width, then node becomes the copy"))):
        v = verdict[fname]
        ctx.analysed["paths"] += v["n"]
        ok = v["same"] is None
        ctx.ob("C01.m", VER, fname, roles[1], ok,
               "" if ok else f"{fname}({tshow(v['same'][0])}, start={v['same'][1]}, length={v['same'][2]}) returns {v['same'][3]}: not the same bits as the "
                             f"slice of the whole value (which is what the simulator evaluates)", vm.func(fname))
        ok = v["down"] is None
        ctx.ob("C01.m", VER, fname, roles[0], ok,
               "" if ok else f"{fname}({tshow(v['down'][0])}, start={v['down'][1]}, length={v['down'][2]}) does not descend although one part holds "
                             f"all the bits: a slice of a concatenation / replication would be printed", vm.func(fname))

    # ---- _ComplexSliceLowerer.visit_Slice
    vs = vm.method("_ComplexSliceLowerer", "visit_Slice")
    ctx.analysed["functions"].add(f"{VER}::_ComplexSliceLowerer.visit_Slice")
    wl = [n for n in vs.body if isinstance(n, ast.While)]
    pre = {norm(n.targets[0]): norm(n.value) for n in vs.body if isinstance(n, ast.Assign)}
    ok = len(wl) == 1 and pre.get("length") == "len(node)" and pre.get("start") == "0" and norm(wl[0].test) == "isinstance(node, _Slice)" and \
        not any(isinstance(n, (ast.Assign, ast.AugAssign)) and norm(n.targets[0] if isinstance(n, ast.Assign) else n.target) == "length" for n in ast.walk(wl[0]))
    ctx.ob("C01.m", VER, "visit_Slice", "length = width of the outermost slice, fixed; start accumulates from 0 over nested slices", ok,
           "" if ok else f"{pre}", vs)
    if wl:
        b = [norm(n) for n in wl[0].body[:2]]
        ok = b == ["start += node.start", "node = node.value"]
        ctx.ob("C01.m", VER, "visit_Slice", "start += inner slice start before stepping to its value", ok, "" if ok else f"{b}", wl[0])
    sl = [norm(n) for n in ast.walk(vs) if isinstance(n, ast.Call) and norm(n.func) == "_Slice"]
    ok = len(sl) == 2 and all(x.endswith("start, start + length)") for x in sl)
    ctx.ob("C01.m", VER, "visit_Slice", "emitted slice is [start, start + length)", ok, "" if ok else f"{sl}", vs)
    idt = [n for n in vs.body if isinstance(n, ast.If) and any(isinstance(x, ast.Return) for x in n.body)]
    ok = bool(idt) and norm(idt[0].test) in ("start == 0 and len(node) == length", "len(node) == length and start == 0")
    ctx.ob("C01.m", VER, "visit_Slice", "slice dropped only when it covers the whole node", ok, "" if ok else f"{[norm(i.test) for i in idt]}", vs)


def _node_printer(ctx, vm):
    """_generate_node interpreted (lxs/pyconst.py) on model statement trees -- expressions are opaque tokens printed as themselves,
    list_targets / is_variable are modelled -- and the Verilog text it returns parsed back (begin/end, if/else, case/default) into
    a tree; both trees are then *executed* abstractly for every valuation of the conditions and every selector value (each arm's
    value and one value outside the arms): the sequences of assignments (target, operator, source) must agree."""
    import itertools
    import re as _re
    from .. import pyconst
    from ..pyconst import NS, Native, Key
    fn = vm.func("_generate_node")
    funcs = {f.name: f for f in vm.tree.body if isinstance(f, ast.FunctionDef)}
    consts = dict(pyconst.module_consts(vm.tree))

    def A(l, r):
        return NS(__cls__=("_Assign",), l=l, r=r, kind="A")

    def IF(c, t, f):
        return NS(__cls__=("If",), cond=c, t=t, f=f, kind="I")

    def K(v):
        return Key(__cls__=("Constant",), value=v, tok=f"{v}")

    def CASE(test, cases):
        return NS(__cls__=("Case",), test=test, cases=cases, kind="C")

    def targets(n):
        if isinstance(n, (list, tuple)):
            return set().union(*[targets(x) for x in n]) if n else set()
        if n["kind"] == "A":
            return {n["l"]}
        if n["kind"] == "I":
            return targets(n["t"]) | targets(n["f"])
        return set().union(*[targets(v) for v in n["cases"].values()]) if n["cases"] else set()
    consts["_generate_expression"] = Native(lambda ns, e: ((e["tok"] if isinstance(e, NS) else str(e)), False))
    consts["list_targets"] = Native(targets)
    consts["is_variable"] = Native(lambda s_: isinstance(s_, str) and s_.startswith("v"))
    at_cls = vm.classes.get("AssignType")
    ats = {}
    if at_cls is not None:
        for st in at_cls.body:
            if isinstance(st, ast.Assign) and isinstance(st.targets[0], ast.Name) and isinstance(st.value, ast.Constant):
                ats[st.targets[0].id] = st.value.value
    ctx.need(set(ats) >= {"BLOCKING", "NON_BLOCKING", "SIGNAL"}, "verilog.py: AssignType members are no longer literal class attributes")
    consts["AssignType"] = NS(**ats)

    # ---- model trees
    k0, k1, k2, k5 = K(0), K(1), K(2), K(5)
    trees = {
        "case with an empty arm and a default": [CASE("sel", {k1: [A("x", "a")], k0: [], k2: [IF("c1", [A("y", "b")], [])], "default": [A("x", "d")]})],
        "case without default": [CASE("sel", {k5: [A("x", "a"), A("y", "b")], k0: []})],
        "case with only a default": [CASE("sel", {"default": [A("x", "a")]})],
        "if / else, nested": [IF("c1", [A("x", "a"), IF("c2", [A("y", "b")], [A("y", "c")])], [IF("c3", [], [A("x", "e")])]), A("vz", "f")],
        "if without else": [IF("c1", [A("x", "a")], []), A("y", "b")],
        "statements in order": [A("x", "a"), A("x", "b"), [A("y", "c"), [A("x", "d")]]],
        "empty case": [CASE("sel", {}), A("x", "a")],
    }

    def parse(text):
        toks = _re.findall(r"[A-Za-z_0-9$']+|<=|[();:=]", text)
        pos = [0]

        def peek():
            return toks[pos[0]] if pos[0] < len(toks) else None

        def eat(t=None):
            x = peek()
            if x is None or (t is not None and x != t):
                raise ValueError(f"expected {t!r}, found {x!r} at token {pos[0]}")
            pos[0] += 1
            return x

        def block():
            eat("begin")
            b = stmts(("end",))
            eat("end")
            return b

        def stmts(stop):
            out = []
            while peek() is not None and peek() not in stop:
                if peek() == "if":
                    eat()
                    eat("(")
                    c = eat()
                    eat(")")
                    t = block()
                    f = []
                    if peek() == "else":
                        eat()
                        f = block()
                    out.append(("I", c, t, f))
                elif peek() == "case":
                    eat()
                    eat("(")
                    sel = eat()
                    eat(")")
                    arms = {}
                    while peek() != "endcase":
                        lab = eat()
                        eat(":")
                        if lab in arms:
                            raise ValueError(f"arm {lab} printed twice")
                        arms[lab] = block()
                    eat("endcase")
                    out.append(("C", sel, arms))
                else:
                    l = eat()
                    op = eat()
                    if op not in ("=", "<="):
                        raise ValueError(f"operator {op!r}")
                    r = eat()
                    eat(";")
                    out.append(("A", l, op, r))
            return out
        r = stmts(())
        if peek() is not None:
            raise ValueError(f"trailing text at token {pos[0]}")
        return r

    def run_model(n, val, at, flt, out):
        if isinstance(n, (list, tuple)):
            for x in n:
                run_model(x, val, at, flt, out)
        elif n["kind"] == "A":
            if flt is None or n["l"] == flt:
                op = "=" if at == ats["BLOCKING"] else ("<=" if at == ats["NON_BLOCKING"] else ("=" if n["l"].startswith("v") else "<="))
                out.append((n["l"], op, n["r"]))
        elif n["kind"] == "I":
            run_model(n["t"] if val[n["cond"]] else n["f"], val, at, flt, out)
        else:
            arm = [v for k, v in n["cases"].items() if k != "default" and k["value"] == val[n["test"]]]
            run_model(arm[0] if arm else n["cases"].get("default", []), val, at, flt, out)

    def run_text(n, val, out):
        for st in n:
            if st[0] == "A":
                out.append(st[1:])
            elif st[0] == "I":
                run_text(st[2] if val[st[1]] else st[3], val, out)
            else:
                arm = st[2].get(str(val[st[1]]))
                run_text(arm if arm is not None else st[2].get("default", []), val, out)
    n_ev = 0
    for label, tree in trees.items():
        bad = None
        for at in sorted(ats.values()):
            for flt in (None, "x", "y"):
                try:
                    got = pyconst.call(fn, {"ns": NS(), "at": at, "level": 1, "node": tree, "target_filter": flt}, consts=consts, funcs=funcs)
                except pyconst.Unknowable as ex:
                    ctx.need(False, f"_generate_node cannot be interpreted on a model statement tree ({ex})")
                n_ev += 1
                if got[0] != "return" or not isinstance(got[1], str):
                    bad = bad or f"kind {at}, filter {flt}: the printer {'raises' if got[0] == 'raise' else 'returns ' + repr(got[1])[:60]}"
                    continue
                try:
                    ptree = parse(got[1])
                except ValueError as ex:
                    bad = bad or f"kind {at}, filter {flt}: printed text does not parse ({ex}): {got[1][:120]!r}"
                    continue
                for conds in itertools.product((0, 1), repeat=3):
                    for selv in (0, 1, 2, 5, 9):
                        val = {"c1": conds[0], "c2": conds[1], "c3": conds[2], "sel": selv}
                        want, have = [], []
                        run_model(tree, val, at, flt, want)
                        run_text(ptree, val, have)
                        if want != have and bad is None:
                            bad = f"assignment kind {at}, target filter {flt}, {val}: the tree executes {want}, the printed text executes {have}"
        ctx.ob("C01.p", VER, "_generate_node", f"printed text executes like the tree: {label}", bad is None, bad or "", fn)
    ctx.analysed["paths"] += n_ev
    # C01.d: the operator printed for one assignment, per kind and per variable / register target
    for kind, at in sorted(ats.items()):
        for tgt, var in (("x", False), ("vz", True)):
            want_op = "=" if kind == "BLOCKING" else ("<=" if kind == "NON_BLOCKING" else ("=" if var else "<="))
            got = pyconst.call(fn, {"ns": NS(), "at": at, "level": 0, "node": A(tgt, "a"), "target_filter": None}, consts=consts, funcs=funcs)
            txt = got[1] if got[0] == "return" and isinstance(got[1], str) else ""
            ok = txt.split() == [tgt, want_op, "a;"]
            ctx.ob("C01.d", VER, "_generate_node", f"at={kind}, variable={var} -> '{want_op}'", ok,
                   "" if ok else f"a single assignment is printed {txt!r} for at={kind}, variable={var}; Verilog needs '{want_op}' (blocking vs non-blocking "
                                 f"changes read-after-write semantics)", fn)
    ctx.ob("C01.p", VER, "_generate_node", "trees:present", len(trees) >= 7 and n_ev >= 60, f"{n_ev} printer runs", fn)

    # ---------------------------------------------------------------- C01.f / C01.l: the block printers around _generate_node
    # (_generate_combinatorial_logic_synth / _sim, _generate_synchronous_logic) interpreted on model fragments; the text is split
    # into `assign` lines and always blocks, each body parsed as above, and executed: for every valuation the comb targets end up
    # with the value the statements give them *starting from their reset value* (what the simulator does), wires are printed only
    # for a single whole-signal assignment, and each clocked block carries the statements of its own domain.
    import collections as _collections

    def SG(tok):
        return Key(__cls__=("Signal",), tok=tok, reset=NS(__cls__=("Constant",), tok="R" + tok, value=0, nbits=8, signed=False), signed=False,
                   __len__=8, attr=set())

    def PART(sig, tok):
        return NS(__cls__=("_Slice",), value=sig, tok=tok, start=0, stop=4)

    def sig_of(l):
        return l["value"] if isinstance(l, NS) and "_Slice" in l.get("__cls__", ()) else l

    def sig_of_tok(tok):
        return {"y_lo": "y"}.get(tok, tok)

    def targets2(n):
        if isinstance(n, (list, tuple)):
            return set().union(*[targets2(x) for x in n]) if n else set()
        if n["kind"] == "A":
            return {sig_of(n["l"])}
        if n["kind"] == "I":
            return targets2(n["t"]) | targets2(n["f"])
        return set().union(*[targets2(v) for v in n["cases"].values()]) if n["cases"] else set()

    def flat(l):
        out = []
        for x in l:
            out.extend(flat(x) if isinstance(x, (list, tuple)) else [x])
        return out

    def group(stmts):
        groups = []
        for st in flat(stmts):
            ts = targets2(st)
            hit = [g for g in groups if g[0] & ts]
            merged = (set(ts), [])
            for g in hit:
                merged[0].update(g[0])
                merged[1].extend(g[1])
                groups.remove(g)
            merged[1].append(st)
            groups.append(merged)
        return groups
    c2 = dict(consts)
    c2["_generate_expression"] = Native(lambda ns_, e: ((e["tok"] if isinstance(e, NS) else str(e)), False))
    c2["list_targets"] = Native(targets2)
    c2["group_by_targets"] = Native(group)
    c2["flat_iteration"] = Native(flat)
    c2["is_variable"] = Native(lambda s_: False)
    c2["collections"] = NS(defaultdict=Native(lambda f=None: _collections.defaultdict(list)), abc=NS())
    ns2 = NS(get_name=Native(lambda s_: s_["tok"]))
    x, y, z, w = SG("x"), SG("y"), SG("z"), SG("w")

    def A2(l, r):
        return NS(__cls__=("_Assign",), l=l, r=r, kind="A")
    frags = {
        "one whole assignment": [A2(x, "a")],
        "one assignment to a part of a signal": [A2(PART(y, "y_lo"), "a")],
        "two assignments to one signal": [A2(x, "a"), A2(x, "b")],
        "if / else on two signals": [IF("c1", [A2(x, "a")], [A2(y, "b")])],
        "three independent groups": [A2(x, "a"), IF("c1", [A2(z, "b")], []), A2(w, "c")],
        "case with default": [CASE("sel", {k1: [A2(x, "a")], k0: [], "default": [A2(x, "d"), A2(y, "e")]})],
    }

    def units(text):
        out, lines, i = [], text.splitlines(), 0
        while i < len(lines):
            ln = lines[i]
            if ln.startswith("assign "):
                out.append(("assign", None, parse(ln[len("assign "):])))
            elif ln.startswith("always @("):
                head = ln
                body = []
                i += 1
                while i < len(lines) and lines[i] != "end":
                    body.append(lines[i])
                    i += 1
                if i >= len(lines):
                    raise ValueError("always block without end")
                out.append(("always", head, parse("\n".join(body))))
            elif ln.strip():
                raise ValueError(f"unexpected line {ln!r}")
            i += 1
        return out

    def run_model2(n, val, out):
        if isinstance(n, (list, tuple)):
            for x_ in n:
                run_model2(x_, val, out)
        elif n["kind"] == "A":
            out.append((n["l"]["tok"], n["r"]))
        elif n["kind"] == "I":
            run_model2(n["t"] if val[n["cond"]] else n["f"], val, out)
        else:
            arm = [v for k_, v in n["cases"].items() if k_ != "default" and k_["value"] == val[n["test"]]]
            run_model2(arm[0] if arm else n["cases"].get("default", []), val, out)
    for fname in ("_generate_combinatorial_logic_synth", "_generate_combinatorial_logic_sim"):
        pf = funcs.get(fname)
        ctx.need(pf is not None, f"verilog.py: {fname} vanished")
        bad_default = bad_wire = None
        for label, comb in frags.items():
            try:
                got = pyconst.call(pf, {"f": NS(comb=comb, sync={}, clock_domains={}), "ns": ns2}, consts=c2, funcs=funcs)
            except pyconst.Unknowable as ex:
                ctx.need(False, f"{fname} cannot be interpreted on a model fragment ({ex})")
            n_ev += 1
            txt = got[1] if got[0] == "return" and isinstance(got[1], str) else None
            try:
                us = units(txt) if txt is not None else None
            except ValueError as ex:
                us = None
                bad_default = bad_default or f"{label}: printed text does not parse ({ex})"
            if us is None:
                bad_default = bad_default or f"{label}: nothing printed"
                continue
            # wires: an `assign` only for a group that is one whole-signal assignment
            n_assign = sum(1 for u in us if u[0] == "assign")
            want_assign = sum(1 for g in group(comb) if len(g[1]) == 1 and g[1][0]["kind"] == "A" and g[1][0]["l"] is sig_of(g[1][0]["l"]))
            if n_assign != want_assign and bad_wire is None:
                bad_wire = f"{label}: {n_assign} continuous assignment(s) printed, {want_assign} group(s) consist of one whole-signal assignment: a signal " \
                           f"with other drivers / other bits becomes a wire (undriven bits, no reset default)"
            if any(u[0] == "assign" and (len(u[2]) != 1 or u[2][0][0] != "A" or u[2][0][2] != "=") for u in us) and bad_wire is None:
                bad_wire = f"{label}: a continuous assignment is not a single `target = source;`"
            for conds in itertools.product((0, 1), repeat=3):
                for selv in (0, 1, 9):
                    val = {"c1": conds[0], "c2": conds[1], "c3": conds[2], "sel": selv}
                    want = {t_["tok"]: "R" + t_["tok"] for t_ in targets2(comb)}
                    seq = []
                    run_model2(comb, val, seq)
                    for l_, r_ in seq:
                        want[sig_of_tok(l_)] = (want.get(sig_of_tok(l_)), l_, r_) if l_ != sig_of_tok(l_) else r_
                    have = {}
                    for kind_, head, body in us:
                        seq2 = []
                        run_text(body, val, seq2)
                        for l_, op_, r_ in seq2:
                            have[sig_of_tok(l_)] = (have.get(sig_of_tok(l_)), l_, r_) if l_ != sig_of_tok(l_) else r_
                    if want != have and bad_default is None:
                        bad_default = f"{label}, {val}: the fragment leaves {want} (comb targets start from their reset value), the printed text leaves {have}: " \
                                      f"latches / stale values in hardware"
        ctx.ob("C01.f", VER, fname, "reset default for each target precedes the statements (printed text executed from reset)", bad_default is None,
               bad_default or "", pf)
        ctx.ob("C01.f", VER, fname, "wire only for a single whole-signal assignment (printed text)", bad_wire is None, bad_wire or "", pf)
    # clocked blocks
    ps = funcs.get("_generate_synchronous_logic")
    ctx.need(ps is not None, "verilog.py: _generate_synchronous_logic vanished")
    q_, p_, vt = SG("q"), SG("p"), SG("vt")
    # (vt is a Migen `variable` signal: written and read back inside one clocked block, it needs the blocking '=')
    sync = {"sys": [A2(vt, "d"), A2(q_, "vt"), IF("c1", [A2(q_, "e")], [])], "por": [A2(p_, "g")]}
    c2["is_variable"] = Native(lambda s_: isinstance(s_, NS) and str(s_.get("tok", "")).startswith("v"))
    cds = {"sys": NS(clk=SG("sys_clk"), rst=None), "por": NS(clk=SG("por_clk"), rst=None)}
    c2["itemgetter"] = Native(lambda i_: None)
    bad_s = None
    try:
        got = pyconst.call(ps, {"f": NS(comb=[], sync=sync, clock_domains=cds), "ns": ns2}, consts=c2, funcs=funcs)
        n_ev += 1
        txt = got[1] if got[0] == "return" and isinstance(got[1], str) else ""
        us = units(txt)
        seen = {}
        for kind_, head, body in us:
            m_ = _re.fullmatch(r"always @\(posedge (\w+)\) begin", head or "")
            if kind_ != "always" or not m_:
                bad_s = bad_s or f"unexpected block {head!r}"
                continue
            seen[m_.group(1)] = body
        for dom, stmts in sync.items():
            body = seen.get(cds[dom]["clk"]["tok"])
            for c1v in (0, 1):
                val = {"c1": c1v, "c2": 0, "c3": 0, "sel": 0}
                want, have = [], []
                run_model2(stmts, val, want)
                if body is not None:
                    run_text(body, val, have)
                if (body is None or [(l_, "=" if l_.startswith("v") else "<=", r_) for l_, r_ in want] != have) and bad_s is None:
                    bad_s = f"domain {dom}: block clocked by {cds[dom]['clk']['tok']} executes {have if body is not None else 'nothing (no such block)'}, the domain's " \
                            f"statements are {want} (registers with '<=', the variable vt with '=')"
        if len(seen) != len(sync) and bad_s is None:
            bad_s = f"{len(seen)} clocked blocks for {len(sync)} domains"
    except pyconst.Unknowable as ex:
        ctx.need(False, f"_generate_synchronous_logic cannot be interpreted on a model fragment ({ex})")
    except ValueError as ex:
        bad_s = f"printed text does not parse ({ex})"
    ctx.ob("C01.l", VER, "_generate_synchronous_logic", "clock of domain k with statements of domain k (printed text)", bad_s is None, bad_s or "", ps)
    ctx.analysed["paths"] += n_ev


def _expression_printer(ctx, em):
    """_generate_expression and the printers it dispatches to (_generate_constant / operator / slice / cat / replicate) interpreted
    (lxs/pyconst.py) on model expression trees -- signals are opaque named leaves with a sign flag and a length -- and the returned
    (text, signed) compared, blanks aside, with what Verilog's rules require: a constant prints <sign><bits>'d<magnitude>; in a
    binary (non-shift) or ternary operator exactly the unsigned operand is zero-extended and made $signed when the other is signed,
    and the result is signed iff one operand is; unary minus makes its operand signed; shifts do not promote; a slice prints
    inclusive bounds (none for a 1-bit value); Cat prints its operands in reverse (MSB first), Replicate {n{v}}."""
    import itertools
    from .. import pyconst
    from ..pyconst import NS, Native
    funcs = {f.name: f for f in em.tree.body if isinstance(f, ast.FunctionDef)}
    classes = {c.name: c for c in em.tree.body if isinstance(c, ast.ClassDef)}
    ctx.need("_generate_expression" in funcs, "expression.py: _generate_expression vanished")
    consts = dict(pyconst.module_consts(em.tree))
    ot = {}
    for st in (classes["OperatorType"].body if "OperatorType" in classes else []):
        if isinstance(st, ast.Assign) and isinstance(st.targets[0], ast.Name) and isinstance(st.value, ast.Constant):
            ot[st.targets[0].id] = st.value.value
    if ot:
        consts["OperatorType"] = NS(**ot)
    ns = NS(get_name=Native(lambda s_: s_["tok"]))

    def S(tok, signed=False, n=8):
        return NS(__cls__=("Signal",), tok=tok, signed=signed, nbits=n, __len__=n, kind="S")

    def C(v, n=8, signed=False):
        return NS(__cls__=("Constant",), value=v, nbits=n, signed=signed, __len__=n, kind="K")

    def OP(op, *ops):
        return NS(__cls__=("_Operator",), op=op, operands=list(ops), kind="O")

    def SL(v, a, b):
        return NS(__cls__=("_Slice",), value=v, start=a, stop=b, kind="L")

    def CAT(*l):
        return NS(__cls__=("Cat",), l=list(l), kind="C")

    def REP(v, n):
        return NS(__cls__=("Replicate",), v=v, n=n, kind="R")

    def ref(e):
        """what Verilog needs: (text without blanks, signed)"""
        k = e["kind"]
        if k == "K":
            return f"{'-' if e['value'] < 0 else ''}{e['nbits']}'d{abs(e['value'])}", e["signed"]
        if k == "S":
            return e["tok"], e["signed"]
        sg = lambda t: "$signed({1'd0," + t + "})"
        if k == "O":
            rs = [ref(x) for x in e["operands"]]
            op = e["op"]
            if len(rs) == 1:
                (r1, s1), = rs
                if op == "-":
                    return "(-" + (r1 if s1 else sg(r1)) + ")", True
                return "(" + op + r1 + ")", s1
            if len(rs) == 2:
                (r1, s1), (r2, s2) = rs
                if op not in ("<<<", ">>>"):
                    if s2 and not s1:
                        r1 = sg(r1)
                    if s1 and not s2:
                        r2 = sg(r2)
                return "(" + r1 + op + r2 + ")", s1 or s2
            (r1, s1), (r2, s2), (r3, s3) = rs
            if s2 and not s3:
                r3 = sg(r3)
            if s3 and not s2:
                r2 = sg(r2)
            return "(" + r1 + "?" + r2 + ":" + r3 + ")", s2 or s3
        if k == "L":
            r, s_ = ref(e["value"])
            if e["value"].get("__len__") == 1:
                return r, s_
            return r + (f"[{e['stop'] - 1}:{e['start']}]" if e["stop"] - e["start"] > 1 else f"[{e['start']}]"), s_
        if k == "C":
            return "{" + ",".join(ref(x)[0] for x in reversed(e["l"])) + "}", False
        return "{" + str(e["n"]) + "{" + ref(e["v"])[0] + "}}", False

    def run(e):
        try:
            got = pyconst.call(funcs["_generate_expression"], {"ns": ns, "node": e}, consts=consts, funcs=funcs, classes=classes)
        except pyconst.Unknowable as ex:
            ctx.need(False, f"_generate_expression cannot be interpreted on a model expression tree ({ex})")
        ctx.analysed["paths"] += 1
        if got[0] != "return" or not isinstance(got[1], tuple) or len(got[1]) != 2 or not isinstance(got[1][0], str):
            return None
        return got[1][0].replace(" ", ""), bool(got[1][1])

    def decide(rid, role, trees):
        bad = None
        for e in trees:
            got, want = run(e), ref(e)
            if got != (want[0], bool(want[1])) and bad is None:
                bad = f"printed {got}, Verilog semantics of the tree needs {want}"
        ctx.ob(rid, EXP, "_generate_expression", role, bad is None, bad or "", funcs["_generate_expression"])
    a_, b_, c_ = (lambda s_: S("a", s_)), (lambda s_: S("b", s_)), S("c", False, 1)
    for sa, sb in itertools.product((False, True), repeat=2):
        decide("C01.e", f"binary signs {(sa, sb)}: exactly the unsigned operand is made signed, result signed iff one is",
               [OP(op, a_(sa), b_(sb)) for op in ("+", "-", "*", "&", "|", "^", "<", "<=", "==", "!=", ">", ">=")])
        decide("C01.e", f"mux data signs {(sa, sb)}: the selector is not promoted, the data operands are",
               [OP("m", c_, a_(sa), b_(sb)), OP("m", S("c", True, 1), a_(sa), b_(sb))])
    decide("C01.e", "shifts: no promotion of the shift amount", [OP(op, a_(sa), b_(sb)) for op in ("<<<", ">>>") for sa in (False, True) for sb in (False, True)])
    decide("C01.e", "unary minus: wrap iff unsigned, result signed", [OP("-", a_(False)), OP("-", a_(True))])
    decide("C01.e", "other unary operators keep the operand's sign", [OP("~", a_(False)), OP("~", a_(True))])
    decide("C01.e", "signal and constant sign flags are the node's own", [a_(False), a_(True), C(3, 4, False), C(-3, 4, True), C(3, 4, True)])
    decide("C01.e", "nested operators: promotion follows the sign of the sub-expression", [
        OP("+", OP("*", a_(True), b_(False)), S("d", False)), OP("+", OP("-", a_(False)), S("d", False)), OP("m", c_, OP("+", a_(False), b_(False)), S("d", True)),
        OP("==", SL(a_(True), 0, 4), C(-1, 4, True)), OP("+", CAT(a_(True), b_(True)), S("d", True)), OP("+", REP(a_(True), 2), S("d", True))])
    decide("C01.i", "format <sign><bits>'d<value>", [C(5, 8), C(0, 1), C(255, 8)])
    decide("C01.i", "magnitude = abs(node.value) in decimal", [C(-3, 4, True), C(-128, 8, True), C(10, 32)])
    decide("C01.i", "sign '-' iff value < 0", [C(-1, 2, True), C(0, 2, True), C(1, 2, True)])
    decide("C01.i", "width = node.nbits", [C(1, 1), C(1, 7), C(1, 64)])
    decide("C01.j", "slice bounds inclusive, single bit without range, 1-bit value unsliced (by value)",
           [SL(a_(False), 2, 5), SL(a_(False), 0, 8), SL(a_(True), 3, 4), SL(S("o", False, 1), 0, 1), SL(SL(a_(False), 2, 6), 1, 3)])
    decide("C01.k", "Cat reversed once, Replicate braces, both unsigned (by value)",
           [CAT(a_(False), b_(True), C(1, 1)), CAT(a_(True)), CAT(CAT(a_(False), b_(False)), S("d")), REP(a_(True), 3), REP(CAT(a_(False), b_(False)), 2)])


def _memory_port_setup(ctx, mg):
    """The statements of _memory_generate_verilog that rewrite port attributes before anything is printed, interpreted
    (lxs/pyconst.py) on memories of 1..3 ports with every combination of declared modes and same / different clocks: the
    simulator uses the declared mode, so the printed template may only be switched to another mode where the pinned design says so
    (ports on different clocks); a granularity of 0 stands for the full width, a declared one is kept."""
    import itertools
    from .. import pyconst
    from ..pyconst import NS, Interp, UNKNOWN

    def stores_port(st):
        return any(isinstance(x, ast.Attribute) and isinstance(x.ctx, ast.Store) and x.attr in ("mode", "we_granularity") for x in ast.walk(st))
    idx = max((i for i, st in enumerate(mg.body) if stores_port(st)), default=-1)
    prefix = mg.body[:idx + 1]
    bad_mode = bad_gran = None
    n_ev = 0
    for clocks in (["a"], ["a", "a"], ["a", "b"], ["a", "a", "b"], ["a", "b", "a"], ["b", "a", "a"], ["a", "b", "c"], ["a", "a", "a"]):
        for modes in itertools.product(("WRITE_FIRST", "READ_FIRST", "NO_CHANGE"), repeat=len(clocks)):
            grans = (0, 8, 0)[:len(clocks)]
            ports = [NS(clock=c, mode=m_, we_granularity=g, we=1, re=None, async_read=False, adr=0, dat_r=0, dat_w=0)
                     for c, m_, g in zip(clocks, modes, grans)]
            it = Interp({"memory": NS(ports=ports, width=32, depth=16, init=None), "name": "mem",
                         "READ_FIRST": "READ_FIRST", "WRITE_FIRST": "WRITE_FIRST", "NO_CHANGE": "NO_CHANGE"})
            try:
                it.run(prefix)
            except Exception as ex:     # interpreter limit
                ctx.need(False, f"_memory_generate_verilog: port set-up cannot be interpreted ({ex})")
            n_ev += 1
            after = [(p_.get("mode", UNKNOWN), p_.get("we_granularity", UNKNOWN)) for p_ in ports]
            if len(set(clocks)) == 1 and [a[0] for a in after] != list(modes) and bad_mode is None:
                bad_mode = f"{len(clocks)} port(s) on ONE clock declared {list(modes)} are printed as {[str(a[0]) for a in after]}: the emitted memory " \
                           f"answers a read/write collision differently from the simulated one"
            if any(a[1] is UNKNOWN or a[1] != (g or 32) for a, g in zip(after, grans)) and bad_gran is None:
                bad_gran = f"granularities {list(grans)} (width 32) become {[str(a[1]) for a in after]}"
    ctx.analysed["paths"] += n_ev
    ctx.ob("C01.h", MEM, "_memory_generate_verilog", "ports that share one clock are printed in their declared mode", bad_mode is None, bad_mode or "", mg)
    ctx.ob("C01.h", MEM, "_memory_generate_verilog", "write granularity: 0 stands for the full width, a declared one is kept", bad_gran is None,
           bad_gran or "", mg)


def _memory_init(ctx, mm):
    """C01.n: the initial contents handed to $readmemh are the init words themselves, in order, in hexadecimal, loaded into the
    declared memory under the name the logic uses (the simulator starts from memory.init verbatim).  Decided on the text: the
    printer is interpreted (lxs/pyconst.py) on model memories up to and including its initialisation block; the recorded data file
    is parsed back and compared with the init words."""
    from ..pyconst import NS, Native, Interp
    mg = mm.func("_memory_generate_verilog")
    idx = [k for k, st in enumerate(mg.body) if any(isinstance(n, ast.Constant) and isinstance(n.value, str) and "$readmemh" in n.value
                                                   for n in ast.walk(st))]
    ctx.need(len(idx) == 1, "_memory_generate_verilog: the statement that prints $readmemh was not found (exactly once) at the top level")
    blk = mg.body[idx[0]]
    bad = {"lines": None, "words": None, "hex": None, "load": None, "file": None}
    n_ev = 0
    for width, words in ((8, [0, 1, 0x7f, 0xff, 0x10]), (12, [0xabc, 1, 0, 0xfff]), (32, [0xdeadbeef, 0, 0x12345678]), (10, [0x3ff, 0x200, 5]),
                         (16, list(range(0, 0x10000, 0x1111)))):
        files = []

        def add_data_file(fn, content, files=files):
            files.append((fn, content))
            return fn
        port = NS(clock="sys_clk", mode="WRITE_FIRST", we_granularity=0, we=None, re=None, async_read=False,
                  adr=NS(nm="adr"), dat_r=NS(nm="dat_r"), dat_w=NS(nm="dat_w"))
        mem = NS(init=list(words), width=width, depth=32, ports=[port], name_override="mem", __cls__=("Memory",))
        env = {"name": "top", "memory": mem, "namespace": NS(get_name=Native(lambda m_: "the_mem")), "add_data_file": Native(add_data_file),
               "verilog_printexpr": Native(lambda ns, e: (e.get("nm") if isinstance(e, NS) else str(e), set())), "_tab": "    ",
               "READ_FIRST": "READ_FIRST", "WRITE_FIRST": "WRITE_FIRST", "NO_CHANGE": "NO_CHANGE"}
        it = Interp(env, exact=True, funcs={f.name: f for f in mm.tree.body if isinstance(f, ast.FunctionDef)})
        try:
            it.run(mg.body[:idx[0] + 1])
        except Exception as ex:         # interpreter limit
            ctx.need(False, f"_memory_generate_verilog: the initialisation block cannot be interpreted ({type(ex).__name__}: {ex})")
        n_ev += 1
        text = it.env.get("r")
        ctx.need(isinstance(text, str), "_memory_generate_verilog: printed text is not a constant string after the initialisation block")
        tag = f"width {width}, init {[hex(w) for w in words]}"
        if len(files) != 1:
            bad["file"] = bad["file"] or f"{tag}: {len(files)} data files recorded"
            continue
        fname, content = files[0]
        lines = content.split("\n")
        if lines and lines[-1] == "":
            lines = lines[:-1]
        if len(lines) != len(words):
            bad["lines"] = bad["lines"] or f"{tag}: the data file has {len(lines)} lines for {len(words)} words"
            continue
        try:
            got = [int(x, 16) for x in lines]
        except ValueError:
            bad["hex"] = bad["hex"] or f"{tag}: data file lines {lines[:3]} are not hexadecimal numbers"
            continue
        if got != list(words):
            k = next(i for i in range(len(words)) if got[i] != words[i])
            bad["words"] = bad["words"] or (f"{tag}: word {k} is written as {lines[k]!r} = {got[k]:#x}, memory.init[{k}] = {words[k]:#x}: the loaded "
                                            f"contents differ from what the simulator starts from")
        if f'$readmemh("{fname}",the_mem)' not in text.replace(" ", ""):
            bad["load"] = bad["load"] or f"{tag}: no `$readmemh(\"{fname}\", the_mem)` in the printed text"
    ctx.analysed["paths"] += n_ev
    ctx.ob("C01.n", MEM, "_memory_generate_verilog", "one line per init word, in order", bad["lines"] is None, bad["lines"] or "", blk)
    ctx.ob("C01.n", MEM, "_memory_generate_verilog", "each line prints the init word itself (at most masked to the memory width)", bad["words"] is None,
           bad["words"] or "", blk)
    ctx.ob("C01.n", MEM, "_memory_generate_verilog", "hexadecimal, one word per line", bad["hex"] is None, bad["hex"] or "", blk)
    ctx.ob("C01.n", MEM, "_memory_generate_verilog", "$readmemh(<data file>, <the declared memory>)", bad["load"] is None, bad["load"] or "", blk)
    ctx.ob("C01.n", MEM, "_memory_generate_verilog", "the data file holds the accumulated lines", bad["file"] is None, bad["file"] or "", blk)
