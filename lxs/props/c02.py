"""C02 -- Verilog identifiers are unique, legal and reproducible.

Decided (structural, necessary): C02.a the uniqueness gate -- on every path through
SignalNamespace.get_name that names a signal for the first time, the string returned (as a symbolic
string expression) was tested absent from a registry of handed-out names and is inserted into that
registry with a non-zero count on the same path; the plain/suffixed choice is made exactly on count == 0;
the result is memoised per signal.  C02.b every identifier printed by the backend passes that gate
(who-may-name).  C02.c the reserved-word table is well-formed and a superset of an embedded copy of the
IEEE 1364-2005 / 1800-2017 keyword lists.  C02.d the table is plumbed to the gate and seeds it non-zero.
C02.e iteration over run-order dependent collections is sorted; no id()/hash()/random/environ reaches
the text; time only in banner/trailer; the hierarchical namer's final tie-break sorts by duid.
Not decided: legality of user-chosen override strings; shape of hierarchical names."""
import ast
import re
from ..core import AnalysisError, norm, walk_no_nested, const_fold
from .. import pathx as P

NAMER = "litex/gen/fhdl/namer.py"
VER = "litex/gen/fhdl/verilog.py"
MEM = "litex/gen/fhdl/memory.py"
INS = "litex/gen/fhdl/instance.py"
EXP = "litex/gen/fhdl/expression.py"

EXPLANATION = ("Path enumeration of SignalNamespace.get_name with symbolic string forms (the returned string must have "
               "been tested absent from and be inserted into the registry on the same path); who-may-name rule over "
               "the four emission files; literal evaluation of the reserved-word table against an embedded copy of "
               "the IEEE keyword lists; parameter flow of the table to the gate; sorted-iteration and entropy-source rules.")
TECHNIQUE = ("path-wise symbolic string def-use (gate argument) + who-may-call + literal table evaluation + abstract interpr"
             "etation of the naming pass and of SignalNamespace on model designs (invariance under renumbering, request histories)")

V2005 = """always and assign automatic begin buf bufif0 bufif1 case casex casez cell cmos config deassign default defparam
design disable edge else end endcase endconfig endfunction endgenerate endmodule endprimitive endspecify endtable endtask
event for force forever fork function generate genvar highz0 highz1 if ifnone incdir include initial inout input instance
integer join large liblist library localparam macromodule medium module nand negedge nmos nor noshowcancelled not notif0
notif1 or output parameter pmos posedge primitive pull0 pull1 pulldown pullup pulsestyle_onevent pulsestyle_ondetect rcmos
real realtime reg release repeat rnmos rpmos rtran rtranif0 rtranif1 scalared showcancelled signed small specify specparam
strong0 strong1 supply0 supply1 table task time tran tranif0 tranif1 tri tri0 tri1 triand trior trireg unsigned use uwire
vectored wait wand weak0 weak1 while wire wor xnor xor""".split()

SV2017 = """accept_on alias always_comb always_ff always_latch assert assume before bind bins binsof bit break byte chandle
checker class clocking const constraint context continue cover covergroup coverpoint cross dist do endchecker endclass
endclocking endgroup endinterface endpackage endprogram endproperty endsequence enum eventually expect export extends extern
final first_match foreach forkjoin global iff ignore_bins illegal_bins implements implies import inside int interconnect
interface intersect join_any join_none let local logic longint matches modport nettype new nexttime null package packed
priority program property protected pure rand randc randcase randsequence ref reject_on restrict return s_always
s_eventually s_nexttime s_until s_until_with sequence shortint shortreal soft solve static string strong struct super
sync_accept_on sync_reject_on tagged this throughout timeprecision timeunit type typedef union unique unique0 until
until_with untyped var virtual void wait_order weak wildcard with within""".split()


# ---------------------------------------------------------------------------------------- string forms

def strform(e, env):
    """Normal form of a string expression: tuple of parts ('v', name) | ('s', literal); None if not understood."""
    if isinstance(e, ast.Constant) and isinstance(e.value, str):
        return (("s", e.value),) if e.value else ()
    if isinstance(e, ast.Name):
        if e.id in env:
            return env[e.id]
        # a name is a *value*: the k-th (re)definition on the path is a different value ("n", "n'", "n''", ...)
        return (("v", e.id + "'" * env.get("%ver", {}).get(e.id, 0)),)
    if isinstance(e, ast.JoinedStr):
        out = ()
        for v in e.values:
            if isinstance(v, ast.Constant):
                out += (("s", str(v.value)),) if v.value else ()
            elif isinstance(v, ast.FormattedValue) and v.format_spec is None and v.conversion == -1:
                f = strform(v.value, env)
                if f is None:
                    return None
                out += f
            else:
                return None
        return _merge(out)
    if isinstance(e, ast.BinOp) and isinstance(e.op, ast.Add):
        a, b = strform(e.left, env), strform(e.right, env)
        if a is None or b is None:
            return None
        return _merge(a + b)
    if isinstance(e, ast.Call) and isinstance(e.func, ast.Name) and e.func.id == "str" and len(e.args) == 1:
        return strform(e.args[0], env)
    if isinstance(e, ast.Call) and isinstance(e.func, ast.Attribute) and e.func.attr == "format" and \
            isinstance(e.func.value, ast.Constant) and isinstance(e.func.value.value, str) and not e.keywords:
        parts = re.split(r"(\{\})", e.func.value.value)
        out = ()
        k = 0
        for p in parts:
            if p == "{}":
                if k >= len(e.args):
                    return None
                f = strform(e.args[k], env)
                k += 1
                if f is None:
                    return None
                out += f
            elif p:
                out += (("s", p),)
        return _merge(out)
    return None


def _merge(parts):
    out = []
    for p in parts:
        if out and out[-1][0] == "s" and p[0] == "s":
            out[-1] = ("s", out[-1][1] + p[1])
        else:
            out.append(p)
    return tuple(out)


def _unver(form):
    return tuple((k, v.rstrip("'")) for k, v in form) if form is not None else None


def show(form):
    return "".join(p[1] if p[0] == "s" else "{" + p[1] + "}" for p in form) if form is not None else "?"


def _zero_test(test, var):
    """+1: test true <=> var != 0 (count positive => suffix); -1: test true <=> var == 0; 0: something else."""
    sign = 1
    t = test
    while isinstance(t, ast.UnaryOp) and isinstance(t.op, ast.Not):
        t, sign = t.operand, -sign
    if isinstance(t, ast.Name) and t.id == var:
        return sign
    if isinstance(t, ast.Compare) and len(t.ops) == 1 and norm(t.comparators[0]) == var and isinstance(t.left, ast.Constant):
        # constant on the left (canonical orientation of `n > 0` is `0 < n`): mirror it
        flip = {ast.Lt: ast.Gt, ast.LtE: ast.GtE, ast.Gt: ast.Lt, ast.GtE: ast.LtE, ast.Eq: ast.Eq, ast.NotEq: ast.NotEq}
        t = ast.Compare(left=t.comparators[0], ops=[flip[type(t.ops[0])]()], comparators=[t.left]) if type(t.ops[0]) in flip else t
    if isinstance(t, ast.Compare) and len(t.ops) == 1 and norm(t.left) == var and isinstance(t.comparators[0], ast.Constant):
        c, op = t.comparators[0].value, t.ops[0]
        if (c == 0 and isinstance(op, (ast.Gt, ast.NotEq))) or (c == 1 and isinstance(op, ast.GtE)):
            return sign
        if (c == 0 and isinstance(op, (ast.Eq, ast.LtE))) or (c == 1 and isinstance(op, ast.Lt)):
            return -sign
    return 0


_MUTATORS = {"add", "update", "append", "extend", "insert", "pop", "remove", "clear", "discard", "setdefault", "popitem", "sort", "reverse",
             "difference_update", "intersection_update", "symmetric_difference_update"}


def _mutable_object(d):
    if isinstance(d, (ast.List, ast.Dict, ast.Set, ast.ListComp, ast.DictComp, ast.SetComp)):
        return True
    return isinstance(d, ast.Call) and isinstance(d.func, ast.Name) and d.func.id in ("set", "dict", "list", "OrderedDict", "defaultdict", "bytearray")


def _mutated_in_place(n):
    """the expressions statement/call `n` updates in place (not rebinds)"""
    if isinstance(n, ast.AugAssign) and isinstance(n.target, (ast.Name, ast.Attribute)):
        return [n.target]
    if isinstance(n, ast.AugAssign) and isinstance(n.target, ast.Subscript):
        return [n.target.value]
    if isinstance(n, ast.Call) and isinstance(n.func, ast.Attribute) and n.func.attr in _MUTATORS:
        return [n.func.value]
    if isinstance(n, (ast.Assign, ast.Delete)):
        return [t.value for t in n.targets if isinstance(t, ast.Subscript)]
    return []


def run(ctx):
    ctx.rule("C02.a", "gate never repeats: for a signal named for the first time the returned string was tested absent from "
                      "the registry, is inserted with a non-zero count on the same path; plain iff count == 0; memoised per "
                      "signal", min_sites=8)
    ctx.rule("C02.b", "everything passes the gate: name_override/backtrace are read only in convert()'s IO-naming block; memory "
                      "and instance identifiers are printed through get_name/_get_name/_generate_expression", min_sites=8)
    ctx.rule("C02.c", "reserved-word table: every entry matches ^[a-z_][a-z0-9_$]*$ and the set contains the embedded IEEE "
                      "1364-2005 and 1800-2017 keyword lists", min_sites=3)
    ctx.rule("C02.d", "keywords reach the gate: convert -> build_signal_namespace(reserved_keywords=table) -> "
                      "SignalNamespace(reserved_keywords) -> registry seeded with a non-zero count per keyword", min_sites=4)
    ctx.rule("C02.e", "reproducibility: iteration over run-order dependent collections in the emission path is sorted; no "
                      "id()/hash()/random/os.environ; time/datetime only in banner/trailer; final tie-break sorts by duid",
             min_sites=8)

    # =============================================================== C02.a
    nm = ctx.mod(NAMER)
    fn = nm.method("SignalNamespace", "get_name")
    paths = P.feasible_paths(fn)
    ctx.analysed["paths"] += len(paths)
    ctx.analysed["functions"].add(f"{NAMER}::SignalNamespace.get_name")
    # memo registry / count registry discovery:  n = self.<M>.get(sig) ; `if n is None:` fresh branch
    memo = None
    cnt_var = None
    for st in walk_no_nested(fn):
        if isinstance(st, ast.Assign) and isinstance(st.value, ast.Call) and isinstance(st.value.func, ast.Attribute) and \
                st.value.func.attr == "get" and len(st.value.args) == 1 and norm(st.value.args[0]) == "sig" and \
                norm(st.value.func.value).startswith("self."):
            cand = norm(st.value.func.value)
            # the memo is the registry that is also *written* with key `sig` in this function
            if any(isinstance(w, ast.Assign) and isinstance(w.targets[0], ast.Subscript) and
                   norm(w.targets[0].value) == cand and norm(w.targets[0].slice) == "sig" for w in walk_no_nested(fn)):
                memo = cand
                cnt_var = norm(st.targets[0])
    ctx.ob("C02.a", NAMER, "SignalNamespace.get_name", "memo lookup:present", memo is not None,
           "no `n = self.<memo>.get(sig)` found: the same signal may be named twice", fn)
    if memo is None:
        return
    fresh = []
    for p in paths:
        if p.end != "return" or p.end_node.value is None or norm(p.end_node.value) == "None":
            continue
        i = p.index_where(lambda e: e[0] == "test" and norm(e[1]) in (f"{cnt_var} is None", f"{cnt_var} is not None"))
        if i < 0:
            continue
        t, pol = norm(p.ev[i][1]), p.ev[i][2]
        isnone = pol if t.endswith("is None") else (not pol)
        if isnone:
            # counts are never negative: `n > 0`, `n != 0`, `n >= 1`, `n` are the same test; drop paths on which two
            # such tests disagree with no assignment to the count variable in between
            last = None
            consistent = True
            for e in p.ev[i:]:
                if e[0] == "stmt" and isinstance(e[1], (ast.Assign, ast.AugAssign)):
                    tg = e[1].targets if isinstance(e[1], ast.Assign) else [e[1].target]
                    if any(norm(x) == cnt_var for x in tg):
                        last = None
                elif e[0] == "test":
                    cj = e[1].values if isinstance(e[1], ast.BoolOp) and isinstance(e[1].op, ast.And) and e[2] else [e[1]]
                    for c in cj:
                        z = _zero_test(c, cnt_var)
                        if z != 0:
                            pos = (z > 0) == e[2]
                            if last is not None and last != pos:
                                consistent = False
                            last = pos
            if consistent:
                fresh.append((p, i))
    ctx.ob("C02.a", NAMER, "SignalNamespace.get_name", "fresh-signal paths:present", len(fresh) >= 2,
           f"expected plain and suffixed fresh paths, found {len(fresh)}", fn)
    n_plain = n_suff = 0
    shapes_fresh = set()
    for p, i0 in fresh:
        ver = {}
        env = {"%ver": ver}
        inserted = []       # (registry, form, value node)
        tested_absent = []  # (registry, form, how)
        zero_sel = None
        memo_store = False
        memo_val = None
        for j, e in enumerate(p.ev):
            if e[0] == "stmt":
                st = e[1]
                if isinstance(st, ast.Assign) and len(st.targets) == 1:
                    t = st.targets[0]
                    if isinstance(t, ast.Name):
                        v = st.value
                        vform = strform(v, env)
                        ver[t.id] = ver.get(t.id, 0) + 1
                        # n = self.U.get(K, 0)
                        if isinstance(v, ast.Call) and isinstance(v.func, ast.Attribute) and v.func.attr == "get" and \
                                len(v.args) == 2 and norm(v.args[1]) == "0" and norm(v.func.value).startswith("self."):
                            f = strform(v.args[0], env)
                            if f is not None and j > i0:
                                tested_absent.append((norm(v.func.value), f, ("count-var", t.id)))
                            env.pop(t.id, None)
                        else:
                            f = vform
                            if f is not None and not (isinstance(v, ast.Name) and v.id not in env and False):
                                # only track string-typed locals: those built from literals/f-strings/known strings
                                if isinstance(v, (ast.JoinedStr, ast.BinOp)) or (isinstance(v, ast.Name) and v.id in env) or \
                                        (isinstance(v, ast.Constant) and isinstance(v.value, str)):
                                    env[t.id] = f
                                else:
                                    env.pop(t.id, None)
                            else:
                                env.pop(t.id, None)
                    elif isinstance(t, ast.Subscript) and norm(t.value).startswith("self."):
                        reg = norm(t.value)
                        if norm(t.slice) == "sig":
                            if reg == memo:
                                memo_store = True
                                memo_val = strform(st.value, env) if isinstance(st.value, ast.Name) else None
                        else:
                            f = strform(t.slice, env)
                            if f is not None:
                                inserted.append((reg, f, st.value))
                elif isinstance(st, ast.AugAssign) and isinstance(st.target, ast.Name) and isinstance(st.op, ast.Add):
                    cur = strform(st.target, env)
                    add = strform(st.value, env)
                    ver[st.target.id] = ver.get(st.target.id, 0) + 1
                    if add is not None and isinstance(st.value, (ast.JoinedStr, ast.Constant, ast.BinOp)) and \
                            not (isinstance(st.value, ast.Constant) and not isinstance(st.value.value, str)):
                        env[st.target.id] = _merge(cur + add)
                    else:
                        env.pop(st.target.id, None)
                elif isinstance(st, ast.Expr) and isinstance(st.value, ast.Call) and isinstance(st.value.func, ast.Attribute) \
                        and st.value.func.attr == "add" and norm(st.value.func.value).startswith("self.") and st.value.args:
                    f = strform(st.value.args[0], env)
                    if f is not None:
                        inserted.append((norm(st.value.func.value), f, ast.Constant(value=1)))
            elif e[0] == "test" and j > i0:
                t, pol = e[1], e[2]
                # membership conjunct tested false
                conj = t.values if isinstance(t, ast.BoolOp) and isinstance(t.op, ast.And) else [t]
                for c in conj:
                    cc, cp = c, pol
                    while isinstance(cc, ast.UnaryOp) and isinstance(cc.op, ast.Not):
                        cc, cp = cc.operand, not cp
                    if isinstance(cc, ast.Compare) and len(cc.ops) == 1 and isinstance(cc.ops[0], (ast.In, ast.NotIn)) and \
                            norm(cc.comparators[0]).startswith("self."):
                        present = cp if isinstance(cc.ops[0], ast.In) else (not cp)
                        f = strform(cc.left, env)
                        if f is not None and not present:
                            others = [o for o in conj if o is not c]
                            tested_absent.append((norm(cc.comparators[0]), f, ("membership", others, len(conj) > 1 and not pol)))
                z = _zero_test(t, cnt_var)
                if z != 0:
                    zero_sel = (z > 0) == pol      # True: count positive on this path
        ret = strform(p.end_node.value, env)
        role = None
        if ret is None:
            ctx.ob("C02.a", NAMER, "SignalNamespace.get_name", "returned string understood", False,
                   f"cannot derive the string form of `{norm(p.end_node.value)}`", p.end_node)
            continue
        suffixed = len(ret) > 1
        role = "suffixed" if suffixed else "plain"
        if suffixed:
            n_suff += 1
        else:
            n_plain += 1
        # decision: plain iff count == 0
        ok = zero_sel is not None and zero_sel == suffixed
        ctx.ob("C02.a", NAMER, "SignalNamespace.get_name", f"{role}: chosen exactly on count {'> 0' if suffixed else '== 0'}", ok,
               "" if ok else f"the {role} form `{show(ret)}` is returned on a path where the count test says "
                             f"{'positive' if zero_sel else ('zero' if zero_sel is not None else 'nothing')}: a reused base name can be "
                             f"handed out unsuffixed (or the test is not count == 0)", p.end_node)
        # inserted
        ins = [x for x in inserted if x[1] == ret]
        ok = bool(ins)
        nonzero = False
        for reg, f, v in ins:
            if isinstance(v, ast.Constant) and isinstance(v.value, (int, bool)) and v.value:
                nonzero = True
            if isinstance(v, ast.BinOp) and isinstance(v.op, ast.Add) and \
                    ((isinstance(v.right, ast.Constant) and v.right.value >= 1) or (isinstance(v.left, ast.Constant) and v.left.value >= 1)):
                nonzero = True
        ctx.ob("C02.a", NAMER, "SignalNamespace.get_name", f"{role}: returned string inserted into the registry (non-zero)",
               ok and nonzero,
               "" if (ok and nonzero) else f"`{show(ret)}` is returned but "
               + ("never inserted into a registry of self on this path" if not ok else "registered with a count that can be zero")
               + f" (inserted: {[show(x[1]) for x in inserted]}): the same string can be handed out again", p.end_node)
        # tested absent (in a registry the string is also inserted into)
        regs = {x[0] for x in ins}
        ok = False
        for reg, f, how in tested_absent:
            if f != ret or (regs and reg not in regs):
                continue
            if how[0] == "count-var":
                # absent because the count read for this very string is zero
                ok = ok or (how[1] == cnt_var and zero_sel is False)
            else:
                others, was_false_conj = how[1], how[2]
                if not was_false_conj:
                    ok = True
                else:
                    # `a and (X in U)` is false: X absent only if every other conjunct holds on this path
                    hold = True
                    for o in others:
                        z = _zero_test(o, cnt_var)
                        if not (z != 0 and ((z > 0) == bool(zero_sel))):
                            hold = False
                    ok = ok or hold
        ctx.ob("C02.a", NAMER, "SignalNamespace.get_name", f"{role}: returned string tested absent from the registry", ok,
               "" if ok else f"`{show(ret)}` is returned without having been tested against the registry of handed-out names "
                             f"(tested: {[show(x[1]) for x in tested_absent]}): a user-provided name of that form collides", p.end_node)
        ctx.ob("C02.a", NAMER, "SignalNamespace.get_name", f"{role}: memoised per signal", memo_store,
               "" if memo_store else f"{memo}[sig] is not recorded on the fresh path", p.end_node)
        # the memoised number is the one the returned name was built from (later requests rebuild the name from it)
        final = (("v", cnt_var + "'" * ver.get(cnt_var, 0)),)
        ok = memo_store and memo_val == final and (not suffixed or final[0] in ret)
        ctx.ob("C02.a", NAMER, "SignalNamespace.get_name", f"{role}: memoised number = the number in the returned name", ok,
               "" if ok else f"{memo}[sig] records `{show(memo_val)}` but the name is built from `{show(final)}` (returned `{show(ret)}`): "
                             f"a second request for the same signal returns a different -- possibly somebody else's -- name", p.end_node)
        shapes_fresh.add((zero_sel, _unver(ret)))
    ctx.ob("C02.a", NAMER, "SignalNamespace.get_name", "both forms reachable", n_plain > 0 and n_suff > 0,
           f"plain paths {n_plain}, suffixed paths {n_suff}", fn)
    # memo-hit paths: the name is rebuilt from the memoised number by the same rule as on the fresh paths, nothing is registered
    nhit = 0
    for p in paths:
        if p.end != "return" or p.end_node.value is None or norm(p.end_node.value) == "None":
            continue
        i = p.index_where(lambda e: e[0] == "test" and norm(e[1]) in (f"{cnt_var} is None", f"{cnt_var} is not None"))
        if i < 0:
            continue
        t, pol = norm(p.ev[i][1]), p.ev[i][2]
        if pol if t.endswith("is None") else (not pol):
            continue
        ver = {}
        env = {"%ver": ver}
        zero_sel = None
        writes = []
        understood = True
        for j, e in enumerate(p.ev):
            if e[0] == "stmt":
                st = e[1]
                if isinstance(st, ast.Assign) and len(st.targets) == 1 and isinstance(st.targets[0], ast.Name):
                    v, tid = st.value, st.targets[0].id
                    f = strform(v, env)
                    ver[tid] = ver.get(tid, 0) + 1
                    if f is not None and (isinstance(v, (ast.JoinedStr, ast.BinOp)) or (isinstance(v, ast.Name) and v.id in env) or
                                          (isinstance(v, ast.Constant) and isinstance(v.value, str))):
                        env[tid] = f
                    else:
                        env.pop(tid, None)
                elif isinstance(st, ast.AugAssign) and isinstance(st.target, ast.Name):
                    cur, add = strform(st.target, env), strform(st.value, env)
                    ver[st.target.id] = ver.get(st.target.id, 0) + 1
                    if add is not None and isinstance(st.op, ast.Add) and isinstance(st.value, (ast.JoinedStr, ast.BinOp)):
                        env[st.target.id] = _merge(cur + add)
                    else:
                        env.pop(st.target.id, None)
                        if j > i and st.target.id == cnt_var:
                            understood = False
                elif j > i and isinstance(st, ast.Assign) and isinstance(st.targets[0], ast.Subscript) and norm(st.targets[0].value).startswith("self."):
                    writes.append(norm(st))
            elif e[0] == "test" and j > i:
                z = _zero_test(e[1], cnt_var)
                if z != 0:
                    zero_sel = (z > 0) == e[2]
        ret = strform(p.end_node.value, env)
        if ret is None:
            continue
        nhit += 1
        ok = understood and (zero_sel, _unver(ret)) in shapes_fresh and not writes
        ctx.ob("C02.a", NAMER, "SignalNamespace.get_name", f"memo hit ({'suffixed' if len(ret) > 1 else 'plain'}): same name as first handed out", ok,
               "" if ok else f"on a repeated request `{show(ret)}` is returned on count {'> 0' if zero_sel else '== 0'} "
                             f"(fresh paths: {sorted((str(z), show(r)) for z, r in shapes_fresh)}; registry writes {writes}): the name of a "
                             f"signal changes between two requests", p.end_node)
    ctx.ob("C02.a", NAMER, "SignalNamespace.get_name", "memo-hit paths:present", nhit >= 2, f"{nhit} memo-hit paths", fn)

    # =============================================================== C02.b
    for rel in (VER, MEM, INS, EXP):
        m = ctx.mod(rel)
        for fname, f in list(m.functions.items()):
            for n in ast.walk(f):
                if isinstance(n, ast.Attribute) and n.attr in ("name_override", "backtrace"):
                    ok = (rel == VER and fname == "convert")
                    ctx.ob("C02.b", rel, fname, f".{n.attr} access", ok,
                           "" if ok else f"`{norm(n)}` is read in {fname}: an identifier can reach the text without passing "
                                         f"SignalNamespace.get_name", n)
    vm = ctx.mod(VER)
    conv = vm.func("convert")
    acc = [n for n in ast.walk(conv) if isinstance(n, ast.Attribute) and n.attr in ("name_override", "backtrace")]
    ctx.ob("C02.b", VER, "convert", "IO naming block:present", len(acc) >= 2, "convert no longer names IOs from their back-trace", conv)
    # the IO naming happens before the namespace is built
    io_line = min((n.lineno for n in acc), default=0)
    ns_calls = [n for n in ast.walk(conv) if isinstance(n, ast.Call) and norm(n.func) == "build_signal_namespace"]
    ok = len(ns_calls) == 1 and io_line and max(n.lineno for n in acc) < ns_calls[0].lineno
    ctx.ob("C02.b", VER, "convert", "IO overrides set before the namespace is built", ok,
           "" if ok else "name overrides are written after build_signal_namespace", conv)
    # the namespace covers every signal that can be printed
    if ns_calls:
        sa = [k.value for k in ns_calls[0].keywords if k.arg == "signals"] or ns_calls[0].args[:1]
        # the argument, with local names replaced by what they were last assigned before the call (any number of intermediate names)
        defs = {}
        for n in ast.walk(conv):
            if isinstance(n, ast.Assign) and len(n.targets) == 1 and isinstance(n.targets[0], ast.Name) and n.lineno < ns_calls[0].lineno:
                defs.setdefault(n.targets[0].id, []).append(n)

        def expand(e, depth=0):
            import copy
            e = copy.deepcopy(e)
            if depth > 4:
                return e

            class T(ast.NodeTransformer):
                def visit_Name(self, x):
                    cands = [d for d in defs.get(x.id, []) if not any(isinstance(y, ast.Name) and y.id == x.id for y in ast.walk(d.value))]
                    if isinstance(x.ctx, ast.Load) and cands and x.id not in ("f", "ios"):
                        return expand(max(cands, key=lambda d: d.lineno).value, depth + 1)
                    return x
            return T().visit(e)
        txt = norm(expand(sa[0])) if sa else ""
        ok = "list_signals(f)" in txt and "list_special_ios(f, ins=True, outs=True, inouts=True)" in txt and "ios" in txt
        ctx.ob("C02.b", VER, "convert", "namespace built over signals | special ios | ios", ok, "" if ok else f"signals = {txt}", ns_calls[0])
    mm = ctx.mod(MEM)
    mg = mm.func("_memory_generate_verilog")
    gn = [n for n in mg.body if isinstance(n, ast.FunctionDef) and n.name == "_get_name"]
    ok = False
    if gn:
        rets = [norm(n.value) for n in ast.walk(gn[0]) if isinstance(n, ast.Return) and n.value is not None]
        ok = len(rets) == 2 and "namespace.get_name(e)" in rets and any(r.startswith("verilog_printexpr(namespace, e)") for r in rets)
    ctx.ob("C02.b", MEM, "_memory_generate_verilog", "_get_name goes through the namespace", ok,
           "" if ok else "_get_name does not return namespace.get_name(e) / verilog_printexpr(namespace, e)", mg)
    OBJ = {"memory", "port", "adr_regs", "data_regs"}
    NUMERIC = {"width", "depth", "we_granularity"}
    bad = None
    nfv = 0
    for n in ast.walk(mg):
        if isinstance(n, ast.FormattedValue):
            nfv += 1
            v = n.value
            for x in ast.walk(v):
                if isinstance(x, ast.Call) and norm(x.func) == "_get_name":
                    break
            else:
                # no _get_name call inside: must not print an object
                names = {y.id for y in ast.walk(v) if isinstance(y, ast.Name)}
                if names & OBJ:
                    attrs = {y.attr for y in ast.walk(v) if isinstance(y, ast.Attribute)}
                    if not attrs or not attrs <= NUMERIC:
                        bad = n
    ctx.ob("C02.b", MEM, "_memory_generate_verilog", "every printed memory/port identifier passes _get_name", bad is None and nfv > 10,
           "" if bad is None else f"`{{{norm(bad.value)}}}` prints an object without _get_name", bad or mg)
    em = ctx.mod(EXP)
    gs = em.func("_generate_signal")
    # the only naming expression in the function is ns.get_name(s): no other use of `s` yields text
    uses = [norm(n) for n in ast.walk(gs) if isinstance(n, ast.Call) and norm(n.func) == "ns.get_name"]
    other = [norm(n) for n in ast.walk(gs) if isinstance(n, ast.Attribute) and isinstance(n.value, ast.Name) and
             n.value.id == "s" and n.attr not in ("signed", "nbits")]
    ok = uses == ["ns.get_name(s)"] and not other
    ctx.ob("C02.b", EXP, "_generate_signal", "declaration name from ns.get_name", ok, "" if ok else "signal declarations are not named by the namespace", gs)
    ge = em.func("_generate_expression")
    ok = any(isinstance(n, ast.Return) and n.value is not None and norm(n.value).startswith("(ns.get_name(node)") for n in ast.walk(ge))
    ctx.ob("C02.b", EXP, "_generate_expression", "Signal arm returns ns.get_name(node)", ok, "" if ok else "signal references are not named by the namespace", ge)
    im = ctx.mod(INS)
    ig = im.func("_instance_generate_verilog")
    txt = [norm(n) for n in ast.walk(ig) if isinstance(n, ast.Call) and norm(n.func) == "ns.get_name"]
    ok = len(txt) >= 2 and all(t == "ns.get_name(instance)" for t in txt)
    ctx.ob("C02.b", INS, "_instance_generate_verilog", "instance identifier from ns.get_name", ok, "" if ok else f"{txt}", ig)

    # =============================================================== C02.c
    tab = vm.const("_ieee_1800_2017_verilog_reserved_keywords")
    try:
        kws = const_fold(tab)
    except ValueError as e:
        raise AnalysisError(f"{VER}: reserved keyword table is not a literal set: {e}")
    ctx.need(isinstance(kws, (set, frozenset, list, tuple)) and len(kws) > 100, "reserved keyword table too small / wrong type")
    kws = set(kws)
    badform = sorted(k for k in kws if not (isinstance(k, str) and re.match(r"^[a-z_][a-z0-9_$]*$", k)))
    ctx.ob("C02.c", VER, "_ieee_1800_2017_verilog_reserved_keywords", "every entry is a well-formed word", not badform,
           "" if not badform else f"malformed entries {badform!r}: these words are not reserved (a signal with that name is emitted verbatim)", tab)
    miss = sorted(set(V2005) - kws)
    ctx.ob("C02.c", VER, "_ieee_1800_2017_verilog_reserved_keywords", f"contains IEEE 1364-2005 Annex B ({len(V2005)} words)", not miss,
           "" if not miss else f"missing Verilog-2005 keywords {miss}", tab)
    miss = sorted(set(SV2017) - kws)
    ctx.ob("C02.c", VER, "_ieee_1800_2017_verilog_reserved_keywords", f"contains IEEE 1800-2017 additions ({len(SV2017)} words)", not miss,
           "" if not miss else f"missing SystemVerilog keywords {miss}", tab)
    extra = sorted(kws - set(V2005) - set(SV2017))
    if extra:
        ctx.note(f"C02.c: table entries outside the embedded IEEE lists (harmless, only reserve more): {extra}")

    # =============================================================== C02.d
    ok = False
    if ns_calls:
        kw = {k.arg: norm(k.value) for k in ns_calls[0].keywords}
        ok = kw.get("reserved_keywords") == "_ieee_1800_2017_verilog_reserved_keywords"
    ctx.ob("C02.d", VER, "convert", "table passed as reserved_keywords", ok, "" if ok else "convert does not pass the keyword table", conv)
    bsn = nm.func("build_signal_namespace")
    calls = [n for n in ast.walk(bsn) if isinstance(n, ast.Call) and norm(n.func) == "SignalNamespace"]
    ok = len(calls) == 1 and (any(k.arg == "reserved_keywords" and norm(k.value) == "reserved_keywords" for k in calls[0].keywords) or
                              (len(calls[0].args) >= 2 and norm(calls[0].args[1]) == "reserved_keywords"))
    ctx.ob("C02.d", NAMER, "build_signal_namespace", "forwards reserved_keywords", ok, "" if ok else "reserved_keywords not forwarded", bsn)
    rets = [n for n in ast.walk(bsn) if isinstance(n, ast.Return)]
    init = nm.method("SignalNamespace", "__init__")
    # registry that get_name tests: seeded from reserved_keywords with non-zero
    regs_used = set()
    for n in ast.walk(fn):
        if isinstance(n, ast.Attribute) and isinstance(n.value, ast.Name) and n.value.id == "self":
            regs_used.add("self." + n.attr)
    seeded = None
    for st in ast.walk(init):
        if isinstance(st, ast.Assign) and isinstance(st.value, (ast.DictComp, ast.SetComp)) and \
                norm(st.value.generators[0].iter) == "reserved_keywords":
            val = st.value.value if isinstance(st.value, ast.DictComp) else ast.Constant(value=1)
            seeded = (norm(st.targets[0]), val)
        if isinstance(st, ast.Assign) and isinstance(st.value, ast.Call) and norm(st.value.func) in ("set", "dict.fromkeys") and \
                st.value.args and norm(st.value.args[0]) == "reserved_keywords":
            val = st.value.args[1] if len(st.value.args) > 1 else ast.Constant(value=1)
            seeded = (norm(st.targets[0]), val)
    if seeded is None:
        # the constructor written another way (a loop, update(), ...): interpreted on two keywords, the registry is the attribute
        # that then holds both with a non-zero count
        from .. import pyconst as _pcd
        me_ = _pcd.NS()
        try:
            it_ = _pcd.Interp({"self": me_, "name_dict": {}, "reserved_keywords": {"module", "wire"}}, exact=True)
            it_.run(init.body)
            for k_, v_ in me_.items():
                if isinstance(v_, dict) and not isinstance(v_, _pcd.NS) and set(v_) == {"module", "wire"} and all(isinstance(x, int) and x for x in v_.values()):
                    seeded = ("self." + k_, ast.Constant(value=1))
                elif isinstance(v_, (set, frozenset)) and set(v_) == {"module", "wire"}:
                    seeded = ("self." + k_, ast.Constant(value=1))
        except Exception:       # noqa: not interpretable -> the shape reading above stands
            pass
    ok = seeded is not None and seeded[0] in regs_used and isinstance(seeded[1], ast.Constant) and bool(seeded[1].value)
    ctx.ob("C02.d", NAMER, "SignalNamespace.__init__", "registry seeded non-zero from reserved_keywords", ok,
           "" if ok else f"seed = {(seeded[0], norm(seeded[1])) if seeded else None}: a keyword used as a signal name would be emitted verbatim", init)
    # the seeded registry is the one consulted for the plain form
    ok = seeded is not None and any(isinstance(n, ast.Call) and isinstance(n.func, ast.Attribute) and n.func.attr == "get" and
                                    norm(n.func.value) == seeded[0] for n in ast.walk(fn))
    ctx.ob("C02.d", NAMER, "SignalNamespace.get_name", "plain names are counted in the seeded registry", ok,
           "" if ok else "get_name does not read the registry that holds the keywords", fn)

    # =============================================================== C02.e
    ga = vm.func("_generate_attribute")
    # ... and the order it prints does not depend on the order the set hands its elements out (hash randomisation of str): the
    # function interpreted on every permutation of an attribute set with two translated names and one platform tuple
    import itertools
    from .. import pyconst as _pc
    elems = ["async_reg", "mr_ff", ("keep", "true"), "no_retiming"]
    tr = {"async_reg": ("async_reg", "true"), "mr_ff": ("mr_ff", "true"), "no_retiming": ("syn_no_retiming", "true")}
    texts, err = set(), None
    for perm in itertools.permutations(elems):
        try:
            kind, val = _pc.call(ga, {"attr": list(perm), "attr_translate": dict(tr)},
                                 funcs={f_.name: f_ for f_ in vm.tree.body if isinstance(f_, ast.FunctionDef)})
        except Exception as ex:     # noqa
            err = f"{type(ex).__name__}: {ex}"
            break
        texts.add(val if kind == "return" else f"<{kind}>")
    ctx.need(err is None, f"_generate_attribute cannot be interpreted ({err})")
    ok = len(texts) == 1
    ctx.ob("C02.e", VER, "_generate_attribute", "printed attribute list independent of the set's iteration order (24 permutations)", ok,
           "" if ok else f"{len(texts)} different texts for one attribute set, e.g. {sorted(texts)[:2]}: the netlist differs between runs "
                         f"(PYTHONHASHSEED)", ga)
    gsp = vm.func("_generate_specials")
    fors = [n for n in ast.walk(gsp) if isinstance(n, ast.For)]
    ok = len(fors) == 1 and isinstance(fors[0].iter, ast.Call) and norm(fors[0].iter.func) == "sorted" and \
        norm(fors[0].iter.args[0]) == "specials" and "duid" in norm(fors[0].iter)
    ctx.ob("C02.e", VER, "_generate_specials", "iterates sorted(specials, key=duid)", ok,
           "" if ok else f"specials iterated as `{norm(fors[0].iter) if fors else '?'}`: Special has identity hash, order is run-dependent", gsp)
    for fname in ("_generate_module", "_generate_signals"):
        f = vm.func(fname)
        fors = [n for n in ast.walk(f) if isinstance(n, ast.For) and ("ios" in norm(n.iter) or "sigs" in norm(n.iter))]
        ok = bool(fors) and all(isinstance(n.iter, ast.Call) and norm(n.iter.func) == "sorted" and "ns.get_name" in norm(n.iter) for n in fors)
        ctx.ob("C02.e", VER, fname, "ports/signals emitted sorted by name", ok, "" if ok else "declaration order is not sorted by identifier", f)
    for rel in (VER, MEM, INS, EXP, NAMER):
        m = ctx.mod(rel)
        badn = None
        for n in ast.walk(m.tree):
            if isinstance(n, ast.Call) and isinstance(n.func, ast.Name) and n.func.id in ("id", "hash"):
                badn = n
            if isinstance(n, ast.Attribute) and norm(n) in ("os.environ", "random.random", "random.randint", "random.choice"):
                badn = n
            if isinstance(n, (ast.Import, ast.ImportFrom)):
                for a in n.names:
                    if a.name in ("random", "uuid", "secrets") or getattr(n, "module", None) in ("random", "uuid", "secrets"):
                        badn = n
        ctx.ob("C02.e", rel, "<module>", "no id()/hash()/random/environ", badn is None,
               "" if badn is None else f"`{norm(badn)}` introduces run-dependent data into the naming/emission code", badn or m.tree)
    # ... and nothing survives from one conversion to the next in the same process: a parameter whose default is a mutable object
    # (convert's ios=set(), special_overrides=dict(), the namer's reserved_keywords=set()) is the SAME object in every call, so an
    # in-place update of it (|=, .add/.update, p[k] = ..) -- directly, through a local alias or through self.<attr> = p -- makes the
    # second netlist of a run depend on the first; likewise for module-level containers updated from inside functions
    n_def = 0
    for rel in (VER, MEM, INS, EXP, NAMER):
        m = ctx.mod(rel)
        modlevel = set()
        for s in m.tree.body:
            if isinstance(s, ast.Assign) and _mutable_object(s.value):
                modlevel |= {t.id for t in s.targets if isinstance(t, ast.Name)}
        for cls in [None] + [c for c in m.tree.body if isinstance(c, ast.ClassDef)]:
            funcs = [f for f in (m.tree.body if cls is None else cls.body) if isinstance(f, ast.FunctionDef)]
            self_alias = {}
            for f in funcs:
                a = f.args
                pos = a.posonlyargs + a.args
                defs = dict(zip([x.arg for x in pos[len(pos) - len(a.defaults):]], a.defaults))
                defs.update({x.arg: d for x, d in zip(a.kwonlyargs, a.kw_defaults) if d is not None})
                shared = {k: k for k, d in defs.items() if _mutable_object(d)}
                n_def += len(shared)
                params = {x.arg for x in pos + a.kwonlyargs}
                for n in ast.walk(f):
                    if isinstance(n, ast.Assign) and isinstance(n.value, ast.Name) and n.value.id in shared:
                        for t in n.targets:
                            if isinstance(t, ast.Name) and t.id not in shared:
                                shared[t.id] = shared[n.value.id]
                            elif isinstance(t, ast.Attribute) and norm(t).startswith("self."):
                                self_alias[norm(t)] = (f.name, shared[n.value.id])
                bad = None
                for n in ast.walk(f):
                    for tgt in _mutated_in_place(n):
                        t = norm(tgt)
                        if t in shared:
                            bad = bad or (n, f"`{norm(n)[:80]}` updates in place the object bound to parameter `{shared[t]}`, whose default "
                                             f"is one shared mutable object: the next conversion in the same process starts from what this one left")
                        elif t in modlevel and t not in params:
                            bad = bad or (n, f"`{norm(n)[:80]}` updates the module-level container `{t}` from inside a function: state "
                                             f"carried from one conversion to the next")
                scope = f.name if cls is None else f"{cls.name}.{f.name}"
                if shared or bad:
                    ctx.ob("C02.e", rel, scope, "no conversion-to-conversion state: shared default objects / module containers never updated in place",
                           bad is None, "" if bad is None else bad[1], bad[0] if bad else f)
            for f in funcs:
                for n in ast.walk(f):
                    for tgt in _mutated_in_place(n):
                        if norm(tgt) in self_alias:
                            src = self_alias[norm(tgt)]
                            ctx.ob("C02.e", rel, f"{cls.name}.{f.name}", "no conversion-to-conversion state: shared default objects / module containers never updated in place",
                                   False, f"`{norm(n)[:80]}` updates `{norm(tgt)}`, which {src[0]} binds to the shared default object of parameter `{src[1]}`", n)
    tm = {}
    for fname, f in vm.functions.items():
        for n in ast.walk(f):
            if isinstance(n, ast.Attribute) and norm(n).startswith(("time.", "datetime.")):
                tm.setdefault(fname, n)
    badf = sorted(k for k in tm if k not in ("_generate_banner", "_generate_trailer"))
    ctx.ob("C02.e", VER, "<module>", "time only in banner/trailer", not badf, "" if not badf else f"time/datetime used in {badf}", tm[badf[0]] if badf else vm.tree)
    # final tie-break by duid
    srcs = [norm(n) for n in ast.walk(nm.tree) if isinstance(n, ast.Call) and norm(n.func) == "sorted" and "duid" in norm(n)]
    ok = bool(srcs)
    ctx.ob("C02.e", NAMER, "disambiguate_signals_with_duid", "final tie-break sorts by duid", ok, "" if ok else "no sorted(..., key=duid) in namer", nm.tree)
    _hierarchical_names(ctx, nm)
    _namespace_histories(ctx, nm)


def _hierarchical_names(ctx, nm):
    """The hierarchical naming pass (_build_signal_name_dict_for_group and everything it calls, _HierarchyNode included)
    interpreted exactly by the checker (lxs/pyconst.py) on model designs: signals are opaque objects with a back-trace of (name,
    number) steps, a duid and no relation.  The back-trace numbers come from Migen's process-wide tracer counters, so the same design
    elaborated later in one process carries larger numbers in the same order: the names must not change under such an
    order-preserving renumbering, and must be pairwise distinct within the group."""
    from .. import pyconst
    from ..pyconst import Key
    ctx.rule("C02.f", "hierarchical names depend on the order of the tracer numbers only (not on their values) and are pairwise distinct "
                      "within a group: the naming pass interpreted on model designs under order-preserving renumberings", min_sites=5)
    funcs = {f.name: f for f in nm.tree.body if isinstance(f, ast.FunctionDef)}
    classes = {c.name: c for c in nm.tree.body if isinstance(c, ast.ClassDef)}
    ctx.need("_build_signal_name_dict_for_group" in funcs, "namer.py: _build_signal_name_dict_for_group vanished")

    def design(kind, f):
        """f renumbers the tracer numbers"""
        def sig(i, bt):
            return Key(duid=100 + i, backtrace=[(n_, f(k)) for n_, k in bt], related=None, name_override=None, tag=f"s{i}")
        if kind == "two cores":
            return [sig(0, [("top", 0), ("core", 0), ("x", 0)]), sig(1, [("top", 0), ("core", 0), ("y", 0)]),
                    sig(2, [("top", 0), ("core", 1), ("x", 0)]), sig(3, [("top", 0), ("core", 1), ("y", 0)]), sig(4, [("top", 0), ("z", 0)])]
        if kind == "three cores, nested banks":
            out, i = [], 0
            for c in range(3):
                for b in range(2):
                    for leaf in ("we", "dat"):
                        out.append(sig(i, [("soc", 0), ("core", c), ("bank", 2 * c + b), (leaf, 0)]))
                        i += 1
            return out
        if kind == "same name twice in one module":
            return [sig(0, [("top", 0), ("fifo", 0), ("level", 0)]), sig(1, [("top", 0), ("fifo", 0), ("level", 1)]),
                    sig(2, [("top", 0), ("fifo", 0), ("din", 0)])]
        if kind == "signal named like a sibling module":
            # one back-trace is a strict prefix of another: `foo` the signal next to `foo` the sub-module holding `bar`
            return [sig(0, [("top", 0), ("foo", 0)]), sig(1, [("top", 0), ("foo", 1), ("bar", 0)]), sig(2, [("top", 0), ("baz", 0)])]
        if kind == "chain of prefixes":
            return [sig(0, [("top", 0), ("a", 0)]), sig(1, [("top", 0), ("a", 1), ("b", 0)]), sig(2, [("top", 0), ("a", 1), ("b", 1), ("c", 0)])]
        if kind == "numbered leaves":
            return [sig(i, [("top", 0), ("port", i)]) for i in range(4)] + [sig(4, [("top", 0), ("clk", 0)])]
        return [sig(0, [("top", 0), ("x", 0)])]
    for kind in ("two cores", "three cores, nested banks", "same name twice in one module", "signal named like a sibling module", "chain of prefixes",
                 "numbered leaves", "single signal"):
        names = []
        for f in (lambda k: k, lambda k: 3 * k + 4, lambda k: k * k + 17):
            sigs = design(kind, f)
            try:
                r = pyconst.call(funcs["_build_signal_name_dict_for_group"], {"group_number": 0, "signals": sigs}, funcs=funcs, classes=classes)
            except pyconst.Unknowable as ex:
                ctx.need(False, f"the naming pass cannot be interpreted on a model design ({ex})")
            ctx.analysed["paths"] += 1
            names.append([r[1].get(s_) for s_ in sigs] if r[0] == "return" and isinstance(r[1], dict) else None)
        bad = None
        if any(n is None or any(not isinstance(x, str) for x in n) for n in names):
            bad = f"the naming pass does not return a name for every signal: {names[0]}"
        elif len(set(names[0])) != len(names[0]):
            bad = f"names are not pairwise distinct: {names[0]}"
        elif any(not re.fullmatch(r"[A-Za-z_][A-Za-z0-9_$]*", x) for x in names[0]):
            bad = f"not every name is a legal identifier: {names[0]}"
        elif names[1] != names[0] or names[2] != names[0]:
            other = names[1] if names[1] != names[0] else names[2]
            bad = f"tracer numbers 0, 1, 2, .. give {names[0]}; the same design with larger numbers in the same order gives {other}: the " \
                  f"identifiers depend on how many objects were created before in the process (two runs over one design differ)"
        ctx.ob("C02.f", NAMER, "_build_signal_name_dict_for_group", f"{kind}: names distinct and invariant under renumbering", bad is None,
               bad or "", funcs["_build_signal_name_dict_for_group"])


def _namespace_histories(ctx, nm):
    """SignalNamespace interpreted exactly (a model object whose __init__ / get_name are the class's own) on every order of
    requests over small sets of signals whose wanted names collide with each other, with generated suffixed names (x, x, x_1, x_2)
    and with reserved words: the names handed out are pairwise distinct, never a reserved word, and a signal asked twice gets
    the same name."""
    import itertools
    from .. import pyconst
    from ..pyconst import Key
    classes = {c.name: c for c in nm.tree.body if isinstance(c, ast.ClassDef)}
    funcs = {f.name: f for f in nm.tree.body if isinstance(f, ast.FunctionDef)}
    ctx.need("SignalNamespace" in classes, "namer.py: SignalNamespace vanished")
    cdef = classes["SignalNamespace"]
    meth = {f.name: f for f in cdef.body if isinstance(f, ast.FunctionDef)}
    ctx.need("get_name" in meth and "__init__" in meth, "SignalNamespace: __init__ / get_name vanished")
    reserved = {"wire", "reg"}
    pools = [("x", "x", "x_1"), ("x", "x", "x", "x_1"), ("x", "x_1", "x_1", "x"), ("x", "x", "x_2", "x_1"), ("wire", "wire_1", "wire"),
             ("reg", "x", "reg_1", "x"), ("a", "b", "a")]
    bad = {"distinct": None, "reserved": None, "stable": None}
    n_ev = 0
    for pool in pools:
        for override in (True, False):
            for order in sorted(set(itertools.permutations(range(len(pool))))):
                sigs = [Key(__cls__=("Signal",), duid=i, name_override=(w if override else None), tag=f"s{i}", cd=None) for i, w in enumerate(pool)]
                me = Key(__cls__=("SignalNamespace",), __classdef__=cdef)
                try:
                    r0 = pyconst.call(meth["__init__"], {"self": me, "name_dict": {s_: w for s_, w in zip(sigs, pool)}, "reserved_keywords": set(reserved)},
                                      funcs=funcs, classes=classes)
                    got = {}
                    for k in list(order) + [order[0]]:
                        r = pyconst.call(meth["get_name"], {"self": me, "sig": sigs[k]}, funcs=funcs, classes=classes)
                        n_ev += 1
                        nm_ = r[1] if r[0] == "return" else None
                        what = f"wanted names {list(pool)} ({'overrides' if override else 'name dictionary'}), asked in the order {list(order)}"
                        if k in got and got[k] != nm_ and bad["stable"] is None:
                            bad["stable"] = f"{what}: signal {k} is called `{got[k]}` and then `{nm_}`"
                        got[k] = nm_
                    vals = list(got.values())
                    if (any(not isinstance(v, str) for v in vals) or len(set(vals)) != len(vals)) and bad["distinct"] is None:
                        bad["distinct"] = f"{what}: names handed out {[got[k] for k in range(len(pool))]}"
                    if any(v in reserved for v in vals) and bad["reserved"] is None:
                        bad["reserved"] = f"{what}: a reserved word is handed out: {[got[k] for k in range(len(pool))]}"
                except pyconst.Unknowable as ex:
                    ctx.need(False, f"SignalNamespace cannot be interpreted on a model request history ({ex})")
    ctx.analysed["paths"] += n_ev
    fn = meth["get_name"]
    ctx.ob("C02.a", NAMER, "SignalNamespace.get_name", "request histories:present", n_ev >= 400, f"{n_ev} interpreted requests", fn)
    ctx.ob("C02.a", NAMER, "SignalNamespace.get_name", "histories: names handed out are pairwise distinct", bad["distinct"] is None, bad["distinct"] or "", fn)
    ctx.ob("C02.a", NAMER, "SignalNamespace.get_name", "histories: no reserved word is handed out", bad["reserved"] is None, bad["reserved"] or "", fn)
    ctx.ob("C02.a", NAMER, "SignalNamespace.get_name", "histories: a signal keeps its name", bad["stable"] is None, bad["stable"] or "", fn)

