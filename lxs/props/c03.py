"""C03 -- stream elements deliver each token exactly once, in order, rightly transformed.

Decided (structural, necessary): S2 sink fields are sampled into state only on valid/accepted tokens;
S3 position/occupancy counters move only on the matching handshake (+ flush/ready dependences);
S5 no endpoint group is dropped by omit sets or hand wiring; S6 fork atomicity (PacketFIFO);
S8 accepted <=> loaded for the single-register elements.  Not decided: lane selection/ordering,
Gearbox arithmetic, Migen FIFO internals."""
import ast
from ..core import AnalysisError, norm
from .. import boolx as B
from .. import q
from .. import pathx as P
from ..rules_stream import (STREAM, PACKET, fx_of, s2_sampling, s3_counter, depends, s5_omit, s5_hand, s6_fork,
                            fail_closed, short, under)

EXPLANATION = ("Guarded-assignment IR extracted from the AST of every stream element; sampling guards must entail "
               "sink.valid, counters' guards must entail their handshake (propositional entailment after inlining "
               "1-bit comb definitions), omit sets and hand-wired endpoints are checked for complete forwarding, "
               "acceptance and load enables must be equivalent under sink.valid.")
TECHNIQUE = "AST-extracted FHDL IR + guard entailment/equivalence + wiring-completeness (def-use) rules"

HIN = "self.sink.valid & self.sink.ready"
HOUT = "self.source.valid & self.source.ready"

S2_CLASSES = ["PipeValid", "PipeReady", "PipelinedActor", "Shifter", "_UpConverter", "Pack", "StrideConverter",
              "Gearbox"]

COUNTERS = [
    # class, counter, handshake
    ("_UpConverter", "demux", HIN),
    ("Pack", "demux", HIN),
    ("_DownConverter", "mux", HOUT),
    ("Unpack", "mux", HOUT),
    ("Gearbox", "i_count", HIN),
    ("Gearbox", "o_count", HOUT),
    ("Gearbox", "level", f"({HIN}) | ({HOUT})"),
]


def stride_field_mapping(ctx, rid):
    """StrideConverter: the two loops that lay the user's payload fields into / out of the raw word of the width converter, interpreted
    (lxs/pyconst.py) on model layouts of 2 and 3 fields x ratio 2 and 3 with every bit tagged: chunk i of field f occupies raw bits
    [i * nbits + offset(f) : + width(f)] on both sides -- every field at its own offset, no bit lost or doubled."""
    from .. import pyconst
    from ..pyconst import NS
    m = ctx.mod(STREAM)
    init = m.method("StrideConverter", "__init__")
    ctx.analysed["functions"].add(f"{STREAM}::StrideConverter.__init__")

    class EqToTuple(ast.NodeTransformer):
        def visit_Call(self, node):
            self.generic_visit(node)
            if isinstance(node.func, ast.Attribute) and node.func.attr == "eq" and len(node.args) == 1:
                return ast.copy_location(ast.List(elts=[ast.Tuple(elts=[ast.Constant(value="eq"), node.func.value, node.args[0]], ctx=ast.Load())],
                                                  ctx=ast.Load()), node)
            return node
    blocks = {}
    for n in ast.walk(init):
        # `if converter.cls == X: <loops> else: <raw>`, or the same test flipped (`!=` / `not ... ==`) with the arms swapped
        if not isinstance(n, ast.If):
            continue
        t, flipped = n.test, False
        if isinstance(t, ast.UnaryOp) and isinstance(t.op, ast.Not):
            t, flipped = t.operand, True
        if isinstance(t, ast.Compare) and len(t.ops) == 1 and isinstance(t.ops[0], (ast.Eq, ast.NotEq, ast.Is, ast.IsNot)) and \
                norm(t.left) == "converter.cls" and norm(t.comparators[0]) in ("_DownConverter", "_UpConverter"):
            if isinstance(t.ops[0], (ast.NotEq, ast.IsNot)):
                flipped = not flipped
            arm = n.orelse if flipped else n.body
            blocks[norm(t.comparators[0])] = ast.If(test=ast.Constant(value=True), body=arm, orelse=[], lineno=n.lineno, col_offset=n.col_offset)
    ctx.ob(rid, STREAM, "StrideConverter", "field mapping blocks:present", set(blocks) == {"_DownConverter", "_UpConverter"}, f"{sorted(blocks)}", init)
    for kind, blk in sorted(blocks.items()):
        bad = None
        n_cfg = 0
        for layout in ([("data", 8), ("strb", 2)], [("a", 3), ("b", 5), ("c", 1)]):
            for ratio in (2, 3):
                nb = sum(w for _, w in layout)
                raw = [("raw", k) for k in range(nb * ratio)]
                wide = NS(description=NS(payload_layout=list(layout)), **{f: [(f, k) for k in range(w * ratio)] for f, w in layout})
                me = NS(comb=[])
                conv = NS(ratio=ratio, sink=NS(data=raw), source=NS(data=raw))
                env = {"self": me, "converter": conv, "sink": wide, "source": wide, "nbits_from": nb, "nbits_to": nb}
                # local helpers and aliases of __init__ the block may use (a closure that pairs the lanes, `conv_sink = converter.sink`)
                def _alias(v):
                    while isinstance(v, ast.Attribute):
                        v = v.value
                    return isinstance(v, ast.Name) and v.id in env
                prelude = [st for st in init.body if getattr(st, "lineno", 0) < blk.lineno and
                           (isinstance(st, ast.FunctionDef) or (isinstance(st, ast.Assign) and len(st.targets) == 1 and isinstance(st.targets[0], ast.Name) and
                                                                isinstance(st.value, (ast.Attribute, ast.Name)) and _alias(st.value)))]
                body = [EqToTuple().visit(ast.parse(ast.unparse(st)).body[0]) for st in prelude + list(blk.body)]
                for st in body:
                    ast.fix_missing_locations(st)
                try:
                    it_ = pyconst.Interp(env, exact=True)
                    it_.funcs = dict(getattr(it_, "funcs", None) or {})
                    it_.run(body)
                except Exception as ex:     # noqa
                    ctx.need(False, f"StrideConverter field mapping ({kind}) cannot be interpreted: {type(ex).__name__}: {ex}")
                n_cfg += 1
                got = {}
                for rec in me["comb"]:
                    if not (isinstance(rec, tuple) and len(rec) == 3 and rec[0] == "eq" and isinstance(rec[1], list) and isinstance(rec[2], list) and len(rec[1]) == len(rec[2])):
                        bad = bad or f"layout {layout}, ratio {ratio}: a mapping statement the interpreter cannot read ({str(rec)[:60]})"
                        continue
                    for d, s_ in zip(rec[1], rec[2]):
                        fld, rw = (d, s_) if s_[0] == "raw" else (s_, d)       # user field bit <-> raw bit, whichever the direction
                        got.setdefault(fld, []).append(rw)
                want, off = {}, 0
                for f, w in layout:
                    for i in range(ratio):
                        for b in range(w):
                            want[(f, i * w + b)] = [("raw", i * nb + off + b)]
                    off += w
                if got != want and bad is None:
                    diff = sorted(k for k in want if got.get(k) != want[k])
                    k0 = diff[0] if diff else sorted(set(got) - set(want))[0]
                    bad = f"layout {layout}, ratio {ratio}: bit {k0[1]} of field `{k0[0]}` is connected to raw bit(s) {[x[1] for x in got.get(k0, [])]}, its place is raw bit " \
                          f"{want.get(k0, [('raw', None)])[0][1]} (chunk * {nb} + field offset): fields overlap in the raw word"
        ctx.ob(rid, STREAM, "StrideConverter", f"{kind} side: every field bit at chunk * nbits + its own field offset (4 layouts x ratios)", bad is None and n_cfg == 4,
               bad or "", blk)


def packer_loads(ctx, rid, cls):
    """stream._UpConverter / Pack: the lane registers of the wide word load only with the sink handshake (shared with C10: a lane
    loaded on sink.valid alone overwrites lane 0 of a wide beat that is still waiting for WREADY / RREADY)."""
    fx = fx_of(ctx, STREAM, cls)
    inl = q.Inliner(fx)
    fr = inl.formula_of_path("self.sink.ready")
    ctx.need(fr is not None, f"{rid}: {cls}.sink.ready not comb-driven")
    Vs = B.A("self.sink.valid")
    lp = inl.formula_of_path("load_part")
    ok = lp is not None and B.equivalent(lp, B.And(Vs, fr))
    ctx.ob(rid, STREAM, cls, "load_part == sink.valid & sink.ready", ok,
           "" if ok else f"load_part = {B.show(lp) if lp else '?'} is not the sink handshake")
    # every data/param load is under load_part
    for a in fx.find(domain="sync"):
        if under(a.t, "self.source") and any(under(p, "self.sink") for p in q.paths(a.value)):
            G = q.gformula(fx, a)
            ok = B.entails(G, B.And(Vs, fr))
            ctx.ob(rid, STREAM, cls, f"load {short(a.t, 40)} => accepted", ok,
                   "" if ok else f"{a.t} loads under {B.show(G)} without the sink handshake", a.line)


def run(ctx):
    ctx.rule("S1", "nothing altered between presentation and hand-over: every sync assignment to a registered source field has a "
                   "guard that entails ~source.valid | source.ready (same instances as C04.S1)", min_sites=28)
    ctx.rule("S2", "a sink data field (payload/param/first/last) reaches a sync target only under a guard that entails "
                   "sink.valid, or ANDed with sink.valid, or together with sink.valid under the same guard", min_sites=20)
    ctx.rule("S3", "position/occupancy counters move only under guards that entail their handshake; flush and ready "
                   "dependences present", min_sites=25)
    ctx.rule("S5", "every group omitted from a stream connect is driven explicitly; hand-wired endpoints forward all "
                   "groups", min_sites=25)
    ctx.rule("S6", "fork: sink.ready implies each sub-sink ready; each sub-sink valid entails sink.valid and the other "
                   "sub-sinks' ready (push iff accepted)", min_sites=6)
    ctx.rule("S8", "accepted <=> loaded: under sink.valid the sink.ready formula and the load enable coincide",
             min_sites=5)
    ctx.rule("S11", "occupancy registers stay inside their declared range: every +d/-d update of a Signal(max=M) register is "
                    "guarded by thresholds that keep it in 0..M-1 (linear forms over the positive constructor parameters)", min_sites=31)
    ctx.rule("S10", "selection-based routing and compositions: mux/demux arm i connects endpoint i under sel == i; Gate connects "
                    "only when enabled; SyncFIFO depth 0/1/>=2 arms; Pipeline chains consecutive modules; Buffer order sink, "
                    "pipe_valid, pipe_ready, source; Cast maps all bits; BufferizeEndpoints directions", min_sites=25)

    # ---- S1 (shared with C04): a token presented at the source is handed over as presented
    from .c04 import S1_CLASSES
    from ..rules_stream import s1_stability, s1_held_comb
    for cls, alt, why in S1_CLASSES:
        fx = fx_of(ctx, STREAM, cls)
        n = s1_stability(ctx, "S1", fx, cls, alt=B.from_expr(alt) if alt else None, alt_reason=why)
        ctx.need(n > 0, f"S1: {cls} has no registered source field any more (instance table stale)")
        s1_held_comb(ctx, "S1", fx, cls)

    # ---- S2
    for cls in S2_CLASSES:
        fx = fx_of(ctx, STREAM, cls)
        fail_closed(ctx, fx, cls)
        n = s2_sampling(ctx, "S2", fx, cls)
        ctx.need(n > 0, f"S2: {cls} no longer samples its sink into state (instance table stale)")

    # ---- S3
    for cls, counter, hs in COUNTERS:
        fx = fx_of(ctx, STREAM, cls)
        fail_closed(ctx, fx, cls)
        s3_counter(ctx, "S3", fx, cls, counter, hs)
    # Gearbox level: exact delta <-> handshake correspondence and exhaustiveness
    fx = fx_of(ctx, STREAM, "Gearbox")
    inl = q.Inliner(fx)
    Hin, Hout = inl.inline(B.from_expr(HIN)), inl.inline(B.from_expr(HOUT))
    cover = B.F
    for a in fx.find(domain="sync", target="level"):
        G = q.gformula(fx, a)
        cover = B.Or(cover, G)
        v = ast.parse(a.v, mode="eval").body
        plus = any(isinstance(n, ast.BinOp) and isinstance(n.op, ast.Add) and norm(n.right) == "i_dw" for n in ast.walk(v))
        minus = any(isinstance(n, ast.BinOp) and isinstance(n.op, ast.Sub) and norm(n.right) == "o_dw" for n in ast.walk(v))
        need = B.And(Hin if plus else B.Not(Hin), Hout if minus else B.Not(Hout))
        ok = B.entails(G, need)
        ctx.ob("S3", STREAM, "Gearbox", f"level delta {'+i' if plus else ''}{'-o' if minus else ''}", ok,
               "" if ok else f"level <= {a.v} under {B.show(G)}: delta does not match the handshakes that occur", a.line)
    ok = B.equivalent(cover, B.Or(Hin, Hout))
    ctx.ob("S3", STREAM, "Gearbox", "level updated on every handshake", ok,
           "" if ok else f"level updates under {B.show(cover)} which is not equivalent to H_in | H_out")
    # flush on early last / ready structure
    for cls in ("_UpConverter", "Pack"):
        fx = fx_of(ctx, STREAM, cls)
        sets = [a for a in fx.find(domain="sync", target="strobe_all") if a.v == "1"]
        ctx.ob("S3", STREAM, cls, "strobe_all set:present", bool(sets), "strobe_all is never set", 0)
        # the lane counter restarts with every completed word (also one closed early by `last`): set of strobe_all => demux <= 0
        zs = [a for a in fx.find(domain="sync", target="demux") if a.v == "0"]
        Gz = B.F
        for a in zs:
            Gz = B.Or(Gz, q.gformula(fx, a))
        for a in sets:
            Gs = q.gformula(fx, a)
            ok = bool(zs) and B.entails(Gs, Gz)
            ctx.ob("S3", STREAM, cls, "word completion restarts the lane counter", ok,
                   "" if ok else f"strobe_all is set under {short(B.show(Gs))} but demux returns to 0 only under {short(B.show(Gz))}: after a word closed "
                                 f"early by `last` the next word starts filling at a stale lane (tokens misplaced, word strobed too early); e.g. "
                                 f"{B.counterexample(Gs, Gz)}", a.line)
        for a in sets:
            # a word that completes is presented even when the previous word is handed over in the same cycle: the set is not
            # overridden by the clear (written guard = effective guard)
            ok = q.EQ(a, B.guard_formula(a.guards))
            ctx.ob("S3", STREAM, cls, "strobe_all set wins over its clear", ok,
                   "" if ok else f"strobe_all <= 1 under {B.show(B.guard_formula(a.guards))} takes effect only under {B.show(a.eff())}: a word "
                                 f"completed in the cycle the previous one leaves is never presented (token lost, its last marker sticks to the "
                                 f"next word)", a.line)
            G = q.gformula(fx, a)
            for at in ("self.sink.last", "self.sink.valid"):
                ok = B.depends_on(G, at)
                ctx.ob("S3", STREAM, cls, f"strobe_all set depends on {at}", ok,
                       "" if ok else f"word completion guard {B.show(G)} ignores {at} (partial word is not flushed on an "
                                     f"early last)", a.line)
        from ..rules_stream import s3_word_flags
        s3_word_flags(ctx, "S3", fx, cls)
        vt = fx.find(domain="sync", target="self.source.valid_token_count")
        if cls == "_UpConverter":
            ok = bool(vt) and all(a.v in ("demux + 1", "1 + demux") for a in vt)
            ctx.ob("S3", STREAM, cls, "valid_token_count <= demux + 1", ok,
                   "" if ok else "valid_token_count does not report demux + 1", vt[0].line if vt else 0)
    for cls, last_atom in (("_DownConverter", "mux == ratio - 1"), ("Unpack", "mux == n - 1")):
        fx = fx_of(ctx, STREAM, cls)
        inl = q.Inliner(fx)
        fr = inl.formula_of_path("self.sink.ready")
        ctx.need(fr is not None, f"{cls}.sink.ready not comb driven")
        ats = B.atoms(fr)
        lastat = [a for a in ats if a.startswith("mux == ")]
        ok = B.depends_on(fr, "self.source.ready") and len(lastat) == 1 and B.depends_on(fr, lastat[0])
        ctx.ob("S3", STREAM, cls, "sink.ready = last & source.ready", ok and B.entails(fr, B.A("self.source.ready")),
               "" if ok else f"sink.ready = {B.show(fr)}: the wide word must be released exactly with its last chunk")
        # the mux wraps exactly at the terminal count used for `last`
        wraps = [a for a in fx.find(domain="sync", target="mux") if a.v == "0"]
        for a in wraps:
            G = q.gformula(fx, a)
            ok = bool(lastat) and B.entails(G, B.A(lastat[0]))
            ctx.ob("S3", STREAM, cls, "mux wraps on last", ok, "" if ok else f"mux reset under {B.show(G)}", a.line)

    # ---- S8
    for cls, loadreg in (("PipeValid", "self.source.valid"), ("PipelinedActor", "valid_n"), ("_UpConverter", None),
                         ("Pack", None), ("PipeReady", None)):
        fx = fx_of(ctx, STREAM, cls)
        inl = q.Inliner(fx)
        fr = inl.formula_of_path("self.sink.ready")
        ctx.need(fr is not None, f"S8: {cls}.sink.ready not comb-driven")
        Vs = B.A("self.sink.valid")
        if loadreg is not None:
            loads = fx.find(domain="sync", target=loadreg)
            ctx.need(bool(loads), f"S8: {cls}.{loadreg} has no sync driver")
            G = B.Or(*[q.gformula(fx, a) for a in loads])
            ok = B.equivalent(B.And(Vs, fr), B.And(Vs, G))
            ctx.ob("S8", STREAM, cls, "sink.ready <=> load enable", ok,
                   "" if ok else f"sink.ready = {B.show(fr)} but the register loads under {B.show(G)}: a token can be "
                                 f"accepted and not stored, or stored and not accepted")
        elif cls in ("_UpConverter", "Pack"):
            packer_loads(ctx, "S8", cls)
        else:   # PipeReady
            loads = fx.find(domain="sync", target="sink_d")
            G = B.Or(*[q.gformula(fx, a) for a in loads]) if loads else B.F
            ok = B.entails(B.And(Vs, fr), B.Or(B.A("self.source.ready"), G))
            ctx.ob("S8", STREAM, cls, "accepted => forwarded or stored", ok,
                   "" if ok else f"a token accepted while source.ready=0 is not stored (load guard {B.show(G)})")

    # ---- S16 (shared with C04 / C05): the stages of a ClockDomainCrossing run in the domains of the stream they carry
    ctx.rule("S16", "stream.ClockDomainCrossing: every clocked stage runs in the domain of the stream it carries (same-domain buffer renamed "
                    "onto cd_from, FIFO sides onto cd_from / cd_to): a register clocked by `sys` under a faster stream drops and duplicates "
                    "accepted tokens", min_sites=3)
    from .c05 import crossing_stage_domains
    crossing_stage_domains(ctx, "S16")

    ctx.rule("S17", "StrideConverter: user fields <-> raw word mapping by value (both directions): each field at its own offset of every "
                    "chunk, nothing lost or doubled", min_sites=3)
    stride_field_mapping(ctx, "S17")

    # ---- S5 wiring
    for cls in ("PipeReady", "Converter", "ClockDomainCrossing", "Gate", "Multiplexer", "Demultiplexer", "_IdentityConverter"):
        fx = fx_of(ctx, STREAM, cls)
        fail_closed(ctx, fx, cls)
        s5_omit(ctx, "S5", fx, cls, allow={("Converter", "valid_token_count"),
                                           # the internal skid record has no back-pressure input of its own
                                           ("PipeReady", "sink_d", "ready")})
    # PipeReady: the omitted ready must be sink.ready (explicit), checked by S1p in C04; here: omit sets are exactly {ready}
    fx = fx_of(ctx, STREAM, "PipeReady")
    for c in fx.conns:
        om = norm(c["conn"].omit) if c["conn"].omit is not None else ""
        ok = om in ("{'ready'}", "set(['ready'])", "['ready']")
        ctx.ob("S5", STREAM, "PipeReady", f"omit set of {norm(c['conn'].src)}->{norm(c['conn'].dst)}", ok,
               "" if ok else f"omit set {om} drops more than ready", c["node"])
    fxp = fx_of(ctx, PACKET, "PacketFIFO")
    fail_closed(ctx, fxp, "PacketFIFO")
    s5_omit(ctx, "S5", fxp, "PacketFIFO", allow={("PacketFIFO", "dummy")})
    s5_hand(ctx, "S5", fx_of(ctx, STREAM, "CombinatorialActor"), "CombinatorialActor",
            [("self.source.valid", "self.sink.valid"), ("self.source.first", "self.sink.first"),
             ("self.source.last", "self.sink.last"), ("self.sink.ready", "self.source.ready")])
    s5_hand(ctx, "S5", fx_of(ctx, STREAM, "StrideConverter"), "StrideConverter",
            [("converter.sink.valid", "self.sink.valid"), ("converter.sink.first", "self.sink.first"),
             ("converter.sink.last", "self.sink.last"), ("self.sink.ready", "converter.sink.ready"),
             ("converter.sink.data", "self.sink"),
             ("self.source.valid", "converter.source.valid"), ("self.source.first", "converter.source.first"),
             ("self.source.last", "converter.source.last"), ("converter.source.ready", "self.source.ready"),
             ("self.source.param", "self.sink.param")])
    s5_hand(ctx, "S5", fx_of(ctx, STREAM, "_FIFOWrapper"), "_FIFOWrapper",
            [("self.sink.ready", "self.fifo.writable"), ("self.fifo.we", "self.sink.valid"), ("fifo_in.first", "self.sink.first"),
             ("fifo_in.last", "self.sink.last"), ("fifo_in.payload", "self.sink.payload"),
             ("fifo_in.param", "self.sink.param"), ("self.fifo.din", "fifo_in"), ("fifo_out.raw_bits()", "self.fifo.dout"),
             ("self.source.valid", "self.fifo.readable"), ("self.source.first", "fifo_out.first"),
             ("self.source.last", "fifo_out.last"), ("self.source.payload", "fifo_out.payload"),
             ("self.source.param", "fifo_out.param"), ("self.fifo.re", "self.source.ready")])
    for cls, tab in (("_DownConverter", [("self.source.valid", "self.sink.valid"), ("self.source.first", "self.sink.first"),
                                         ("self.source.last", "self.sink.last"), ("self.source.data", "self.sink.data")]),
                     ("Unpack", [("self.source.valid", "self.sink.valid"), ("self.source.first", "self.sink.first"),
                                 ("self.source.last", "self.sink.last"), ("self.source.payload", "self.sink.payload"),
                                 ("self.source", "self.sink")])):
        s5_hand(ctx, "S5", fx_of(ctx, STREAM, cls), cls, tab)
    # first/last qualification of the down-converters: first only with the first chunk, last only with the last
    for cls in ("_DownConverter", "Unpack"):
        fx = fx_of(ctx, STREAM, cls)
        inl = q.Inliner(fx)
        for fld, at0 in (("first", "mux == 0"), ("last", None)):
            f = inl.formula_of_path(f"self.source.{fld}")
            if f is None:
                # the marker is no longer one signal gated by the emission counter (e.g. driven per Case arm from the chunk position)
                ds_ = fx.find(domain="comb", target=f"self.source.{fld}")
                ctx.ob("S5", STREAM, cls, f"source.{fld} = sink.{fld} & {fld}-chunk", False,
                       f"source.{fld} is driven by {[(a.v, a.gtext()) for a in ds_][:3]}: not `sink.{fld}` qualified by the position of the emitted chunk "
                       f"(mux): with reversed chunk order the marker lands on the wrong token", ds_[0].line if ds_ else 0)
                continue
            ats = [a for a in B.atoms(f) if a.startswith("mux == ")]
            ok = len(ats) == 1 and B.entails(f, B.A(ats[0])) and B.entails(f, B.A(f"self.sink.{fld}")) and \
                (at0 is None or ats[0] == at0)
            ctx.ob("S5", STREAM, cls, f"source.{fld} = sink.{fld} & {fld}-chunk", ok,
                   "" if ok else f"source.{fld} = {B.show(f)}: the marker is duplicated on every chunk or lost")

    # ---- S6 fork atomicity
    s6_fork(ctx, "S6", fxp, "PacketFIFO", "self.sink", ["self.param_fifo.sink", "self.payload_fifo.sink"])

    # ---- S10
    _s10(ctx)

    # ---- S13 register copies keep their width (all classes of stream.py and packet.py)
    ctx.rule("S13", "a register loaded with the plain value of another signal of its class is declared with the same width (or `like` "
                    "it): a narrower copy drops the token's upper bits silently", min_sites=6)
    from ..rules_stream import copy_widths
    for rel in (STREAM, "litex/soc/interconnect/packet.py"):
        mm_ = ctx.mod(rel)
        for cls, cdef in mm_.classes.items():
            try:
                fxc = fx_of(ctx, rel, cls)
            except AnalysisError:
                continue
            copy_widths(ctx, "S13", fxc, cls, cdef)

    # ---- S11 occupancy range
    from ..rules_stream import s_range
    s_range(ctx, "S11", fx_of(ctx, STREAM, "Gearbox"), "Gearbox", "level")
    # position counters: wrap explicitly at their last value, never rely on overflow (ratio need not be a power of two)
    for cls, reg in (("_UpConverter", "demux"), ("_DownConverter", "mux"), ("Pack", "demux"), ("Unpack", "mux"),
                     ("Gearbox", "i_count"), ("Gearbox", "o_count")):
        s_range(ctx, "S11", fx_of(ctx, STREAM, cls), cls, reg)


def _s10(ctx):
    from ..fx import FX
    m = ctx.mod(STREAM)
    # ---- Multiplexer / Demultiplexer
    for cls, many, one, fwd in (("Multiplexer", "sinks", "self.source", True), ("Demultiplexer", "sources", "self.sink", False)):
        fx = fx_of(ctx, STREAM, cls)
        fail_closed(ctx, fx, cls)
        cs = [c for c in fx.conns if c["guards"]]
        ctx.ob("S10", STREAM, cls, "selected connect:present", len(cs) == 1, f"{len(cs)} guarded connects", 0)
        # the select can name every port: its declared width holds 0..n-1 for every port count (evaluated for n = 1..17)
        d = fx.decl.get("self.sel")
        short_ = [n_ for n_ in range(1, 18) if d is None or (q.signal_values(d[1], {"n": n_}) or 0) < n_]
        ctx.ob("S10", STREAM, cls, "sel is wide enough for every port index 0..n-1", not short_,
               "" if not short_ else f"self.sel = {norm(d[1]) if d else '?'} cannot hold the index of the last port for n = {short_[:6]}: tokens meant for "
                                     f"port n-1 go to another port", d[1] if d else 0)
        for c in cs:
            src, dst = norm(c["conn"].src), norm(c["conn"].dst)
            arr, single = (src, dst) if fwd else (dst, src)
            idx = arr[len(many) + 1:-1] if arr.startswith(many + "[") else None
            G = B.guard_formula(c["guards"])
            ok = idx is not None and single == one and B.equivalent(G, B.A(f"self.sel == {idx}")) and c["conn"].omit is None and \
                c["conn"].keep is None
            ctx.ob("S10", STREAM, cls, f"arm i: {many}[i] <-> {one} under sel == i", ok,
                   "" if ok else f"{src}.connect({dst}) under {B.show(G)}: tokens of another endpoint are routed / fields dropped", c["node"])
        init = m.method(cls, "__init__")
        ok = any(isinstance(n, ast.For) and norm(n.iter) == "range(n)" for n in ast.walk(init)) and \
            any(isinstance(n, ast.Call) and norm(n.func) == "setattr" and len(n.args) == 3 and norm(n.args[0]) == "self" for n in ast.walk(init))
        ctx.ob("S10", STREAM, cls, "one endpoint per index 0..n-1 registered on the module", ok, "" if ok else "endpoint creation changed", init)
    # ---- Gate
    fx = fx_of(ctx, STREAM, "Gate")
    fail_closed(ctx, fx, "Gate")
    cs = [c for c in fx.conns]
    ok = len(cs) == 1 and norm(cs[0]["conn"].src) == "self.sink" and norm(cs[0]["conn"].dst) == "self.source" and \
        B.equivalent(B.guard_formula(cs[0]["guards"]), B.A("self.enable")) and cs[0]["conn"].omit is None
    ctx.ob("S10", STREAM, "Gate", "sink connected to source exactly when enabled", ok, "" if ok else f"{[(norm(c['conn'].src), norm(c['conn'].dst), c['guards']) for c in cs]}")
    rd = fx.find(domain="comb", target="self.sink.ready")
    ok = len(rd) == 1 and q.EQ(rd[0], B.Not(B.A("self.enable"))) and rd[0].v == "int(sink_ready_when_disabled)"
    ctx.ob("S10", STREAM, "Gate", "disabled: sink.ready = the configured constant, nothing forwarded", ok, "" if ok else f"{[(a.v, a.gtext()) for a in rd]}")
    # ---- SyncFIFO arms
    fx = fx_of(ctx, STREAM, "SyncFIFO")
    init = m.method("SyncFIFO", "__init__")
    # which arm is built is decided by evaluating the Python-level guards for depth = 0..4 (any spelling of the three-way test)
    bad = {}
    for d_ in range(5):
        conns = [c for c in fx.conns if q.pg_active(c["pyguards"], {"depth": d_})]
        bufs = [i for i in fx.insts if i.cls == "Buffer" and q.pg_active(i.pyguards, {"depth": d_})]
        fifos = [i for i in fx.insts if i.name == "self.fifo" and q.pg_active(i.pyguards, {"depth": d_})]
        if d_ == 0:
            ok = len(conns) == 1 and norm(conns[0]["conn"].src) == "self.sink" and norm(conns[0]["conn"].dst) == "self.source" and \
                conns[0]["conn"].omit is None and not bufs and not fifos
        elif d_ == 1:
            ok = len(bufs) == 1 and not conns and not fifos
        else:
            ok = len(fifos) == 1 and not conns and not bufs
        if not ok:
            bad[d_] = f"depth={d_}: connects {len(conns)}, Buffers {len(bufs)}, FIFOs {len(fifos)}"
    ctx.ob("S10", STREAM, "SyncFIFO", "depth 0: plain connect", 0 not in bad, bad.get(0, ""), init)
    b1 = [i for i in fx.insts if i.cls == "Buffer" and q.pg_active(i.pyguards, {"depth": 1})]
    bname = None
    if len(b1) == 1:
        for n in ast.walk(init):
            if isinstance(n, ast.Assign) and isinstance(n.value, ast.Call) and norm(n.value.func) == "Buffer" and isinstance(n.targets[0], ast.Name):
                bname = n.targets[0].id
    al = {norm(n.targets[0]): norm(n.value) for n in ast.walk(init) if isinstance(n, ast.Assign) and norm(n.targets[0]) in ("self.sink", "self.source") and
          bname is not None and norm(n.value).startswith(bname + ".")}
    ok = 1 not in bad and al == {"self.sink": f"{bname}.sink", "self.source": f"{bname}.source"}
    ctx.ob("S10", STREAM, "SyncFIFO", "depth 1: a Buffer whose sink/source are exposed", ok, "" if ok else f"{bad.get(1, '')} {al}", init)
    deep = [v for k, v in bad.items() if k >= 2]
    ctx.ob("S10", STREAM, "SyncFIFO", "depth >= 2: Migen FIFO behind the wrapper", not deep, "; ".join(deep), init)
    # accepted <=> stored: the handshake of the deep FIFO is the wrapper's (sink.ready = fifo.writable, fifo.we = sink.valid, decided
    # on _FIFOWrapper); the subclasses add no driver of their own to the endpoints or the FIFO port -- a sink.ready forced high while
    # the FIFO is not writable acknowledges a token that is never stored
    for sub_ in ("SyncFIFO", "AsyncFIFO"):
        fxs_ = fx_of(ctx, STREAM, sub_)
        cd_ = m.cls(sub_)
        extra = [a for a in fxs_.find() if a.t.startswith(("self.sink.", "self.source.", "self.fifo.")) and
                 cd_.lineno <= a.line <= cd_.end_lineno and (sub_ != "SyncFIFO" or q.pg_active(a.pyguards, {"depth": 2}))]
        ctx.ob("S8", STREAM, sub_, "no handshake driver besides the wrapper's", not extra,
               "" if not extra else f"`{extra[0].t} <= {extra[0].v}` under {extra[0].gtext()}: overrides the wrapper's handshake "
                                    f"(accepted tokens are no longer exactly the stored ones)", extra[0].line if extra else 0)
    # ---- Pipeline: do_finalize interpreted (lxs/pyconst.py) on lists of opaque stages -- modules with sink/source endpoints, bare
    #      Endpoints, a stage listed twice in a row -- and the recorded connect() calls compared with the chain
    from .. import pyconst
    fin = m.method("Pipeline", "do_finalize")

    def endpoint(name, log):
        ep = pyconst.NS(__cls__={"Endpoint"}, name=name)
        ep["connect"] = pyconst.Native(lambda other, **kw: log.append((name, other.get("name") if isinstance(other, pyconst.NS) else None, kw)) or
                                       pyconst.Tok("stmt", len(log)))
        return ep
    verdicts = {}
    for label, kinds in (("three modules", "MMM"), ("endpoint first", "EMM"), ("endpoint last", "MME"), ("endpoint in the middle", "MEM"),
                         ("two stages", "MM"), ("one stage", "M")):
        log = []
        stages = []
        for k, kind in enumerate(kinds):
            if kind == "M":
                stages.append(pyconst.NS(__cls__={"Module"}, name=f"m{k}", sink=endpoint(f"m{k}.sink", log), source=endpoint(f"m{k}.source", log)))
            else:
                stages.append(endpoint(f"e{k}", log))
        me = pyconst.NS(modules=list(stages))
        it = pyconst.Interp({"self": me})
        try:
            it.run(fin.body)
        except Exception as ex:
            ctx.need(False, f"Pipeline.do_finalize cannot be interpreted: {ex}")

        def src_of(s_):
            return s_["name"] if "Endpoint" in s_["__cls__"] else s_["source"]["name"]

        def snk_of(s_):
            return s_["name"] if "Endpoint" in s_["__cls__"] else s_["sink"]["name"]
        want = [(src_of(a), snk_of(b), {}) for a, b in zip(stages, stages[1:])]
        got_sink = me.get("sink")
        got_source = me.get("source")
        want_sink = stages[0].get("sink") if "Module" in stages[0]["__cls__"] else None
        want_source = stages[-1].get("source") if "Module" in stages[-1]["__cls__"] else None
        verdicts[label] = (log == want, (got_sink is want_sink or (want_sink is None and got_sink in (None, pyconst.UNKNOWN))) and
                           (got_source is want_source or (want_source is None and got_source in (None, pyconst.UNKNOWN))), log, want)
    bad = [(k, v) for k, v in verdicts.items() if not v[0]]
    ctx.ob("S10", STREAM, "Pipeline.do_finalize", "module i-1's source connected to module i's sink, for i = 1..n-1", not bad,
           "" if not bad else f"{bad[0][0]}: connects {[(a, b) for a, b, _ in bad[0][1][2]]}, expected {[(a, b) for a, b, _ in bad[0][1][3]]}: a stage is skipped, "
                              f"connected twice or through the wrong endpoint", fin)
    bad2 = [k for k, v in verdicts.items() if not v[1]]
    ctx.ob("S10", STREAM, "Pipeline.do_finalize", "pipeline sink = first module's sink, source = last module's source", not bad2,
           "" if not bad2 else f"{bad2[0]}: the pipeline's own sink/source are not the first stage's sink / the last stage's source", fin)
    kw_used = [k for k, v in verdicts.items() if any(kw for _, _, kw in v[2])]
    ctx.ob("S10", STREAM, "Pipeline.do_finalize", "full connect between stages (nothing omitted)", not kw_used, "" if not kw_used else "stage connect restricted")
    # ---- Buffer
    fx = fx_of(ctx, STREAM, "Buffer")
    pl = [i for i in fx.insts if i.name == "self.pipeline" and i.call is not None]
    ok = len(pl) == 1
    if ok:
        args = [norm(a) for a in pl[0].call.args]
        ok = args[0] == "self.sink" and args[-1] == "self.source" and len(args) == 3 and "self.pipe_valid" in args[1] and \
            "self.pipe_ready" in args[1] and args[1].index("self.pipe_valid") < args[1].index("self.pipe_ready")
    ctx.ob("S10", STREAM, "Buffer", "Pipeline(sink, [pipe_valid], [pipe_ready], source)", ok, "" if ok else f"{pl}")
    # ---- Delay
    fx = fx_of(ctx, STREAM, "Delay")
    pl = [i for i in fx.insts if i.cls == "Pipeline" and i.call is not None]
    ok = len(pl) == 1
    if ok:
        args = [norm(fx.expand(a)) for a in pl[0].call.args]
        ok = len(args) == 3 and args[0] == "self.sink" and args[2] == "self.source" and args[1].startswith("*") and "Buffer(" in args[1] and \
            "range(n)" in args[1]
    ctx.ob("S10", STREAM, "Delay", "Pipeline(sink, *n buffers, source)", ok, "" if ok else f"{[norm(a) for a in pl[0].call.args] if pl else pl}")
    # ---- Cast
    fx = fx_of(ctx, STREAM, "Cast")
    ca = [a for a in fx.find(domain="comb") if a.t.startswith("Cat(")]
    ok = len(ca) == 1 and "self.source.payload.flatten()" in ca[0].t and "self.sink.payload.flatten()" in ca[0].v and ca[0].v.startswith("Cat(")
    ctx.ob("S10", STREAM, "Cast", "all source payload bits <- all sink payload bits", ok, "" if ok else f"{[(a.t[:40], a.v[:40]) for a in ca]}")
    init = m.method("Cast", "__init__")
    # field order: each side is reversed exactly when its own flag is set (reversing both is not reversing none: the fields of the
    # two layouts have different widths, bits pair up from the other end).  Decided by interpreting __init__ (lxs/pyconst.py) on
    # token lists for the four flag combinations and reading the operands of the final Cat(*to).eq(Cat(*from)).
    from .. import pyconst
    cats = [n for n in ast.walk(init) if isinstance(n, ast.Call) and isinstance(n.func, ast.Attribute) and n.func.attr == "eq" and
            isinstance(n.func.value, ast.Call) and norm(n.func.value.func) == "Cat" and len(n.args) == 1 and isinstance(n.args[0], ast.Call) and
            norm(n.args[0].func) == "Cat"]
    ctx.ob("S10", STREAM, "Cast", "Cat(*to).eq(Cat(*from)):present", len(cats) == 1, f"{len(cats)} Cat-to-Cat assignments", init)
    if len(cats) == 1:
        base_f, base_t = ["f0", "f1", "f2"], ["t0", "t1", "t2", "t3"]
        for rf in (False, True):
            for rt in (False, True):
                me = pyconst.NS(sink=pyconst.NS(payload=pyconst.NS(flatten=pyconst.Native(lambda: list(base_f)))),
                                source=pyconst.NS(payload=pyconst.NS(flatten=pyconst.Native(lambda: list(base_t)))))
                me.frozen = ("sink", "source")
                it = pyconst.Interp({"self": me, "reverse_from": rf, "reverse_to": rt})
                try:
                    it.run(init.body)
                except Exception as ex:
                    ctx.need(False, f"Cast.__init__ cannot be interpreted: {ex}")

                def operands(call):
                    out = []
                    for a in call.args:
                        v = it.ev(a.value if isinstance(a, ast.Starred) else a)
                        if v is pyconst.UNKNOWN:
                            return None
                        out += list(v) if isinstance(a, ast.Starred) else [v]
                    return out
                to, frm = operands(cats[0].func.value), operands(cats[0].args[0])
                ok = to == (base_t[::-1] if rt else base_t) and frm == (base_f[::-1] if rf else base_f)
                ctx.ob("S10", STREAM, "Cast", f"field order reverse_from={rf}, reverse_to={rt}", ok,
                       "" if ok else f"with reverse_from={rf}, reverse_to={rt} the source fields are taken as {to} and the sink fields as {frm} "
                                     f"(declared order {base_t} / {base_f}): a side is reversed without its flag or not reversed with it -- fields of "
                                     f"different widths pair up from the wrong end", cats[0])
    def _side(e):
        import re as _re
        t = norm(e)
        return _re.sub(r"\b(sigs_from|sigs_to)\b", "S", _re.sub(r"\bself\.(sink|source)\b", "E", _re.sub(r"\breverse_(from|to)\b", "R", t))), \
            bool(_re.search(r"\b(sigs_from|reverse_from)\b|\bself\.sink\b", t)), bool(_re.search(r"\b(sigs_to|reverse_to)\b|\bself\.source\b", t))
    ok = False
    for p in P.feasible_paths(init):
        if p.end != "raise":
            continue
        for t, pol in p.tests_before(len(p.ev)):
            # raise reached with "measure(from side) == measure(to side)" false, the same measure on both sides, counting bits (len)
            if isinstance(t, ast.Compare) and len(t.ops) == 1 and isinstance(t.ops[0], ast.Eq) and not pol:
                (a, af, at), (b, bf, bt) = _side(t.left), _side(t.comparators[0])
                uses_len = "len(" in a or any(isinstance(f, ast.FunctionDef) and f.name in a and "len(" in norm(f) for f in ast.walk(init))
                if a == b and ((af and bt and not at and not bf) or (at and bf and not af and not bt)) and uses_len:
                    ok = True
    ctx.ob("S10", STREAM, "Cast", "width mismatch raises", ok, "" if ok else "the bit-count check vanished", init)
    # ---- BufferizeEndpoints
    fx = FX(ctx, STREAM, cls="BufferizeEndpoints", entries=("transform_instance",))
    cs = {tuple(sorted(p for c, p in c_["pyguards"] if "DIR_SINK" in c)): (norm(c_["conn"].src), norm(c_["conn"].dst)) for c_ in fx.conns}
    ok = cs.get((True,)) == ("buf.source", "getattr(submodule, name)") and cs.get((False,)) == ("getattr(submodule, name)", "buf.sink")
    ctx.ob("S10", STREAM, "BufferizeEndpoints", "sink endpoints fed from buf.source, source endpoints feed buf.sink", ok, "" if ok else f"{cs}")
    ti = m.method("BufferizeEndpoints", "transform_instance")
    sa = [norm(n) for n in ast.walk(ti) if isinstance(n, ast.Call) and norm(n.func) == "setattr"]
    ok = sa == ["setattr(submodule, name, buf.sink)", "setattr(submodule, name, buf.source)"]
    ctx.ob("S10", STREAM, "BufferizeEndpoints", "the buffered endpoint replaces the original one", ok, "" if ok else f"{sa}")


def run_thorough(ctx):
    ctx.rule("SWEEP", "generic S2/S5 over all remaining classes of stream.py (none expected to sample the sink)", min_sites=5)
    done = set(S2_CLASSES)
    m = ctx.mod(STREAM)
    for cls in m.classes:
        if cls in done:
            continue
        fx = fx_of(ctx, STREAM, cls)
        s2_sampling(ctx, "S2", fx, cls)
        s5_omit(ctx, "S5", fx, cls, allow={("Converter", "valid_token_count")})
        ctx.ob("SWEEP", STREAM, cls, "swept", True)
