"""C03 -- stream elements deliver each token exactly once, in order, rightly transformed.

Decided (structural, necessary): S2 sink fields are sampled into state only on valid/accepted tokens;
S3 position/occupancy counters move only on the matching handshake (+ flush/ready dependences);
S5 no endpoint group is dropped by omit sets or hand wiring; S6 fork atomicity (PacketFIFO);
S8 accepted <=> loaded for the single-register elements.  Not decided: lane selection/ordering,
Gearbox arithmetic, Migen FIFO internals."""
import ast
from ..core import AnalysisError, norm
from .. import boolx as B
from .. import q
from ..rules_stream import (STREAM, PACKET, fx_of, s2_sampling, s3_counter, depends, s5_omit, s5_hand, s6_fork,
                            fail_closed, short, under)

EXPLANATION = ("Guarded-assignment IR extracted from the AST of every stream element; sampling guards must entail "
               "sink.valid, counters' guards must entail their handshake (propositional entailment after inlining "
               "1-bit comb definitions), omit sets and hand-wired endpoints are checked for complete forwarding, "
               "acceptance and load enables must be equivalent under sink.valid.")
TECHNIQUE = "AST-extracted FHDL IR + guard entailment/equivalence + wiring-completeness (def-use) rules"

HIN = "self.sink.valid & self.sink.ready"
HOUT = "self.source.valid & self.source.ready"

S2_CLASSES = ["PipeValid", "PipeReady", "PipelinedActor", "Shifter", "_UpConverter", "Pack", "StrideConverter",
              "Gearbox"]

COUNTERS = [
    # class, counter, handshake
    ("_UpConverter", "demux", HIN),
    ("Pack", "demux", HIN),
    ("_DownConverter", "mux", HOUT),
    ("Unpack", "mux", HOUT),
    ("Gearbox", "i_count", HIN),
    ("Gearbox", "o_count", HOUT),
    ("Gearbox", "level", f"({HIN}) | ({HOUT})"),
]


def run(ctx):
    ctx.rule("S2", "a sink data field (payload/param/first/last) reaches a sync target only under a guard that entails "
                   "sink.valid, or ANDed with sink.valid, or together with sink.valid under the same guard", min_sites=20)
    ctx.rule("S3", "position/occupancy counters move only under guards that entail their handshake; flush and ready "
                   "dependences present", min_sites=25)
    ctx.rule("S5", "every group omitted from a stream connect is driven explicitly; hand-wired endpoints forward all "
                   "groups", min_sites=25)
    ctx.rule("S6", "fork: sink.ready implies each sub-sink ready; each sub-sink valid entails sink.valid and the other "
                   "sub-sinks' ready (push iff accepted)", min_sites=6)
    ctx.rule("S8", "accepted <=> loaded: under sink.valid the sink.ready formula and the load enable coincide",
             min_sites=5)

    # ---- S2
    for cls in S2_CLASSES:
        fx = fx_of(ctx, STREAM, cls)
        fail_closed(ctx, fx, cls)
        n = s2_sampling(ctx, "S2", fx, cls)
        ctx.need(n > 0, f"S2: {cls} no longer samples its sink into state (instance table stale)")

    # ---- S3
    for cls, counter, hs in COUNTERS:
        fx = fx_of(ctx, STREAM, cls)
        fail_closed(ctx, fx, cls)
        s3_counter(ctx, "S3", fx, cls, counter, hs)
    # Gearbox level: exact delta <-> handshake correspondence and exhaustiveness
    fx = fx_of(ctx, STREAM, "Gearbox")
    inl = q.Inliner(fx)
    Hin, Hout = inl.inline(B.from_expr(HIN)), inl.inline(B.from_expr(HOUT))
    cover = B.F
    for a in fx.find(domain="sync", target="level"):
        G = q.gformula(fx, a)
        cover = B.Or(cover, G)
        v = ast.parse(a.v, mode="eval").body
        plus = any(isinstance(n, ast.BinOp) and isinstance(n.op, ast.Add) and norm(n.right) == "i_dw" for n in ast.walk(v))
        minus = any(isinstance(n, ast.BinOp) and isinstance(n.op, ast.Sub) and norm(n.right) == "o_dw" for n in ast.walk(v))
        need = B.And(Hin if plus else B.Not(Hin), Hout if minus else B.Not(Hout))
        ok = B.entails(G, need)
        ctx.ob("S3", STREAM, "Gearbox", f"level delta {'+i' if plus else ''}{'-o' if minus else ''}", ok,
               "" if ok else f"level <= {a.v} under {B.show(G)}: delta does not match the handshakes that occur", a.line)
    ok = B.equivalent(cover, B.Or(Hin, Hout))
    ctx.ob("S3", STREAM, "Gearbox", "level updated on every handshake", ok,
           "" if ok else f"level updates under {B.show(cover)} which is not equivalent to H_in | H_out")
    # flush on early last / ready structure
    for cls in ("_UpConverter", "Pack"):
        fx = fx_of(ctx, STREAM, cls)
        sets = [a for a in fx.find(domain="sync", target="strobe_all") if a.v == "1"]
        ctx.ob("S3", STREAM, cls, "strobe_all set:present", bool(sets), "strobe_all is never set", 0)
        for a in sets:
            G = q.gformula(fx, a)
            for at in ("self.sink.last", "self.sink.valid"):
                ok = B.depends_on(G, at)
                ctx.ob("S3", STREAM, cls, f"strobe_all set depends on {at}", ok,
                       "" if ok else f"word completion guard {B.show(G)} ignores {at} (partial word is not flushed on an "
                                     f"early last)", a.line)
        vt = fx.find(domain="sync", target="self.source.valid_token_count")
        if cls == "_UpConverter":
            ok = bool(vt) and all(a.v in ("demux + 1", "1 + demux") for a in vt)
            ctx.ob("S3", STREAM, cls, "valid_token_count <= demux + 1", ok,
                   "" if ok else "valid_token_count does not report demux + 1", vt[0].line if vt else 0)
    for cls, last_atom in (("_DownConverter", "mux == ratio - 1"), ("Unpack", "mux == n - 1")):
        fx = fx_of(ctx, STREAM, cls)
        inl = q.Inliner(fx)
        fr = inl.formula_of_path("self.sink.ready")
        ctx.need(fr is not None, f"{cls}.sink.ready not comb driven")
        ats = B.atoms(fr)
        lastat = [a for a in ats if a.startswith("mux == ")]
        ok = B.depends_on(fr, "self.source.ready") and len(lastat) == 1 and B.depends_on(fr, lastat[0])
        ctx.ob("S3", STREAM, cls, "sink.ready = last & source.ready", ok and B.entails(fr, B.A("self.source.ready")),
               "" if ok else f"sink.ready = {B.show(fr)}: the wide word must be released exactly with its last chunk")
        # the mux wraps exactly at the terminal count used for `last`
        wraps = [a for a in fx.find(domain="sync", target="mux") if a.v == "0"]
        for a in wraps:
            G = q.gformula(fx, a)
            ok = bool(lastat) and B.entails(G, B.A(lastat[0]))
            ctx.ob("S3", STREAM, cls, "mux wraps on last", ok, "" if ok else f"mux reset under {B.show(G)}", a.line)

    # ---- S8
    for cls, loadreg in (("PipeValid", "self.source.valid"), ("PipelinedActor", "valid_n"), ("_UpConverter", None),
                         ("Pack", None), ("PipeReady", None)):
        fx = fx_of(ctx, STREAM, cls)
        inl = q.Inliner(fx)
        fr = inl.formula_of_path("self.sink.ready")
        ctx.need(fr is not None, f"S8: {cls}.sink.ready not comb-driven")
        Vs = B.A("self.sink.valid")
        if loadreg is not None:
            loads = fx.find(domain="sync", target=loadreg)
            ctx.need(bool(loads), f"S8: {cls}.{loadreg} has no sync driver")
            G = B.Or(*[q.gformula(fx, a) for a in loads])
            ok = B.equivalent(B.And(Vs, fr), B.And(Vs, G))
            ctx.ob("S8", STREAM, cls, "sink.ready <=> load enable", ok,
                   "" if ok else f"sink.ready = {B.show(fr)} but the register loads under {B.show(G)}: a token can be "
                                 f"accepted and not stored, or stored and not accepted")
        elif cls in ("_UpConverter", "Pack"):
            lp = inl.formula_of_path("load_part")
            ok = lp is not None and B.equivalent(lp, B.And(Vs, fr))
            ctx.ob("S8", STREAM, cls, "load_part == sink.valid & sink.ready", ok,
                   "" if ok else f"load_part = {B.show(lp) if lp else '?'} is not the sink handshake")
            # every data/param load is under load_part
            for a in fx.find(domain="sync"):
                if under(a.t, "self.source") and any(under(p, "self.sink") for p in q.paths(a.value)):
                    G = q.gformula(fx, a)
                    ok = B.entails(G, B.And(Vs, fr))
                    ctx.ob("S8", STREAM, cls, f"load {short(a.t, 40)} => accepted", ok,
                           "" if ok else f"{a.t} loads under {B.show(G)} without the sink handshake", a.line)
        else:   # PipeReady
            loads = fx.find(domain="sync", target="sink_d")
            G = B.Or(*[q.gformula(fx, a) for a in loads]) if loads else B.F
            ok = B.entails(B.And(Vs, fr), B.Or(B.A("self.source.ready"), G))
            ctx.ob("S8", STREAM, cls, "accepted => forwarded or stored", ok,
                   "" if ok else f"a token accepted while source.ready=0 is not stored (load guard {B.show(G)})")

    # ---- S5 wiring
    for cls in ("PipeReady", "Converter", "ClockDomainCrossing", "Gate", "Multiplexer", "Demultiplexer", "_IdentityConverter"):
        fx = fx_of(ctx, STREAM, cls)
        fail_closed(ctx, fx, cls)
        s5_omit(ctx, "S5", fx, cls, allow={("Converter", "valid_token_count"),
                                           # the internal skid record has no back-pressure input of its own
                                           ("PipeReady", "sink_d", "ready")})
    # PipeReady: the omitted ready must be sink.ready (explicit), checked by S1p in C04; here: omit sets are exactly {ready}
    fx = fx_of(ctx, STREAM, "PipeReady")
    for c in fx.conns:
        om = norm(c["conn"].omit) if c["conn"].omit is not None else ""
        ok = om in ("{'ready'}", "set(['ready'])", "['ready']")
        ctx.ob("S5", STREAM, "PipeReady", f"omit set of {norm(c['conn'].src)}->{norm(c['conn'].dst)}", ok,
               "" if ok else f"omit set {om} drops more than ready", c["node"])
    fxp = fx_of(ctx, PACKET, "PacketFIFO")
    fail_closed(ctx, fxp, "PacketFIFO")
    s5_omit(ctx, "S5", fxp, "PacketFIFO", allow={("PacketFIFO", "dummy")})
    s5_hand(ctx, "S5", fx_of(ctx, STREAM, "CombinatorialActor"), "CombinatorialActor",
            [("self.source.valid", "self.sink.valid"), ("self.source.first", "self.sink.first"),
             ("self.source.last", "self.sink.last"), ("self.sink.ready", "self.source.ready")])
    s5_hand(ctx, "S5", fx_of(ctx, STREAM, "StrideConverter"), "StrideConverter",
            [("converter.sink.valid", "self.sink.valid"), ("converter.sink.first", "self.sink.first"),
             ("converter.sink.last", "self.sink.last"), ("self.sink.ready", "converter.sink.ready"),
             ("converter.sink.data", "self.sink"),
             ("self.source.valid", "converter.source.valid"), ("self.source.first", "converter.source.first"),
             ("self.source.last", "converter.source.last"), ("converter.source.ready", "self.source.ready"),
             ("self.source.param", "self.sink.param")])
    s5_hand(ctx, "S5", fx_of(ctx, STREAM, "_FIFOWrapper"), "_FIFOWrapper",
            [("self.sink.ready", "self.fifo.writable"), ("self.fifo.we", "self.sink.valid"), ("fifo_in.first", "self.sink.first"),
             ("fifo_in.last", "self.sink.last"), ("fifo_in.payload", "self.sink.payload"),
             ("fifo_in.param", "self.sink.param"), ("self.fifo.din", "fifo_in"), ("fifo_out.raw_bits()", "self.fifo.dout"),
             ("self.source.valid", "self.fifo.readable"), ("self.source.first", "fifo_out.first"),
             ("self.source.last", "fifo_out.last"), ("self.source.payload", "fifo_out.payload"),
             ("self.source.param", "fifo_out.param"), ("self.fifo.re", "self.source.ready")])
    for cls, tab in (("_DownConverter", [("self.source.valid", "self.sink.valid"), ("self.source.first", "self.sink.first"),
                                         ("self.source.last", "self.sink.last"), ("self.source.data", "self.sink.data")]),
                     ("Unpack", [("self.source.valid", "self.sink.valid"), ("self.source.first", "self.sink.first"),
                                 ("self.source.last", "self.sink.last"), ("self.source.payload", "self.sink.payload"),
                                 ("self.source", "self.sink")])):
        s5_hand(ctx, "S5", fx_of(ctx, STREAM, cls), cls, tab)
    # first/last qualification of the down-converters: first only with the first chunk, last only with the last
    for cls in ("_DownConverter", "Unpack"):
        fx = fx_of(ctx, STREAM, cls)
        inl = q.Inliner(fx)
        for fld, at0 in (("first", "mux == 0"), ("last", None)):
            f = inl.formula_of_path(f"self.source.{fld}")
            ctx.need(f is not None, f"{cls}.source.{fld} not comb-driven")
            ats = [a for a in B.atoms(f) if a.startswith("mux == ")]
            ok = len(ats) == 1 and B.entails(f, B.A(ats[0])) and B.entails(f, B.A(f"self.sink.{fld}")) and \
                (at0 is None or ats[0] == at0)
            ctx.ob("S5", STREAM, cls, f"source.{fld} = sink.{fld} & {fld}-chunk", ok,
                   "" if ok else f"source.{fld} = {B.show(f)}: the marker is duplicated on every chunk or lost")

    # ---- S6 fork atomicity
    s6_fork(ctx, "S6", fxp, "PacketFIFO", "self.sink", ["self.param_fifo.sink", "self.payload_fifo.sink"])


def run_thorough(ctx):
    ctx.rule("SWEEP", "generic S2/S5 over all remaining classes of stream.py (none expected to sample the sink)", min_sites=5)
    done = set(S2_CLASSES)
    m = ctx.mod(STREAM)
    for cls in m.classes:
        if cls in done:
            continue
        fx = fx_of(ctx, STREAM, cls)
        s2_sampling(ctx, "S2", fx, cls)
        s5_omit(ctx, "S5", fx, cls, allow={("Converter", "valid_token_count")})
        ctx.ob("SWEEP", STREAM, cls, "swept", True)
