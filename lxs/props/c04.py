"""C04 -- stream elements keep the handshake contract and never stall forever.

Decided (structural, necessary conditions): S1 registered source fields change only when
~valid|ready; S1' PipeReady skid obligations; S4 FSM states that assert valid leave only on ready;
S7 FSM no-trap; S9 an empty element accepts; PRIO no dead driver.  Not decided: deadlock freedom
of compositions."""
from ..core import AnalysisError
from .. import boolx as B
from .. import q
from ..rules_stream import (STREAM, PACKET, fx_of, s1_stability, s1_held_comb, s4_hold, fsm_sanity, prio, fail_closed, short)

EXPLANATION = ("Guarded-assignment IR extracted from the AST of every stream/packet element; each registered "
               "source field's guard must entail ~valid|ready (propositional entailment over the guard atoms, "
               "after inlining 1-bit comb definitions); FSM exit guards must entail ~valid|ready for every valid "
               "asserted in the state; FSM graphs checked for trap states over all Python-level configurations.")
TECHNIQUE = "AST-extracted FHDL IR + guard entailment (truth table) + FSM graph reachability"

S1_CLASSES = [
    # class, alt handshake (expression text) accepted instead of ~V|R, reason
    ("PipeValid", None, ""),
    ("_UpConverter", None, ""),
    ("Pack", None, ""),
    ("PipelinedActor", None, ""),
    ("Shifter", None, ""),
    ("StrideConverter", "self.sink.valid & self.sink.ready",
     "param register shadows the latency-1 converter, whose sink.ready = ~strobe_all|source.ready is in another class"),
]


def run(ctx):
    ctx.rule("S1", "every sync assignment to a source field (not ready), or to a register that is source.valid, "
                   "has a guard that entails ~source.valid | source.ready", min_sites=28)
    ctx.rule("S1p", "PipeReady skid register: sink_d loaded only when the flag is clear; flag cleared only on "
                    "source.ready; flag set only under sink.valid & ~source.ready and then sink_d is loaded; output mux "
                    "selects sink_d iff flag", min_sites=7)
    ctx.rule("S4", "for every FSM state S, valid v asserted in S and transition out of S under G: G => ~F_v | ready_v",
             min_sites=8)
    ctx.rule("S7", "every FSM: all targets defined, all states reachable from reset, reset reachable from every state "
                   "(no trap), for every valuation of the Python-level conditions in the FSM", min_sites=2)
    ctx.rule("S9", "an empty element accepts: ~(source.valid formula) entails the sink.ready formula", min_sites=5)
    ctx.rule("S11", "Gearbox level thresholds and the position counters of the converters keep their register inside its declared range 0..max-1 (linear forms over "
                    "the positive widths): an overflow wraps the level, source.valid drops while the consumer stalls", min_sites=6)
    ctx.rule("S12", "Gearbox thresholds cannot block both sides: sink.ready = level < Tr, source.valid = level >= Tv with "
                    "Tr >= Tv, from io_lcm >= 2*i_dw and io_lcm >= 2*o_dw (the two doubling statements); the level only "
                    "decreases on a source handshake (valid is not withdrawn)", min_sites=7)
    ctx.rule("S14", "PacketFIFO progress: the payload store is as deep as promised and the parameter store one deeper than requested -- "
                    "a payload store shallower than a packet dead-locks (last beat refused while nothing can be released)", min_sites=4)
    ctx.rule("S13", "FIFO wrapper: every source field (valid, payload, param, first, last) is a function of the FIFO output side only "
                    "-- no combinational path from the sink's lines (a stored token must not change while it waits)", min_sites=5)
    ctx.rule("PRIO", "no assignment is made dead by a later unconditional assignment to the same target in the same "
                     "scope", min_sites=5)

    for cls, alt, why in S1_CLASSES:
        fx = fx_of(ctx, STREAM, cls)
        fail_closed(ctx, fx, cls)
        n = s1_stability(ctx, "S1", fx, cls, alt=B.from_expr(alt) if alt else None, alt_reason=why)
        ctx.need(n > 0, f"S1: {cls} has no registered source field any more (instance table stale)")
        s1_held_comb(ctx, "S1", fx, cls)
        prio(ctx, "PRIO", fx, cls)

    # ---- S1 (selectors): source data assembled combinationally from registers (a word mux, an unpack index, a shift position): the
    # registers hold while the token waits.  Gearbox is not in this list: its shift register is written at one position while another
    # is read (decided separately by S11/S12 on the level arithmetic).
    from ..rules_stream import s1_held_selectors
    for cls in ("_DownConverter", "Unpack", "Shifter", "PipelinedActor"):
        fx = fx_of(ctx, STREAM, cls)
        n = s1_held_selectors(ctx, "S1", fx, cls)
        ctx.need(n > 0, f"S1: {cls} has no register behind its source data any more (instance table stale)")

    # ---- S1 on the packet arbiter: the offered beat is the granted master's, so the grant must not move while a beat waits.  The
    # round-robin re-arbitrates when the granted master's request (Status.ongoing) drops: a master that offers a beat nobody took
    # keeps requesting, and the end-of-packet strobe (which drops the request) needs the beat to be taken.
    fxs = fx_of(ctx, PACKET, "Status")
    inl = q.Inliner(fxs)
    fo = inl.formula_of_path("self.ongoing")
    waiting = B.from_expr("endpoint.valid & ~endpoint.ready")
    ok = fo is not None and B.entails(waiting, fo)
    ctx.ob("S1", PACKET, "Status", "a master whose beat waits (valid & ~ready) keeps requesting", ok,
           "" if ok else f"ongoing = {B.show(fo) if fo is not None else '?'} can be low while endpoint.valid & ~endpoint.ready (e.g. "
                         f"{B.counterexample(waiting, fo) if fo is not None else ''}): the arbiter moves the grant away and the beat offered on its output "
                         f"changes before it is taken; the abandoned beat never requests again")
    fl = inl.formula_of_path("self.last")
    ok = fl is not None and B.entails(fl, B.from_expr("endpoint.valid & endpoint.ready"))
    ctx.ob("S1", PACKET, "Status", "end-of-packet strobe only with the beat handed over", ok,
           "" if ok else f"last = {B.show(fl) if fl is not None else '?'}")

    # ---- S9 empty accepts
    for cls in ("PipeValid", "_UpConverter", "Pack", "PipelinedActor", "PipeReady"):
        fx = fx_of(ctx, STREAM, cls)
        inl = q.Inliner(fx)
        fr = inl.formula_of_path("self.sink.ready")
        ctx.need(fr is not None, f"S9: {cls}.sink.ready is not comb-driven (instance table stale)")
        if cls == "PipeReady":
            empty = B.Not(B.A("valid"))
        else:
            fv = inl.formula_of_path("self.source.valid")
            if fv is None:
                ctx.need(bool(fx.find(domain="sync", target="self.source.valid")),
                         f"S9: {cls}.source.valid is neither comb- nor sync-driven")
                fv = B.A("self.source.valid")
            empty = B.Not(fv)
        ok = B.entails(empty, fr)
        ctx.ob("S9", STREAM, cls, "empty=>sink.ready", ok,
               "" if ok else f"when the element is empty ({B.show(empty)}) sink.ready = {B.show(fr)} can be low: nothing "
                             f"can ever change its state -> dead-lock")

    # ---- Gearbox thresholds
    _gearbox(ctx)

    # ---- S14 PacketFIFO store geometry (progress)
    from ..rules_stream import packetfifo_geometry
    packetfifo_geometry(ctx, "S14")

    # ---- S13 stored tokens are presented from the store
    fx = fx_of(ctx, STREAM, "_FIFOWrapper")
    fail_closed(ctx, fx, "_FIFOWrapper")
    for fld in ("payload", "param", "first", "last", "valid"):
        drv = fx.find(domain="comb", target=f"self.source.{fld}")
        clos = set()
        for a in drv:
            clos |= q.comb_closure(fx, a.value, context=a)
        leak = sorted(p for p in clos if p == "self.sink" or p.startswith("self.sink."))
        ok = bool(drv) and not leak
        ctx.ob("S13", STREAM, "_FIFOWrapper", f"source.{fld} comes from the FIFO output only", ok,
               "" if ok else (f"source.{fld} depends combinationally on {leak}: while the consumer stalls the presented {fld} follows the "
                              f"producer's lines instead of the stored token" if drv else f"source.{fld} is not driven"), drv[0].line if drv else 0)

    # ---- S1' PipeReady
    fx = fx_of(ctx, STREAM, "PipeReady")
    fail_closed(ctx, fx, "PipeReady")
    prio(ctx, "PRIO", fx, "PipeReady")
    loads = fx.find(domain="sync", target="sink_d")
    ctx.ob("S1p", STREAM, "PipeReady", "sink_d:present", bool(loads), "skid register sink_d is no longer loaded", 0)
    Gload = B.F
    for a in loads:
        G = q.gformula(fx, a)
        Gload = B.Or(Gload, G)
        ok = B.entails(G, B.Not(B.A("valid")))
        ctx.ob("S1p", STREAM, "PipeReady", "sink_d load => ~valid", ok,
               "" if ok else f"sink_d is overwritten under {B.show(G)} while it holds a token (valid=1)", a.line)
        ok = a.v == "self.sink"
        ctx.ob("S1p", STREAM, "PipeReady", "sink_d <= whole sink record", ok,
               "" if ok else f"sink_d loads `{a.v}`, not the whole sink record", a.line)
    sets = [a for a in fx.find(domain="sync", target="valid")]
    ctx.ob("S1p", STREAM, "PipeReady", "valid:present", len(sets) >= 2, "flag `valid` needs a set and a clear driver", 0)
    for a in sets:
        G = q.gformula(fx, a)
        if a.v == "0":
            ok = B.entails(G, B.A("self.source.ready"))
            ctx.ob("S1p", STREAM, "PipeReady", "valid clear => source.ready", ok,
                   "" if ok else f"flag cleared under {B.show(G)} without source.ready: the held token is dropped", a.line)
        elif a.v == "1":
            need = B.from_expr("self.sink.valid & ~self.source.ready")
            ok = B.entails(G, need)
            ctx.ob("S1p", STREAM, "PipeReady", "valid set => sink.valid & ~source.ready", ok,
                   "" if ok else f"flag set under {B.show(G)}", a.line)
            ok = B.entails(B.And(G, B.Not(B.A("valid"))), Gload)
            ctx.ob("S1p", STREAM, "PipeReady", "valid set & empty => sink_d loaded", ok,
                   "" if ok else f"flag can be set ({B.show(G)}) in a cycle in which sink_d is not loaded ({B.show(Gload)})",
                   a.line)
        else:
            ctx.ob("S1p", STREAM, "PipeReady", f"valid <= {short(a.v, 30)}", False, "unexpected driver of the flag", a.line)
    # output mux
    sel = {}
    for c in fx.conns:
        k = c["conn"]
        from ..core import norm
        sel[(norm(k.src), norm(k.dst))] = c
    c1 = sel.get(("sink_d", "self.source"))
    c2 = sel.get(("self.sink", "self.source"))
    ok = c1 is not None and c2 is not None
    if ok:
        g1, g2 = B.guard_formula(c1["guards"]), B.guard_formula(c2["guards"])
        ok = B.equivalent(g1, B.A("valid")) and B.equivalent(g2, B.Not(B.A("valid")))
    ctx.ob("S1p", STREAM, "PipeReady", "mux: sink_d iff valid", ok,
           "" if ok else "source is not muxed from sink_d exactly when the flag is set")
    fr = q.Inliner(fx).formula_of_path("self.sink.ready")
    ok = fr is not None and B.equivalent(fr, B.Not(B.A("valid")))
    ctx.ob("S1p", STREAM, "PipeReady", "sink.ready == ~valid", ok, "" if ok else "sink.ready is not ~valid")

    # ---- S4 / S7 on packet FSMs (anchors: packet.py)
    for cls in ("Packetizer", "Depacketizer"):
        fx = fx_of(ctx, PACKET, cls)
        fail_closed(ctx, fx, cls)
        ctx.need(len(fx.fsms) == 1, f"{cls}: expected exactly one FSM, found {len(fx.fsms)}")
        info = list(fx.fsms.values())[0]
        s4_hold(ctx, "S4", fx, cls, info, [("self.source.valid", "self.source.ready")])
        fsm_sanity(ctx, "S7", fx, cls)
        prio(ctx, "PRIO", fx, cls)
        s1_stability(ctx, "S1", fx, cls)   # no registered source field today; armed if one appears
        # the beat on the source is assembled from registers (sr, sink_d, fsm_from_idle): they hold while it waits.  Depacketizer: a
        # packet that ends inside its own header (sink_d.last while the header leftover is still being fetched) is outside the domain
        from ..rules_stream import s1_held_selectors
        n_sel = s1_held_selectors(ctx, "S1", fx, cls, assume=None if cls == "Packetizer" else B.Not(B.from_expr("fsm_from_idle & sink_d.last")))
        ctx.ob("S1", PACKET, cls, "held token: registers behind the offered beat:present", n_sel >= (5 if cls == "Packetizer" else 1),
               f"only {n_sel} register updates found behind source data", 0)


def _lower_bounds(e):
    """Lower bounds (linear forms) of the Python integer expression `e`, from its shape:
    lcm(a, b) >= a, b;  `E*2 if E//d < 2 else E`  >= 2*d when E is a positive multiple of d (d among E's bounds), and >= E."""
    import ast
    from ..core import norm
    from .. import lin
    if isinstance(e, ast.Call) and norm(e.func) == "lcm" and len(e.args) == 2:
        return [lin.linform(a) for a in e.args], {norm(a) for a in e.args}
    if isinstance(e, ast.IfExp) and isinstance(e.test, ast.Compare) and len(e.test.ops) == 1 and isinstance(e.test.ops[0], ast.Lt) \
            and norm(e.test.comparators[0]) == "2" and isinstance(e.test.left, ast.BinOp) and isinstance(e.test.left.op, ast.FloorDiv):
        E, d = e.test.left.left, e.test.left.right
        dbl = e.body
        is_dbl = isinstance(dbl, ast.BinOp) and isinstance(dbl.op, ast.Mult) and \
            ((norm(dbl.left) == norm(E) and norm(dbl.right) == "2") or (norm(dbl.right) == norm(E) and norm(dbl.left) == "2"))
        if is_dbl and norm(e.orelse) == norm(E):
            lbs, mult = _lower_bounds(E)
            out = list(lbs)
            if norm(d) in mult:          # E is a positive multiple of d: E//d < 2  <=>  E == d
                out.append(lin.scale(lin.linform(d), 2))
            return out, mult
    return [], set()


def _gearbox(ctx):
    import ast
    from ..core import norm
    from .. import lin
    from ..rules_stream import s_range
    fx = fx_of(ctx, STREAM, "Gearbox")
    fail_closed(ctx, fx, "Gearbox")
    s_range(ctx, "S11", fx, "Gearbox", "level")
    ctx.rule("S15", "packet.Arbiter: the grant follows the masters' packet status combinationally -- request[i] is a comb copy of "
                    "Status(masters[i]).ongoing; a registered request lets the grant move under a beat that is being offered", min_sites=2)
    from .c16 import arbiter_requests
    arbiter_requests(ctx, "S15")
    ctx.rule("S16", "stream.ClockDomainCrossing: every clocked stage runs in the domain of the stream it carries (same-domain buffer renamed "
                    "onto cd_from, FIFO sides onto cd_from / cd_to): a buffer register clocked by `sys` under a stream of another domain "
                    "changes the offered token while valid & ~ready", min_sites=3)
    from .c05 import crossing_stage_domains
    crossing_stage_domains(ctx, "S16")
    from ..share import lift
    lift(ctx, "c16", [("P3", "Dispatcher", "default arm drains"), ("P3", "Dispatcher", "master connected to slaves")], "S18",
         "packet.Dispatcher never blocks its producer on a selector that names no slave: the default arm drains (master.ready = 1) and "
         "each slave is connected under its own selector value (C16.P3 decides the same construct)", min_sites=2)
    # position counters wrap explicitly at their last value and the declared width holds that value for every ratio: a counter that
    # cannot reach ratio - 1 never completes a word -- the sink is never accepted again (livelock), whatever producer and consumer do
    for cls_, reg_ in (("_UpConverter", "demux"), ("_DownConverter", "mux"), ("Pack", "demux"), ("Unpack", "mux"),
                       ("Gearbox", "i_count"), ("Gearbox", "o_count")):
        s_range(ctx, "S11", fx_of(ctx, STREAM, cls_), cls_, reg_)
    rd = fx.find(domain="comb", target="self.sink.ready")
    vd = fx.find(domain="comb", target="self.source.valid")
    ok = len(rd) == 1 and len(vd) == 1 and not rd[0].guards and not vd[0].guards
    ctx.ob("S12", STREAM, "Gearbox", "sink.ready / source.valid: one unconditional comb driver each", ok, "" if ok else "drivers changed", 0)
    if not ok:
        return

    def thr(node, want):     # -> linear threshold T with  expr <=> level >= T (want '>=') or level < T (want '<')
        if not (isinstance(node, ast.Compare) and len(node.ops) == 1):
            return None
        op, l, r = type(node.ops[0]), node.left, node.comparators[0]
        if norm(r) == "level":
            l, r = r, l
            op = {ast.Lt: ast.Gt, ast.LtE: ast.GtE, ast.Gt: ast.Lt, ast.GtE: ast.LtE}.get(op)
        if norm(l) != "level":
            return None
        T = lin.linform(r)
        if want == "<":
            return T if op is ast.Lt else (lin.add(T, lin.const(1)) if op is ast.LtE else None)
        return T if op is ast.GtE else (lin.add(T, lin.const(1)) if op is ast.Gt else None)
    Tr, Tv = thr(rd[0].value, "<"), thr(vd[0].value, ">=")
    ok = Tr is not None and Tv is not None
    ctx.ob("S12", STREAM, "Gearbox", "thresholds are comparisons of level", ok,
           "" if ok else f"sink.ready = {rd[0].v[:60]}, source.valid = {vd[0].v[:60]}", rd[0].line)
    if not ok:
        return
    M = None
    for k in fx.decl["level"][1].keywords:
        if k.arg == "max":
            M = k.value
    lbs, _ = _lower_bounds(M) if M is not None else ([], set())
    Mf = lin.linform(M) if M is not None else {}
    facts = [lin.sub(Mf, lb) for lb in lbs]          # each >= 0
    ctx.ob("S12", STREAM, "Gearbox", "buffer size >= 2*i_dw and >= 2*o_dw", any(lin.show(lb) == "2*i_dw" for lb in lbs) and
           any(lin.show(lb) == "2*o_dw" for lb in lbs), f"lower bounds derived from the shape of io_lcm: {[lin.show(x) for x in lbs]}: with a "
           f"single-word buffer sink.ready (level < io_lcm - i_dw) is never true", 0)
    need = lin.sub(Tr, Tv)       # must be >= 0
    found = lin.sign(need) in (0, 1)
    import itertools
    for kN in (1, 2):
        for cs in itertools.product((0, 1, 2), repeat=len(facts)):
            rest = lin.scale(need, kN)
            for c, f in zip(cs, facts):
                rest = lin.sub(rest, lin.scale(f, c))
            if lin.sign(rest) in (0, 1):
                found = True
    ctx.ob("S12", STREAM, "Gearbox", "never both not-ready and not-valid (Tr >= Tv)", found,
           "" if found else f"sink.ready <=> level < {lin.show(Tr)} and source.valid <=> level >= {lin.show(Tv)}: a level in "
                            f"[{lin.show(Tr)}, {lin.show(Tv)}) refuses input and offers no output for ever", rd[0].line)
    inl = q.Inliner(fx)
    Hout = inl.inline(B.from_expr("self.source.valid & self.source.ready"))
    n = 0
    for a in fx.find(domain="sync", target="level"):
        d = lin.sub(lin.linform(a.value), {"level": 1})
        if any(c < 0 for c in d.values()):
            n += 1
            G = q.gformula(fx, a)
            ok = B.entails(G, Hout)
            ctx.ob("S12", STREAM, "Gearbox", f"level {lin.show(d)} only on a source handshake", ok,
                   "" if ok else f"level decreases under {B.show(G)}: source.valid can drop while the consumer stalls", a.line)
    ctx.ob("S12", STREAM, "Gearbox", "level decrements:present", n >= 2, f"{n} decrementing updates", 0)


def run_thorough(ctx):
    """Sweep S1/PRIO/S7 over every class of stream.py and packet.py not in the instance table."""
    from ..core import norm
    done = {c for c, _, _ in S1_CLASSES} | {"PipeReady", "Packetizer", "Depacketizer"}
    ctx.rule("SWEEP", "generic S1/S7/PRIO over all remaining classes of stream.py and packet.py (triaged: none expected)",
             min_sites=10)
    for rel in (STREAM, PACKET):
        m = ctx.mod(rel)
        for cls in m.classes:
            if cls in done:
                continue
            fx = fx_of(ctx, rel, cls)
            has_src = any(a.t.startswith("self.source") for a in fx.find(domain="sync"))
            if has_src:
                s1_stability(ctx, "S1", fx, cls)
            if fx.fsms:
                fsm_sanity(ctx, "S7", fx, cls)
            prio(ctx, "PRIO", fx, cls)
            ctx.ob("SWEEP", rel, cls, "swept", True)
