"""C05 -- clock-domain crossings never corrupt, drop, duplicate or reorder data.

Decided (structural, necessary; classic CDC lint on the extracted IR): X1 no bypass -- in the
different-domain configuration every path from the producer-side endpoint to the consumer-side endpoint
passes through a synchroniser primitive, and no statement of one domain reads a signal typed in another;
X2 orientation of every AsyncFIFO / ClockDomainCrossing (write = producer domain, read = consumer domain);
X3 BusSynchronizer hand-shake skeleton (extra request flop, hold-while-sampled, time-out in idomain);
X4 common-reset wiring.  Not decided: Gray pointers and flop resolution inside Migen's AsyncFIFO, the
time-out / round-trip ratio."""
import ast
from ..core import AnalysisError, norm, const_fold
from ..fx import FX
from .. import boolx as B
from .. import q
from .. import pathx as P
from ..dom import Domains
from ..rules_stream import fx_of, fail_closed, short

STREAM = "litex/soc/interconnect/stream.py"
CDC = "litex/gen/genlib/cdc.py"
AL = "litex/soc/interconnect/axi/axi_lite.py"
UART = "litex/soc/cores/uart.py"

EXPLANATION = ("Clock-domain typing of the extracted IR (registers by their sync domain, synchroniser outputs by their "
               "summaries and instantiation arguments, comb signals by the union of their supports) checked per "
               "Python-level configuration; endpoint connectivity graphs in the different-domain configuration (producer must "
               "not reach consumer without a crossing edge); orientation of the renamer dictionaries and crossing arguments.")
TECHNIQUE = "clock-domain typing + endpoint reachability without crossing edges + instantiation-argument rules"

CROSSERS = {"stream.ClockDomainCrossing", "ClockDomainCrossing", "AsyncFIFO", "stream.AsyncFIFO"}


def _graph(fx, pyctx):
    """edges between endpoints in the configuration; crossing edges flagged."""
    edges = []
    for c in fx.conns:
        if not q.compatible(c["pyguards"], pyctx):
            continue
        edges.append((norm(c["conn"].src), norm(c["conn"].dst), False))
    ENDF = ("valid", "ready", "first", "last", "payload", "param", "data")
    for a in fx.assigns:
        if a.kind != "eq" or not q.compatible(a.pyguards, pyctx):
            continue
        for p in q.paths(a.value):
            for f in ENDF:
                if a.t.endswith("." + f) and p.endswith("." + f) and f != "ready":
                    edges.append((p[:-len(f) - 1], a.t[:-len(f) - 1], False))
    for i in fx.insts:
        if i.cls in CROSSERS and q.compatible(i.pyguards, pyctx):
            edges.append((i.name + ".sink", i.name + ".source", True))
    return edges


def _reach(edges, src, dst, allow_cross):
    seen = {src}
    todo = [src]
    while todo:
        x = todo.pop()
        for a, b, cross in edges:
            if a == x and (allow_cross or not cross) and b not in seen:
                seen.add(b)
                todo.append(b)
    return dst in seen


def _x1_graph(ctx, rel, cls, fx, pyctx, pairs):
    edges = _graph(fx, pyctx)
    for prod, cons in pairs:
        with_ = _reach(edges, prod, cons, True)
        without = _reach(edges, prod, cons, False)
        ok = with_ and not without
        ctx.ob("X1", rel, cls, f"{prod} -> {cons} only through a crossing", ok,
               "" if ok else (f"`{prod}` reaches `{cons}` without passing a clock-domain crossing in the different-domain configuration"
                              if without else f"`{prod}` does not reach `{cons}` at all"))


def _x1_types(ctx, rel, cls, fx, pyctx, equal, tag):
    d = Domains(fx, pyctx, equal)
    v = d.violations()
    seen = set()
    for kind, reader, dom, path, tps, node in v:
        key = (reader, path)
        if key in seen:
            continue
        seen.add(key)
        ctx.ob("X1", rel, cls, f"{tag}: {short(reader, 40)} reads {short(path, 40)}", False,
               f"`{reader}` ({kind}, domain {dom}) reads `{path}` typed {tps}: unsynchronised clock-domain crossing", node)
    ctx.ob("X1", rel, cls, f"{tag}: domain typing ({len(d.types)} typed signals)", not v,
           "" if not v else f"{len(v)} cross-domain reads")
    return d


def _wrapper_sides(ctx, fx):
    """_FIFOWrapper (the body of stream.AsyncFIFO): the comb nets of the wrapper fall into a write side (sink, the FIFO's din / we /
    writable) and a read side (source, dout / re / readable) which belong to different clock domains once the wrapper is renamed;
    the two sides may only meet inside the FIFO.  Decided on the undirected def-use graph of the wrapper's assignments."""
    WR, RD = {"din", "we", "writable"}, {"dout", "re", "readable"}

    def root(n):
        parts = []
        while isinstance(n, (ast.Attribute, ast.Subscript, ast.Call)):
            if isinstance(n, ast.Attribute):
                parts.append(n.attr)
                n = n.value
            elif isinstance(n, ast.Subscript):
                n = n.value
            else:
                n = n.func
        if not isinstance(n, ast.Name):
            return None
        parts.append(n.id)
        parts.reverse()
        if parts[0] == "self":
            parts = parts[1:]
        if not parts:
            return None
        if parts[0] == "fifo" and len(parts) > 1:
            return "fifo.W" if parts[1] in WR else ("fifo.R" if parts[1] in RD else "fifo." + parts[1])
        return parts[0]

    def roots(e):
        out = set()
        stack = [e]
        while stack:
            n = stack.pop()
            if isinstance(n, (ast.Attribute, ast.Name)) or (isinstance(n, ast.Call) and isinstance(n.func, ast.Attribute)):
                r = root(n)
                if r:
                    out.add(r)
                if isinstance(n, ast.Call):
                    stack.extend(n.args)
                continue
            stack.extend(ast.iter_child_nodes(n))
        return out
    adj = {}
    n_as = 0
    for a in fx.find():
        try:
            t = root(ast.parse(a.t, mode="eval").body)
        except SyntaxError:
            t = None
        rs = roots(a.value) | {r for g, _ in a.guards for r in roots(g)}
        if t is None:
            continue
        n_as += 1
        for r in rs:
            adj.setdefault(t, {}).setdefault(r, a)
            adj.setdefault(r, {}).setdefault(t, a)
    write = {"sink", "fifo.W"}
    read = {"source", "fifo.R"}
    seen = {w: None for w in write}
    todo = list(write)
    hit = None
    while todo and hit is None:
        x = todo.pop(0)
        for y, a in adj.get(x, {}).items():
            if y not in seen:
                seen[y] = (x, a)
                if y in read:
                    hit = y
                    break
                todo.append(y)
    path = []
    y = hit
    while y is not None and seen.get(y):
        x, a = seen[y]
        path.append(f"{a.t} <= {a.v}")
        y = x
    present = "fifo.W" in adj.get("sink", {}) or any("fifo.W" in adj.get(z, {}) for z in adj.get("sink", {}))
    present = present and ("fifo.R" in adj.get("source", {}) or any("fifo.R" in adj.get(z, {}) for z in adj.get("source", {})))
    ctx.ob("X1", STREAM, "_FIFOWrapper", "sink side drives the FIFO's write port, source side is driven from its read port", present and n_as >= 8,
           "" if present else "wrapper nets changed: sink / source no longer attached to the FIFO ports")
    ctx.ob("X1", STREAM, "_FIFOWrapper", "write side and read side meet only inside the FIFO (no net of the wrapper joins them)", hit is None,
           "" if hit is None else "the write (producer-domain) side reaches the read (consumer-domain) side outside the FIFO: " + "; ".join(reversed(path)) +
           " -- an unsynchronised path across the crossing when the wrapper is an AsyncFIFO")


def crossing_stage_domains(ctx, rid, fx=None):
    """ClockDomainCrossing: every clocked element of the crossing lives in one of the two domains it was given: the same-domain buffer
    is renamed onto that domain, the FIFO's write / read sides onto cd_from / cd_to (a bare Buffer would be clocked by `sys`, whatever
    the stream's domain).  Shared with C04: a buffer register clocked by a domain other than its stream's changes the offered token
    under valid & ~ready."""
    if fx is None:
        fx = fx_of(ctx, STREAM, "ClockDomainCrossing")
    # every clocked element of the crossing lives in one of the two domains it was given: the same-domain buffer is renamed onto that
    # domain, the FIFO's write / read sides onto cd_from / cd_to (a bare Buffer would be clocked by `sys`, whatever the stream's domain)
    clocked = [i for i in fx.insts if i.cls in ("Buffer", "AsyncFIFO", "SyncFIFO", "PipeValid", "PipeReady")]
    ctx.ob(rid, STREAM, "ClockDomainCrossing", "clocked stages:present", len(clocked) >= 2, f"{[i.cls for i in clocked]}", 0)
    for i in clocked:
        ws = [norm(w) for w in i.wrappers]
        if ("cd_from == cd_to", True) in i.pyguards:
            ok = any(w in ("ClockDomainsRenamer(cd_from)", "ClockDomainsRenamer(cd_to)", "ClockDomainsRenamer({'sys': cd_from})",
                           "ClockDomainsRenamer({'sys': cd_to})") for w in ws)
            want = "ClockDomainsRenamer(cd_from)"
        else:
            ok = any(w.replace('"', "'") in ("ClockDomainsRenamer({'write': cd_from, 'read': cd_to})", "ClockDomainsRenamer({'read': cd_to, 'write': cd_from})")
                     for w in ws)
            want = "ClockDomainsRenamer({'write': cd_from, 'read': cd_to})"
        ctx.ob(rid, STREAM, "ClockDomainCrossing", f"{i.name} ({i.cls}) clocked by the crossing's own domains", ok,
               "" if ok else f"{i.name} = {'∘'.join(ws) or '(no renamer)'}∘{i.cls}(..): expected {want} -- the stage runs in the default `sys` domain "
                             f"while the stream it carries belongs to another one: tokens are dropped / duplicated when the clocks differ", i.node)


def run(ctx):
    ctx.rule("X1", "no bypass: producer reaches consumer only through a synchroniser; no statement of domain B reads a signal "
                   "typed in another domain; synchroniser inputs are driven from their own domain", min_sites=18)
    ctx.rule("X2", "orientation: write/from = producer-side domain, read/to = consumer-side domain at every crossing", min_sites=12)
    ctx.rule("X3", "BusSynchronizer skeleton: capture enabled by a registered copy of the request pulse; ibuffer held while "
                   "sampled; request = starter | ack | time-out; time-out in idomain waits on ~request; ack from the registered "
                   "request", min_sites=10)
    ctx.rule("X4", "common reset: both intermediate domains reset by AsyncResetSynchronizer on the same OR of both resets, "
                   "clocked from cd_from / cd_to, FIFO renamed onto the intermediate names", min_sites=6)

    # ================================================================ stream.ClockDomainCrossing
    fx = fx_of(ctx, STREAM, "ClockDomainCrossing")
    fail_closed(ctx, fx, "ClockDomainCrossing")
    diff = [("cd_from == cd_to", False)]
    _x1_graph(ctx, STREAM, "ClockDomainCrossing", fx, diff, [("self.sink", "self.source")])
    _wrapper_sides(ctx, fx_of(ctx, STREAM, "_FIFOWrapper"))
    # the FIFO behind stream.AsyncFIFO is a two-clock FIFO in every configuration (buffered or not): a single-clock FIFO class there
    # is clocked by `sys` while its two sides are driven from the renamed write / read domains
    init_a = ctx.mod(STREAM).method("AsyncFIFO", "__init__")

    def _leaves(e, depth=0):
        if isinstance(e, ast.IfExp):
            return _leaves(e.body, depth) | _leaves(e.orelse, depth)
        if isinstance(e, ast.Name) and depth < 3:
            out = set()
            for st_ in ast.walk(init_a):
                if isinstance(st_, ast.Assign) and any(isinstance(t_, ast.Name) and t_.id == e.id for t_ in st_.targets):
                    out |= _leaves(st_.value, depth + 1)
            return out or {e.id}
        return {norm(e)}
    fc = None
    for c_ in ast.walk(init_a):
        if isinstance(c_, ast.Call) and norm(c_.func) in ("_FIFOWrapper.__init__", "super().__init__"):
            for k_ in c_.keywords:
                if k_.arg == "fifo_class":
                    fc = k_.value
            if fc is None and len(c_.args) >= 2:
                fc = c_.args[1] if norm(c_.func) == "_FIFOWrapper.__init__" else c_.args[0]
    lv = set()
    if fc is not None:
        # by value first: the selecting expression evaluated for buffered = False / True (conditional expression, table lookup, ...)
        from .. import pyconst as _pc5
        fifo_ns = _pc5.NS(**{n_: f"fifo.{n_}" for n_ in ("AsyncFIFO", "AsyncFIFOBuffered", "SyncFIFO", "SyncFIFOBuffered")})
        try:
            for b_ in (False, True):
                loc5 = {"buffered": b_, "fifo": fifo_ns}
                it5 = _pc5.Interp(loc5, exact=True)
                pre = [st_ for st_ in init_a.body if not any(isinstance(c_, ast.Call) and norm(c_.func) in ("_FIFOWrapper.__init__", "super().__init__")
                                                           for c_ in ast.walk(st_)) and not isinstance(st_, ast.Assert)]
                try:
                    it5.run([st_ for st_ in pre if isinstance(st_, (ast.Assign, ast.If)) and "fifo" in norm(st_)])
                except Exception:   # noqa
                    pass
                v5 = it5.ev(fc)
                if not isinstance(v5, str):
                    raise ValueError(v5)
                lv.add(v5)
        except Exception:           # noqa: not evaluable -> read the leaves of the expression
            lv = _leaves(fc)
    ok = bool(lv) and lv <= {"fifo.AsyncFIFO", "fifo.AsyncFIFOBuffered"}
    ctx.ob("X1", STREAM, "AsyncFIFO", "wrapped FIFO class is a two-clock FIFO in every configuration", ok,
           "" if ok else f"fifo_class can be {sorted(lv)}: a single-clock FIFO behind the crossing is clocked by `sys`, its write and read "
                         f"sides are sampled on the wrong clock -- tokens dropped / duplicated", init_a)
    cdc = [i for i in fx.insts if i.name == "cdc" and i.cls == "AsyncFIFO"]
    ok = len(cdc) == 1 and ("cd_from == cd_to", False) in cdc[0].pyguards
    ren = None
    if ok:
        for w in cdc[0].wrappers:
            if isinstance(w, ast.Call) and norm(w.func) == "ClockDomainsRenamer" and w.args and isinstance(w.args[0], ast.Dict):
                ren = {k.value: norm(v) for k, v in zip(w.args[0].keys, w.args[0].values)}
    ok = ren == {"write": "cd_from", "read": "cd_to"}
    ctx.ob("X2", STREAM, "ClockDomainCrossing", "AsyncFIFO renamed write=cd_from, read=cd_to", ok,
           "" if ok else f"renamer {ren}: the FIFO's write side would be clocked by the consumer's domain")
    edges = _graph(fx, diff)
    ok = ("self.sink", "cdc.sink", False) in edges and ("cdc.source", "self.source", False) in edges
    ctx.ob("X2", STREAM, "ClockDomainCrossing", "sink feeds the FIFO's write side, source is fed from its read side", ok,
           "" if ok else f"{[e for e in edges if not e[2]]}")
    # same-domain arm may connect directly (only there)
    direct = [c for c in fx.conns if norm(c["conn"].src) == "self.sink" and norm(c["conn"].dst) == "self.source"]
    ok = all(("cd_from == cd_to", True) in c["pyguards"] for c in direct)
    ctx.ob("X1", STREAM, "ClockDomainCrossing", "direct sink->source connect only when cd_from == cd_to", ok,
           "" if ok else "sink is connected straight to source outside the same-domain arm")
    crossing_stage_domains(ctx, "X1", fx)
    from ..share import lift
    lift(ctx, "c03", [("S5", "_FIFOWrapper", "wire:")], "X5",
         "what crosses is the token that was sent: the FIFO wrapper behind AsyncFIFO / ClockDomainCrossing stores payload, param, first and "
         "last each from the sink field of the same name and hands them out likewise (C03.S5 decides the same construct)", min_sites=4)
    # X4
    m = ctx.mod(STREAM)
    init = m.method("ClockDomainCrossing", "__init__")
    wcr = [n for n in ast.walk(init) if isinstance(n, ast.If) and norm(n.test) == "with_common_rst"]
    ctx.need(len(wcr) == 1, "ClockDomainCrossing: with_common_rst block vanished")
    body = wcr[0].body
    txt = [norm(s) for s in body]
    rb = {norm(s.targets[0]): norm(s.value) for s in body if isinstance(s, ast.Assign)}
    ok = rb.get("cd_from") == "_cd_from.name" and rb.get("cd_to") == "_cd_to.name"
    ctx.ob("X4", STREAM, "ClockDomainCrossing", "FIFO renamed onto the intermediate domains", ok, "" if ok else f"{rb}")
    # the rebinding precedes the renamer (same function, later statement)
    ren_line = min((n.lineno for n in ast.walk(init) if isinstance(n, ast.Call) and norm(n.func) == "ClockDomainsRenamer" and
                    n.args and isinstance(n.args[0], ast.Dict)), default=0)
    ok = ren_line > wcr[0].body[-1].lineno
    ctx.ob("X4", STREAM, "ClockDomainCrossing", "renaming happens after the intermediate domains are set up", ok, "" if ok else "order changed")
    common = [("cd_from == cd_to", False), ("with_common_rst", True)]
    clk = {a.t: a.v for a in fx.find(domain="comb") if q.compatible(a.pyguards, common) and a.t.endswith(".clk")}
    ok = clk == {"_cd_from.clk": "ClockSignal(cd_from)", "_cd_to.clk": "ClockSignal(cd_to)"}
    ctx.ob("X4", STREAM, "ClockDomainCrossing", "intermediate clocks = ClockSignal(cd_from) / ClockSignal(cd_to)", ok, "" if ok else f"{clk}")
    rst = [a for a in fx.find(domain="comb", target="_cd_rst")]
    ok = len(rst) == 1 and B.equivalent(B.from_expr(rst[0].value), B.from_expr("ResetSignal(cd_from) | ResetSignal(cd_to)"))
    ctx.ob("X4", STREAM, "ClockDomainCrossing", "common reset = OR of both domain resets", ok, "" if ok else f"{[a.v for a in rst]}")
    ars = [i for i in fx.insts if i.cls == "AsyncResetSynchronizer" and i.call is not None]
    got = []
    for i in ars:
        if len(i.call.args) != 2:
            continue
        a0, a1 = norm(i.call.args[0]), norm(i.call.args[1])
        # `for d in [x, y]: specials += AsyncResetSynchronizer(d, rst)` is the two instances
        lit = None
        for var, it in (i.loops or []):
            try:
                itn = ast.parse(it, mode="eval").body
            except SyntaxError:
                continue
            if isinstance(itn, (ast.List, ast.Tuple)) and all(isinstance(e, ast.Name) for e in itn.elts) and a0 == var:
                lit = [e.id for e in itn.elts]
        got += [(x, a1) for x in lit] if lit else [(a0, a1)]
    got.sort()
    ok = got == [("_cd_from", "_cd_rst"), ("_cd_to", "_cd_rst")]
    ctx.ob("X4", STREAM, "ClockDomainCrossing", "both intermediate domains reset-synchronised on the same signal", ok, "" if ok else f"{got}")
    cds = [i for i in fx.insts if i.cls == "ClockDomain" and i.call is not None]
    ok = len(cds) == 2 and all("self.duid" in norm(i.call.args[0]) for i in cds if i.call.args)
    ctx.ob("X4", STREAM, "ClockDomainCrossing", "intermediate domain names are unique per instance (duid)", ok, "" if ok else f"{cds}")

    # ================================================================ AXILiteClockDomainCrossing
    fx = fx_of(ctx, AL, "AXILiteClockDomainCrossing")
    fail_closed(ctx, fx, "AXILiteClockDomainCrossing")
    pairs = [("master.aw", "slave.aw"), ("master.w", "slave.w"), ("slave.b", "master.b"), ("master.ar", "slave.ar"), ("slave.r", "master.r")]
    _x1_graph(ctx, AL, "AXILiteClockDomainCrossing", fx, diff, pairs)
    want = {"aw_cdc": ("cd_from", "cd_to"), "w_cdc": ("cd_from", "cd_to"), "ar_cdc": ("cd_from", "cd_to"),
            "b_cdc": ("cd_to", "cd_from"), "r_cdc": ("cd_to", "cd_from")}
    ins = {i.name: i for i in fx.insts if i.cls.endswith("ClockDomainCrossing")}
    for nm, (a, b) in want.items():
        i = ins.get(nm)
        got = None
        if i is not None and i.call is not None:
            kw = {k.arg: norm(k.value) for k in i.call.keywords}
            args = [norm(x) for x in i.call.args]
            got = (kw.get("cd_from", args[1] if len(args) > 1 else None), kw.get("cd_to", args[2] if len(args) > 2 else None))
        ok = got == (a, b)
        ctx.ob("X2", AL, "AXILiteClockDomainCrossing", f"{nm}: crosses {a} -> {b}", ok,
               "" if ok else f"{nm} built with {got}: requests cross from->to, responses to->from")
    edges = _graph(fx, diff)
    for nm, (p, c) in zip(("aw_cdc", "w_cdc", "b_cdc", "ar_cdc", "r_cdc"), pairs):
        ok = (p, nm + ".sink", False) in edges and (nm + ".source", c, False) in edges
        ctx.ob("X2", AL, "AXILiteClockDomainCrossing", f"{p} -> {nm} -> {c}", ok, "" if ok else "channel wired to the wrong crossing / direction")

    # ================================================================ UART
    um = ctx.mod(UART)
    gf = um.func("_get_uart_fifo")
    paths = P.feasible_paths(gf)
    bad = None
    nd = 0
    for p in paths:
        if p.end != "return":
            continue
        tests = [(norm(t), pol) for t, pol in p.tests_before(len(p.ev))]
        differ = any((t == "sink_cd != source_cd" and pol) or (t == "sink_cd == source_cd" and not pol) for t, pol in tests)
        rv = p.end_node.value
        txt = norm(rv)
        # resolve a returned local
        for e in p.ev:
            if e[0] == "stmt" and isinstance(e[1], ast.Assign) and isinstance(rv, ast.Name) and norm(e[1].targets[0]) == rv.id:
                txt = norm(e[1].value)
        if differ:
            nd += 1
            calls = [n for n in ast.walk(rv) if isinstance(n, ast.Call) and norm(n.func) == "ClockDomainsRenamer"]
            ok = len(calls) == 1 and calls[0].args and isinstance(calls[0].args[0], ast.Dict) and \
                {k.value: norm(v) for k, v in zip(calls[0].args[0].keys, calls[0].args[0].values)} == {"write": "sink_cd", "read": "source_cd"}
            inner = norm(rv.args[0]) if isinstance(rv, ast.Call) and rv.args else ""
            for e in p.ev:
                if e[0] == "stmt" and isinstance(e[1], ast.Assign) and norm(e[1].targets[0]) == inner:
                    inner = norm(e[1].value)
            if not (ok and "AsyncFIFO" in inner):
                bad = f"different domains return `{txt}` (inner `{inner}`)"
    ctx.ob("X1", UART, "_get_uart_fifo", "different domains => AsyncFIFO renamed write=sink_cd, read=source_cd", bad is None and nd > 0,
           "" if (bad is None and nd) else (bad or "no different-domain return"), gf)
    fxu = fx_of(ctx, UART, "UART")
    ins = {i.name: i for i in fxu.insts}
    for nm, kwname in (("self.tx_fifo", "source_cd"), ("self.rx_fifo", "sink_cd")):
        i = ins.get(nm)
        kw = {k.arg: norm(k.value) for k in i.call.keywords} if i is not None and i.call is not None else {}
        ok = i is not None and i.cls == "_get_uart_fifo" and kw.get(kwname) == "phy_cd" and \
            not any(k in kw for k in ("sink_cd", "source_cd") if k != kwname)
        ctx.ob("X2", UART, "UART", f"{nm}: PHY side in phy_cd, CSR side in sys", ok, "" if ok else f"{kw}")
    fxb = fx_of(ctx, UART, "UARTBone", extra_mods=[])
    notsys = [("cd == 'sys'", False)]
    _x1_graph(ctx, UART, "UARTBone", fxb, notsys, [("phy.source", "self.sink"), ("self.source", "phy.sink")])
    ins = {i.name: i for i in fxb.insts}
    for nm, a, b in (("self.tx_cdc", "'sys'", "cd"), ("self.rx_cdc", "cd", "'sys'")):
        i = ins.get(nm)
        kw = {k.arg: norm(k.value) for k in i.call.keywords} if i is not None and i.call is not None else {}
        ok = kw.get("cd_from") == a and kw.get("cd_to") == b
        ctx.ob("X2", UART, "UARTBone", f"{nm}: {a} -> {b}", ok, "" if ok else f"{kw}")
    ph = [i for i in fxb.insts if i.name == "phy" and i.wrappers]
    ok = len(ph) == 1 and any(isinstance(w, ast.Call) and norm(w.func) == "ClockDomainsRenamer" and norm(w.args[0]) == "cd" for w in ph[0].wrappers)
    ctx.ob("X2", UART, "UARTBone", "PHY renamed into cd", ok, "" if ok else f"{ph}")

    # ================================================================ BusSynchronizer
    fx = fx_of(ctx, CDC, "BusSynchronizer")
    fail_closed(ctx, fx, "BusSynchronizer")
    wide = [("width == 1", False)]
    _x1_types(ctx, CDC, "BusSynchronizer", fx, wide, [], "width>1")
    mr = [i for i in fx.insts if i.cls == "MultiReg" and q.compatible(i.pyguards, wide)]
    ok = len(mr) == 1 and [norm(x) for x in mr[0].call.args] == ["ibuffer", "obuffer", "odomain"]
    ctx.ob("X1", CDC, "BusSynchronizer", "data crosses only through MultiReg(ibuffer, obuffer, odomain)", ok, "" if ok else f"{mr}")
    # latency budget: the request reaches the capture enable after the pulse synchroniser's 2 flops + toggle detect + ping_o; the
    # data path must not be deeper than the default 2-flop MultiReg or a late-resolving data bit is captured one cycle early
    nkw = [k for k in (mr[0].call.keywords if mr else []) if k.arg == "n"]
    depth = 2
    if nkw:
        try:
            depth = int(const_fold(nkw[0].value))
        except (ValueError, TypeError):
            depth = None
    ok = bool(mr) and len(mr[0].call.args) <= 3 and depth is not None and depth <= 2
    ctx.ob("X3", CDC, "BusSynchronizer", "data synchroniser not deeper than the request path allows (n <= 2)", ok,
           "" if ok else f"MultiReg(..., n={norm(nkw[0].value) if nkw else norm(mr[0].call.args[3]) if mr and len(mr[0].call.args) > 3 else '?'}): "
                         f"the word reaches obuffer after the capture enable; bits that resolve late are sampled from the previous word "
                         f"(torn output)", mr[0].node if mr else 0)
    oo = [a for a in fx.find() if a.t == "self.o" and q.compatible(a.pyguards, wide)]
    ok = len(oo) == 1 and oo[0].domain == "sync:odomain" and oo[0].v == "obuffer" and q.EQ(oo[0], B.A("ping_o"))
    ctx.ob("X3", CDC, "BusSynchronizer", "o captured from obuffer in odomain under the registered request", ok,
           "" if ok else f"{[(a.domain, a.v, a.gtext()) for a in oo]}")
    po = fx.find(target="ping_o")
    ok = len(po) == 1 and po[0].domain == "sync:odomain" and po[0].v == "self._ping.o" and not po[0].guards
    ctx.ob("X3", CDC, "BusSynchronizer", "extra request flop: ping_o = registered _ping.o in odomain", ok,
           "" if ok else f"{[(a.domain, a.v) for a in po]}: the request could overtake the 2-flop data path")
    ib = fx.find(target="ibuffer")
    ok = len(ib) == 1 and ib[0].domain == "sync:idomain" and ib[0].v == "self.i" and q.EQ(ib[0], B.A("self._pong.o"))
    ctx.ob("X3", CDC, "BusSynchronizer", "ibuffer loaded only on the acknowledge (held while sampled)", ok,
           "" if ok else f"{[(a.domain, a.v, a.gtext()) for a in ib]}")
    pi = fx.find(domain="comb", target="self._ping.i")
    ok = len(pi) == 1 and B.equivalent(B.from_expr(pi[0].value), B.from_expr("starter | self._pong.o | self._timeout.done"))
    ctx.ob("X3", CDC, "BusSynchronizer", "request = starter | acknowledge | time-out", ok, "" if ok else f"{[a.v for a in pi]}")
    pg = fx.find(domain="comb", target="self._pong.i")
    ok = len(pg) == 1 and pg[0].v == "ping_o"
    ctx.ob("X3", CDC, "BusSynchronizer", "acknowledge pulse from the registered request", ok, "" if ok else f"{[a.v for a in pg]}")
    tw = fx.find(domain="comb", target="self._timeout.wait")
    ok = len(tw) == 1 and B.equivalent(B.from_expr(tw[0].value), B.Not(B.A("self._ping.i")))
    ctx.ob("X3", CDC, "BusSynchronizer", "time-out waits while no request is being sent", ok, "" if ok else f"{[a.v for a in tw]}")
    ins = {i.name: i for i in fx.insts}
    for nm, a, b in (("self._ping", "idomain", "odomain"), ("self._pong", "odomain", "idomain")):
        i = ins.get(nm)
        got = None
        if i is not None and i.call is not None:
            kw = {k.arg: norm(k.value) for k in i.call.keywords}
            args = [norm(x) for x in i.call.args]
            got = [kw.get("idomain", args[0] if args else None), kw.get("odomain", args[1] if len(args) > 1 else None)]
        ok = i is not None and i.cls == "PulseSynchronizer" and got == [a, b]
        ctx.ob("X3", CDC, "BusSynchronizer", f"{nm} = PulseSynchronizer({a}, {b})", ok, "" if ok else f"{i}")
    t = ins.get("self._timeout")
    ok = t is not None and t.cls == "WaitTimer" and any(isinstance(w, ast.Call) and norm(w.func) == "ClockDomainsRenamer" and norm(w.args[0]) == "idomain" for w in t.wrappers)
    ctx.ob("X3", CDC, "BusSynchronizer", "time-out counter runs in idomain", ok, "" if ok else f"{t}")
    st = fx.find(target="starter")
    ok = len(st) == 1 and st[0].domain == "sync:idomain" and st[0].v == "0" and fx.decl.get("starter") is not None and \
        any(k.arg == "reset" and norm(k.value) == "1" for k in fx.decl["starter"][1].keywords)
    ctx.ob("X3", CDC, "BusSynchronizer", "starter: one request after reset", ok, "" if ok else "starter changed")
    one = [i for i in fx.insts if i.cls == "MultiReg" and ("width == 1", True) in i.pyguards]
    ok = len(one) == 1 and [norm(x) for x in one[0].call.args] == ["self.i", "self.o", "odomain"]
    ctx.ob("X1", CDC, "BusSynchronizer", "width 1: plain MultiReg(i, o, odomain)", ok, "" if ok else f"{one}")

    # ================================================================ ElasticBuffer
    fx = fx_of(ctx, CDC, "ElasticBuffer")
    fail_closed(ctx, fx, "ElasticBuffer")
    _x1_types(ctx, CDC, "ElasticBuffer", fx, [], [], "all")
    clk = {a.t: a.v for a in fx.find(domain="comb") if a.t.endswith(".clk")}
    ok = clk == {"cd_write.clk": "ClockSignal(idomain)", "cd_read.clk": "ClockSignal(odomain)"}
    ctx.ob("X2", CDC, "ElasticBuffer", "write domain clocked by idomain, read domain by odomain", ok, "" if ok else f"{clk}")
    ports = {n: {k.arg: norm(k.value) for k in c.keywords} for n, (cn, c, pg) in fx.decl.items() if cn.endswith("get_port") and c is not None}
    ok = ports.get("wrport", {}).get("clock_domain") == "'write'" and ports.get("rdport", {}).get("clock_domain") == "'read'" and \
        ports.get("wrport", {}).get("write_capable") == "True"
    ctx.ob("X2", CDC, "ElasticBuffer", "write port in `write`, read port in `read`", ok, "" if ok else f"{ports}")

    # ================================================================ Monitor
    fx = fx_of(ctx, STREAM, "Monitor")
    fail_closed(ctx, fx, "Monitor")
    _x1_types(ctx, STREAM, "Monitor", fx, [("clock_domain == 'sys'", True)], [("clock_domain", "sys")], "sys")
    _x1_types(ctx, STREAM, "Monitor", fx, [("clock_domain == 'sys'", False)], [], "other domain")
    ins = {i.name: i for i in fx.insts}
    for nm in ("reset_ps", "latch_ps"):
        i = ins.get(nm)
        ok = i is not None and i.cls == "PulseSynchronizer" and [norm(x) for x in i.call.args] == ["'sys'", "clock_domain"] and \
            ("clock_domain == 'sys'", False) in i.pyguards
        ctx.ob("X2", STREAM, "Monitor", f"{nm} = PulseSynchronizer('sys', clock_domain)", ok, "" if ok else f"{i}")
    cnt = [a for a in fx.find(domain="sync") if a.t.endswith("._count") or a.t.endswith("._count_latched")]
    ok = bool(cnt) and all(a.domain == "sync:clock_domain" for a in cnt)
    ctx.ob("X1", STREAM, "Monitor", "counters run in the monitored clock domain", ok, "" if ok else f"{sorted({a.domain for a in cnt})}")
    mrs = [i for i in fx.insts if i.cls == "MultiReg"]
    ok = len(mrs) == 4 and all(norm(i.call.args[0]).endswith("._count_latched") and ".status" in norm(i.call.args[1]) for i in mrs)
    ctx.ob("X1", STREAM, "Monitor", "latched counts return to sys through MultiReg", ok, "" if ok else f"{mrs}")
