"""C06 -- Wishbone interconnect routes each cycle to one slave and answers only its master.

Decided (structural, necessary): W1 Arbiter: ack/err of master i gated by grant == i (same i); all
master->slave fields muxed by the grant; request = the masters' cyc only; withdraw round-robin policy.
W2 Decoder: slave i cyc = master.cyc & sel[i] (same i); every other master->slave field forwarded; ack/err
OR over all slaves; data mux term i uses sel_r[i] with slaves[i]; sel_r registered iff `register`.
W3 composition of InterconnectShared / Crossbar (transposition).  W4 region address predicate.
W5 the select gating the returned data and the select gating cyc have the same register depth
(fails for register=True: known finding, documented limitation).
Not decided: bounded waiting (RoundRobin internals), exactly-one termination with arbitrary slaves."""
import ast
from ..core import AnalysisError, norm
from .. import boolx as B
from .. import q
from ..rules_stream import fx_of, fail_closed, prio, short

WB = "litex/soc/interconnect/wishbone.py"
SOC = "litex/soc/integration/soc.py"

EXPLANATION = ("FHDL IR of wishbone.Arbiter/Decoder/InterconnectShared/Crossbar extracted from the AST with the literal "
               "_layout unrolled; index agreement between gating select and gated port decided on the symbolic loop index; "
               "support sets of request/ack/err/data drivers; instantiation arguments of the compositions.")
TECHNIQUE = ("AST-extracted FHDL IR + index-agreement and support-set rules + instantiation-argument flow + abstract interpr"
             "etation of the interconnect constructors on token lists")


def _layout(ctx):
    m = ctx.mod(WB)
    lay = m.const("_layout")
    out = []
    for e in lay.elts:
        out.append((e.elts[0].value, norm(e.elts[2])))
    return out


def run(ctx):
    ctx.rule("W1", "Arbiter: ack/err of master i carry `rr.grant == i`; every master->slave field is Array(masters)[rr.grant]; "
                   "request = Cat of the masters' cyc; default (withdraw) round-robin policy", min_sites=14)
    ctx.rule("W2", "Decoder: slaves[i].cyc = master.cyc & slave_sel[i]; other master->slave fields forwarded to every slave; "
                   "ack/err = OR over all slaves; dat_r term i = sel_r[i] & slaves[i].dat_r; sel[i] from slaves[i]'s own "
                   "predicate on master.adr; sel_r follows sel", min_sites=16)
    ctx.rule("W3", "composition: shared bus is arbiter target = decoder master = timeout master; crossbar: one decoder per "
                   "master row, one arbiter per transposed column, predicates taken from the slave list", min_sites=4)
    ctx.rule("W4", "region predicate a[k:] == origin >> k with one k; origin and size converted bytes->words alike", min_sites=2)
    ctx.rule("W5", "the select gating returned data and the select gating cyc have the same register depth", min_sites=1)
    ctx.rule("W6", "the shared bus watchdog (wishbone.Timeout) terminates only an unanswered request: timer.wait = stb & cyc & "
                   "~ack, forced ack / error data exactly on expiry; built from timeout_cycles on the shared bus, after the Decoder so that its "
                   "forced termination wins (same obligations as C11.T1-T3)", min_sites=8)
    ctx.rule("PRIO", "no dead driver", min_sites=0)
    ctx.rule("W7", "crossbar access matrix is indexed [master][slave]: decoders take rows, arbiters take columns", min_sites=2)
    from ..rules_xbar import crossbar_shape
    crossbar_shape(ctx, "W7", WB, "Crossbar", "Decoder", "Arbiter")
    # W8: every internal bus carries the full address of every master (constructors interpreted, lxs/pyconst.py, on masters of
    # different address widths in both orders): the decoder must see the bits that tell a mapped from an unmapped address
    ctx.rule("W8", "internal busses of InterconnectShared / Crossbar are as wide as the widest master's address (no master's upper "
                   "address bits are cut before the decoder)", min_sites=2)
    from .. import pyconst
    wm = ctx.mod(WB)
    for cls in ("InterconnectShared", "Crossbar"):
        fn = wm.method(cls, "__init__")
        bad, n_if = None, 0
        for widths in ([8, 12], [12, 8], [10, 10, 30], [30]):
            masters = [pyconst.NS(adr_width=w, data_width=32, __cls__=("Interface",)) for w in widths]
            slaves = [(pyconst.Tok("match", i), pyconst.NS(adr_width=30, data_width=32)) for i in range(2)]
            it = pyconst.Interp({"self": pyconst.NS(), "masters": masters, "slaves": slaves, "register": False, "timeout_cycles": 100}, objects=True,
                                funcs={f.name: f for f in wm.tree.body if isinstance(f, ast.FunctionDef)})
            try:
                it.run(fn.body)
            except Exception as ex:
                ctx.need(False, f"{cls}.__init__ cannot be interpreted ({ex})")
            ifs = [o for o in it.created if o.cls == "Interface"]
            n_if += len(ifs)
            for o in ifs:
                aw = o.kwargs.get("adr_width")
                if aw != max(widths) and bad is None:
                    bad = f"masters with address widths {widths}: an internal Interface is built with adr_width={aw}: the upper address bits of the " \
                          f"wider master never reach the decoder, its access to a high / unmapped address selects a slave of the low range"
        ctx.ob("W8", WB, cls, "internal bus address width = widest master", bad is None and n_if >= 4, bad or f"only {n_if} internal interfaces built", fn)
    from .c11 import wb_timeout_body, timeout_in_interconnect
    wb_timeout_body(ctx, "W6")
    timeout_in_interconnect(ctx, WB, "InterconnectShared", "Timeout", "Decoder", r1="W6", r2="W6")

    lay = _layout(ctx)
    m2s = [n for n, d in lay if d == "DIR_M_TO_S"]
    s2m = [n for n, d in lay if d == "DIR_S_TO_M"]
    ctx.need(set(m2s) >= {"adr", "dat_w", "sel", "cyc", "stb", "we"} and set(s2m) >= {"dat_r", "ack", "err"},
             f"wishbone _layout changed: m2s={m2s} s2m={s2m}")

    # ================================================================ W1
    fx = fx_of(ctx, WB, "Arbiter")
    fail_closed(ctx, fx, "Arbiter")
    prio(ctx, "PRIO", fx, "Arbiter")
    for name in ("ack", "err"):
        ds = fx.find(domain="comb", target=f"masters[i].{name}")
        ctx.ob("W1", WB, "Arbiter", f"{name}:driven per master", len(ds) == 1, f"masters[i].{name} has {len(ds)} drivers", 0)
        for a in ds:
            f = B.from_expr(a.value)
            ok = B.entails(f, B.A("self.rr.grant == i")) and B.entails(f, B.A(f"target.{name}")) and not a.guards
            ctx.ob("W1", WB, "Arbiter", f"{name} of master i gated by grant == i", ok,
                   "" if ok else f"masters[i].{name} <= {a.v}: the termination reaches masters that do not own the bus", a.line)
    for name in m2s:
        ds = fx.find(domain="comb", target=f"target.{name}")
        ok = len(ds) == 1 and not ds[0].guards
        if ok:
            v = ds[0].value
            ew = q.elementwise(v.value.args[0]) if isinstance(v, ast.Subscript) and isinstance(v.value, ast.Call) and \
                norm(v.value.func) == "Array" and len(v.value.args) == 1 else None
            ok = ew == (f"@.{name}", "masters") and norm(v.slice) == "self.rr.grant"
        ctx.ob("W1", WB, "Arbiter", f"target.{name} = masters[grant].{name}", ok,
               "" if ok else f"target.{name} <= {ds[0].v if ds else '(no driver)'}", ds[0].line if ds else 0)
    for name in s2m:
        if name in ("ack", "err"):
            continue
        ds = fx.find(domain="comb", target=f"masters[i].{name}")
        ok = len(ds) == 1 and ds[0].v == f"target.{name}"
        ctx.ob("W1", WB, "Arbiter", f"{name} returned to the masters", ok, "" if ok else f"masters[i].{name} not driven from target", 0)
    rq = fx.find(domain="comb", target="self.rr.request")
    ok = len(rq) == 1 and not rq[0].guards
    if ok:
        # exactly the masters' cyc
        sup = [p for p in q.paths(rq[0].value)]
        v = rq[0].value
        ew = q.elementwise(v.args[0]) if isinstance(v, ast.Call) and norm(v.func) == "Cat" and len(v.args) == 1 else None
        ok = ew == ("@.cyc", "masters") or (all(p.endswith(".cyc") or p == "masters" for p in sup) and "masters" in sup)
    ctx.ob("W1", WB, "Arbiter", "request = the masters' cyc (not stb)", ok,
           "" if ok else f"rr.request <= {rq[0].v if rq else '?'}: the grant may move inside a bus cycle or never be requested",
           rq[0].line if rq else 0)
    rr = [i for i in fx.insts if i.name == "self.rr"]
    ok = len(rr) == 1 and rr[0].cls.endswith("RoundRobin") and norm(rr[0].call.args[0]) == "len(masters)" and \
        all(k.arg != "switch_policy" or norm(k.value).endswith("SP_WITHDRAW") for k in rr[0].call.keywords) and len(rr[0].call.args) == 1
    ctx.ob("W1", WB, "Arbiter", "RoundRobin(len(masters)) with the withdraw policy", ok,
           "" if ok else f"{rr[0] if rr else 'no round-robin'}: grant no longer stays with the owner until it drops cyc")

    # ================================================================ W2
    fx = fx_of(ctx, WB, "Decoder")
    fail_closed(ctx, fx, "Decoder")
    prio(ctx, "PRIO", fx, "Decoder")
    cyc = [a for a in fx.find(domain="comb") if a.t.endswith("[1].cyc")]
    ctx.ob("W2", WB, "Decoder", "slave cyc:driven", len(cyc) == 1, f"{len(cyc)} drivers of slave cyc", 0)
    for a in cyc:
        idx = a.t[len("slaves["):a.t.index("]")]
        f = B.from_expr(a.value)
        ok = a.t.startswith("slaves[") and B.equivalent(f, B.from_expr(f"master.cyc & slave_sel[{idx}]")) and not a.guards
        ctx.ob("W2", WB, "Decoder", "slaves[i].cyc = master.cyc & slave_sel[i]", ok,
               "" if ok else f"{a.t} <= {a.v}: the cycle is presented to a slave whose region does not match", a.line)
    for name in m2s:
        if name == "cyc":
            continue
        def _bus_of_every_slave(a, name=name):
            """the target is field `name` of the bus of the slave a loop over `slaves` is at: slaves[i][1].f / slave[1].f / bus.f with
            `for _, bus in slaves` (any destructuring whose last element names the bus)"""
            if not a.t.endswith("." + name):
                return False
            base = a.t[:-len(name) - 1]
            for var, it in a.loops:
                if it not in ("slaves", "enumerate(slaves)"):
                    continue
                try:
                    vn = ast.parse(var, mode="eval").body
                except SyntaxError:
                    continue
                inner = vn.elts[-1] if it == "enumerate(slaves)" and isinstance(vn, ast.Tuple) else vn
                if isinstance(inner, ast.Tuple) and len(inner.elts) == 2 and norm(inner.elts[1]) == base:
                    return True
                if isinstance(inner, ast.Name) and base == f"{inner.id}[1]":
                    return True
                if base.startswith("slaves[") and base.endswith("][1]"):
                    return True
            return False
        ds = [a for a in fx.find(domain="comb") if _bus_of_every_slave(a)]
        ok = len(ds) == 1 and ds[0].v == f"master.{name}" and not ds[0].guards
        ctx.ob("W2", WB, "Decoder", f"{name} forwarded to every slave", ok,
               "" if ok else f"master.{name} is not forwarded to all slaves ({[a.v for a in ds]})", ds[0].line if ds else 0)
    for name in ("ack", "err"):
        ds = fx.find(domain="comb", target=f"master.{name}")
        ok = len(ds) == 1 and not ds[0].guards
        if ok:
            v = ds[0].value
            ok = isinstance(v, ast.Call) and norm(v.func) == "Reduce" and len(v.args) == 2 and norm(v.args[0]) == "'OR'" and \
                q.elementwise(v.args[1]) == (f"@[1].{name}", "slaves")
        ctx.ob("W2", WB, "Decoder", f"master.{name} = OR over all slaves", ok, "" if ok else f"master.{name} <= {ds[0].v if ds else '?'}",
               ds[0].line if ds else 0)
    dr = fx.find(domain="comb", target="master.dat_r")
    ok = len(dr) == 1 and not dr[0].guards
    sel_r = None
    if ok:
        v = fx.expand(dr[0].value)
        ok = isinstance(v, ast.Call) and norm(v.func) == "Reduce" and norm(v.args[0]) == "'OR'"
        lc = v.args[1] if ok else None
        if ok and isinstance(lc, ast.Name):
            lc = fx.localdefs.get(lc.id)
        els = q.star_elements(lc) if ok and lc is not None else None
        ok = ok and bool(els) and len(els) == 1
        if ok:
            elt, tgt, itx = els[0]
            # the index variable: `i in range(ns)` or `(i, x) in enumerate(slaves)`
            i = tgt if tgt.isidentifier() else (tgt.strip("()").split(",")[0].strip() if itx.startswith("enumerate(") else "?")
            ok = itx in ("range(ns)", "range(len(slaves))", "enumerate(slaves)")
            busvar = None
            if not ok and itx.startswith("enumerate(") and itx.endswith(")") and not tgt.isidentifier():
                # `for i, bus in enumerate(busses)` with `busses = [bus for _, bus in slaves]`: the list of the slaves' busses, in order
                try:
                    src_ = ast.parse(itx[len("enumerate("):-1], mode="eval").body
                except SyntaxError:
                    src_ = None
                if isinstance(src_, ast.Name):
                    src_ = fx.localdefs.get(src_.id)
                if isinstance(src_, ast.ListComp) and len(src_.generators) == 1 and not src_.generators[0].ifs and \
                        norm(src_.generators[0].iter) == "slaves" and isinstance(src_.generators[0].target, ast.Tuple) and \
                        len(src_.generators[0].target.elts) == 2 and norm(src_.elt) == norm(src_.generators[0].target.elts[1]):
                    parts_ = [x_.strip() for x_ in tgt.strip("()").split(",")]
                    if len(parts_) == 2:
                        busvar = parts_[1]
                        ok = True
            # term: Replicate(sel_r[i], ..) & slaves[i][1].dat_r
            ok = ok and isinstance(elt, ast.BinOp) and isinstance(elt.op, ast.BitAnd)
            if ok:
                parts = [elt.left, elt.right]
                rep = [p for p in parts if isinstance(p, ast.Call) and norm(p.func) == "Replicate"]
                dat = [p for p in parts if norm(p) == f"slaves[{i}][1].dat_r" or (busvar is not None and norm(p) == f"{busvar}.dat_r")]
                ok = len(rep) == 1 and len(dat) == 1 and isinstance(rep[0].args[0], ast.Subscript) and norm(rep[0].args[0].slice) == i
                if ok:
                    sel_r = norm(rep[0].args[0].value)
    ctx.ob("W2", WB, "Decoder", "dat_r = OR_i sel_r[i] & slaves[i].dat_r (same i)", ok and sel_r is not None,
           "" if ok else f"master.dat_r <= {dr[0].v if dr else '?'}: read data of another slave can be returned", dr[0].line if dr else 0)
    sel = [a for a in fx.find(domain="comb") if a.t.startswith("slave_sel[")]
    ok = len(sel) == 1 and not sel[0].guards
    if ok:
        idx = sel[0].t[len("slave_sel["):-1]
        ok = sel[0].v == f"slaves[{idx}][0](master.adr)"
    ctx.ob("W2", WB, "Decoder", "sel[i] = predicate of slave i on master.adr", ok, "" if ok else f"{[(a.t, a.v) for a in sel]}",
           sel[0].line if sel else 0)
    # ... in every configuration: no other driver of the select (a constant select for a degenerate slave count presents unmapped
    # addresses to the only slave), and the per-slave decode is built for every number of slaves
    other = [a for a in fx.find() if a.t == "slave_sel" or (a.t.startswith("slave_sel[") and a not in sel)]
    built = bool(sel) and all(q.pg_active(sel[0].pyguards, {"ns": n_, "register": r_}) for n_ in (1, 2, 3) for r_ in (True, False))
    ok = not other and built
    ctx.ob("W2", WB, "Decoder", "the address decode is the only driver of the select, for every number of slaves", ok,
           "" if ok else (f"`{other[0].t} <= {other[0].v}` {other[0].pyguards}: a cycle to an address outside every region still selects a slave"
                          if other else f"decode built only under {sel[0].pyguards}"), (other[0].line if other else (sel[0].line if sel else 0)))
    # sel_r follows sel: comb copy or registered copy
    depth_cfg = {}
    if sel_r:
        for a in fx.find(target=sel_r):
            okk = a.v == "slave_sel" and not a.guards
            reg = [p for c, p in a.pyguards if c == "register"]
            depth_cfg[bool(reg and reg[0])] = 1 if a.domain.startswith("sync") else 0
            ctx.ob("W2", WB, "Decoder", f"{sel_r} follows slave_sel [{a.domain}]", okk, "" if okk else f"{sel_r} <= {a.v} under {a.gtext()}", a.line)
        ctx.ob("W2", WB, "Decoder", "sel_r driven in both configurations", set(depth_cfg) == {True, False},
               f"{sel_r} drivers per `register`: {depth_cfg}", 0)

    # ================================================================ W5
    # cyc (hence ack) is gated by the combinational select (depth 0); the data mux by sel_r
    for cfg, d in sorted(depth_cfg.items()):
        ok = d == 0
        ctx.ob("W5", WB, "Decoder", f"select depth data vs cyc (register={cfg})", ok,
               "" if ok else "with register=True the data-return select lags the cyc/ack select by one cycle: a slave that acknowledges in "
                             "the address cycle returns the data of the previously addressed slave")

    # ================================================================ W3
    fx = fx_of(ctx, WB, "InterconnectShared")
    fail_closed(ctx, fx, "InterconnectShared")
    ins = {i.name: i for i in fx.insts}
    a, d, t = ins.get("self.arbiter"), ins.get("self.decoder"), ins.get("self.timeout")
    ok = a is not None and a.cls == "Arbiter" and [norm(x) for x in a.call.args] == ["masters", "shared"]
    ctx.ob("W3", WB, "InterconnectShared", "Arbiter(masters, shared)", ok, "" if ok else f"{a}")
    ok = d is not None and d.cls == "Decoder" and [norm(x) for x in d.call.args] == ["shared", "slaves", "register"]
    ctx.ob("W3", WB, "InterconnectShared", "Decoder(shared, slaves, register)", ok, "" if ok else f"{d}")
    ok = t is not None and t.cls == "Timeout" and norm(t.call.args[0]) == "shared"
    ctx.ob("W3", WB, "InterconnectShared", "Timeout watches the shared bus", ok, "" if ok else f"{t}")
    ok = "shared" in fx.decl and fx.decl["shared"][0] == "Interface"
    ctx.ob("W3", WB, "InterconnectShared", "shared is one fresh Interface", ok, "" if ok else "shared bus is not a fresh Interface")
    # (crossbar composition: decided under W7 by abstract interpretation of the constructor, rules_xbar.crossbar_shape)
    fx = fx_of(ctx, WB, "Crossbar")
    fail_closed(ctx, fx, "Crossbar")

    # ================================================================ W4
    sm = ctx.mod(SOC)
    fd = sm.method("SoCRegion", "decoder")
    lam = [n for n in ast.walk(fd) if isinstance(n, ast.Lambda) and isinstance(n.body, ast.Compare)]
    ok = False
    why = "no comparing lambda"
    if lam:
        c = lam[-1].body
        l, r = c.left, c.comparators[0]
        ok = isinstance(l, ast.Subscript) and isinstance(l.slice, ast.Slice) and l.slice.upper is None and \
            isinstance(r, ast.BinOp) and isinstance(r.op, ast.RShift) and norm(l.slice.lower) == norm(r.right) and \
            norm(r.left) == "origin" and isinstance(c.ops[0], ast.Eq)
        why = norm(c)
    ctx.ob("W4", SOC, "SoCRegion.decoder", "a[k:] == origin >> k with one k", ok, "" if ok else why, fd)
    sh = [(norm(n.target), norm(n.value)) for n in ast.walk(fd) if isinstance(n, ast.AugAssign) and isinstance(n.op, ast.RShift)]
    ok = len(sh) == 2 and {s[0] for s in sh} == {"origin", "size"} and sh[0][1] == sh[1][1]
    ctx.ob("W4", SOC, "SoCRegion.decoder", "origin and size shifted by the same bytes->words amount", ok, "" if ok else f"{sh}", fd)
