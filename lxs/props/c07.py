"""C07 -- Wishbone adapters and memories are transparent to the master (claimed, narrow).

Decided (structural, necessary): A1 SRAM: byte write enable i = cyc & stb & we & sel[i]; read-only memories
have no write path; ack defaults to 0 and is set under cyc & stb & (~ack | burst); burst address override
only under burst & latched.  A2 converters: complementary address split (selector x[:k], forwarded x[k:]),
every Case arm i uses lane i of its own unit; DownConverter counter / ack / read-shift guards and reset
priority.  A3 Cache: FSM graph, write-enable / dirty / refill guards, tag written before REFILL, word counter.
A4 Remapper: origin and log2_size converted to words by the same shift.  A5 Wishbone2CSR: both variants.
Not decided: the flat-memory observation itself (last-write-wins per byte over all histories)."""
import ast
from ..core import AnalysisError, norm
from .. import boolx as B
from .. import q
from ..rules_stream import fx_of, fail_closed, prio, fsm_sanity, short, _lit_set

WB = "litex/soc/interconnect/wishbone.py"

EXPLANATION = ("FHDL IR of wishbone SRAM / UpConverter / DownConverter / Cache / Remapper / Wishbone2CSR extracted from the "
               "AST; guard equivalence/entailment for write enables, acknowledges and counters; lane-index agreement of the "
               "Case arms on the symbolic loop index; complementary slice split; FSM graph of the cache and CSR bridge.")
TECHNIQUE = "AST-extracted FHDL IR + guard equivalence + lane-index agreement + FSM graph"


def _slice_parts(text):
    n = ast.parse(text, mode="eval").body
    if isinstance(n, ast.Subscript) and isinstance(n.slice, ast.Slice):
        return norm(n.value), (norm(n.slice.lower) if n.slice.lower else None), (norm(n.slice.upper) if n.slice.upper else None)
    return text, None, None


def run(ctx):
    ctx.rule("A1", "SRAM: we[i] = cyc & stb & we & sel[i]; write path only when not read_only; ack default-then-set; burst "
                   "address only under burst & latched; data read from the port", min_sites=10)
    ctx.rule("A2", "converters: complementary address split with one k; Case arm i uses lane i of each unit; DownConverter "
                   "count/ack/shift guards, reset of the counter has priority", min_sites=23)
    ctx.rule("A3", "Cache: FSM graph without trap; master write enable needs cyc & stb & we & ack; dirty only on writes; "
                   "refill write only in REFILL under slave.ack; tag written on both miss paths; word steps via inc/clr",
             min_sites=17)
    ctx.rule("A4", "Remapper: origin and log2_size converted bytes->words by the same shift under the same condition; region window half-open "
                   "[origin, origin+size), dst = dst.origin + src - src.origin, redirect iff active", min_sites=6)
    ctx.rule("A5", "Wishbone2CSR (registered and combinational): we/re polarity, both need sel != 0 and cyc & stb, ack only in "
                   "ACK, no trap", min_sites=16)
    ctx.rule("PRIO", "no dead driver", min_sites=10)

    # ================================================================ A1
    fx = fx_of(ctx, WB, "SRAM")
    fail_closed(ctx, fx, "SRAM")
    prio(ctx, "PRIO", fx, "SRAM")
    we = [a for a in fx.find(domain="comb") if a.t.startswith("port.we[")]
    ctx.ob("A1", WB, "SRAM", "we:driven", len(we) == 1, f"{len(we)} drivers of port.we[i]", 0)
    for a in we:
        i = a.t[len("port.we["):-1]
        ok = B.equivalent(B.from_expr(a.value), B.from_expr(f"bus.cyc & bus.stb & bus.we & bus.sel[{i}]")) and not a.guards
        ctx.ob("A1", WB, "SRAM", "we[i] = cyc & stb & we & sel[i]", ok,
               "" if ok else f"{a.t} <= {a.v}: bytes that are not selected (or cycles that are not writes) modify the memory", a.line)
        ok = ("read_only", False) in a.pyguards
        ctx.ob("A1", WB, "SRAM", "we only when not read_only", ok, "" if ok else f"pyguards {a.pyguards}", a.line)
    dw = fx.find(domain="comb", target="port.dat_w")
    ok = len(dw) == 1 and dw[0].v == "bus.dat_w" and ("read_only", False) in dw[0].pyguards
    ctx.ob("A1", WB, "SRAM", "dat_w only when not read_only", ok, "" if ok else f"{[(a.v, a.pyguards) for a in dw]}")
    pd = fx.decl.get("port")
    ok = pd is not None and pd[1] is not None and any(k.arg == "write_capable" and norm(k.value) == "not read_only" for k in pd[1].keywords) and \
        any(k.arg == "we_granularity" and norm(k.value) == "8" for k in pd[1].keywords)
    ctx.ob("A1", WB, "SRAM", "port write_capable = not read_only, byte granular", ok, "" if ok else "memory port parameters changed")
    acks = fx.find(domain="sync", target="bus.ack")
    sets = [a for a in acks if a.v == "1"]
    clrs = [a for a in acks if a.v == "0"]
    ok = len(sets) == 1 and len(clrs) >= 1
    if ok:
        inl = q.Inliner(fx, sets[0], no_inline={"adr_burst"})
        G = inl.gformula(sets[0])
        ok = B.equivalent(G, B.from_expr("bus.cyc & bus.stb & (~bus.ack | adr_burst)"))
        # ack returns to 0 in every other cycle (effective, later-statement-wins guards)
        Gc = B.Or(*[q.Inliner(fx, c, no_inline={"adr_burst"}).gformula(c) for c in clrs])
        ok = ok and B.equivalent(Gc, B.Not(G))
    ctx.ob("A1", WB, "SRAM", "ack: default 0, set under cyc & stb & (~ack | burst)", ok,
           "" if ok else f"{[(a.v, a.gtext()) for a in acks]}: a cycle is acknowledged twice / never / without a request", sets[0].line if sets else 0)
    # burst wrap registers hold `x & adr_wrap_mask[bte]`: wide enough for the largest mask (a narrower start-offset register folds
    # the start of a wrap-8 / wrap-16 burst modulo 4: the later beats hit the wrong words of the block)
    from .. import pyconst
    init_ = ctx.mod(WB).method("SRAM", "__init__")
    loc_ = {}
    for st_ in ast.walk(init_):
        if isinstance(st_, ast.Assign) and len(st_.targets) == 1 and isinstance(st_.targets[0], ast.Name) and \
                st_.targets[0].id in ("adr_wrap_mask", "adr_wrap_max"):
            loc_[st_.targets[0].id] = st_.value
    masks = None
    mk = loc_.get("adr_wrap_mask")
    if isinstance(mk, ast.Call) and norm(mk.func) == "Array" and len(mk.args) == 1:
        mk = mk.args[0]
    try:
        masks = tuple(pyconst.Interp({}).ev(mk)) if mk is not None else None
    except Exception:       # noqa
        masks = None
    ok = masks is not None and len(masks) == 4 and all(isinstance(v, int) for v in masks)
    ctx.ob("A1", WB, "SRAM", "wrap masks are a literal table of four entries", ok, "" if ok else f"adr_wrap_mask = {norm(loc_.get('adr_wrap_mask')) if loc_.get('adr_wrap_mask') is not None else '?'}", init_)
    if ok:
        env_ = {"adr_wrap_mask": masks}
        try:
            if "adr_wrap_max" in loc_:
                env_["adr_wrap_max"] = pyconst.Interp(dict(env_)).ev(loc_["adr_wrap_max"])
        except Exception:   # noqa
            pass
        for reg_ in ("adr_counter_offset", "adr_offset_lsb"):
            d_ = fx.decl.get(reg_)
            nv = None
            if d_:
                class _NoArray(ast.NodeTransformer):        # Array(x) indexes like x
                    def visit_Call(self, n_):
                        self.generic_visit(n_)
                        return n_.args[0] if norm(n_.func) == "Array" and len(n_.args) == 1 else n_
                import copy as _copy
                nv = q.signal_values(_NoArray().visit(_copy.deepcopy(d_[1])), env_)
            ok_ = nv is not None and nv > max(masks)
            ctx.ob("A1", WB, "SRAM", f"{reg_} holds every offset inside the largest wrap block", ok_,
                   "" if ok_ else f"`{reg_} = {norm(d_[1]) if d_ else '?'}` holds {nv} values, the largest wrap mask is {max(masks):#b}: the "
                                  f"start offset of a wrap-{max(masks) + 1} burst is truncated, later beats address the wrong words", d_[1] if d_ else init_)
    adr = fx.find(domain="comb", target="port.adr")
    base = [a for a in adr if not a.guards]
    ovr = [a for a in adr if a.guards]
    ok = len(base) == 1 and base[0].v == "bus.adr[:len(port.adr)]" and len(ovr) == 1 and \
        q.EQ(ovr[0], B.from_expr("adr_burst & adr_latched")) and ovr[0].order > base[0].order and \
        ovr[0].v.startswith("adr_next[")
    ctx.ob("A1", WB, "SRAM", "address: bus.adr, overridden by the burst counter only under burst & latched", ok,
           "" if ok else f"{[(a.v, a.gtext()) for a in adr]}", ovr[0].line if ovr else 0)
    dr = fx.find(domain="comb", target="bus.dat_r")
    ok = len(dr) == 1 and dr[0].v == "port.dat_r" and not dr[0].guards
    ctx.ob("A1", WB, "SRAM", "dat_r from the port", ok, "" if ok else f"{[a.v for a in dr]}")
    # burst counter moves only inside a burst cycle
    for reg in ("adr_counter", "adr_latched"):
        for a in fx.find(domain="sync", target=reg):
            G = q.gformula(fx, a, no_inline={"adr_burst"})
            if a.v in ("adr_counter + 1", "1"):
                ok = B.entails(G, B.from_expr("bus.cyc & bus.stb & adr_burst"))
                ctx.ob("A1", WB, "SRAM", f"{reg} <= {a.v} only in a burst cycle", ok, "" if ok else f"under {B.show(G)}", a.line)

    # ================================================================ A2 UpConverter
    fx = fx_of(ctx, WB, "UpConverter")
    fail_closed(ctx, fx, "UpConverter")
    arms = [a for a in fx.find(domain="comb") if a.guards]
    ctx.ob("A2", WB, "UpConverter", "case arms:present", len(arms) == 4, f"{len(arms)} guarded assignments", 0)
    sel_k = None
    for a in arms:
        g = a.eff()
        ats = B.atoms(g)
        ok = len(ats) == 1 and ats[0].startswith("master.adr[:") and ats[0].endswith("] == i") and any(v == "i" for v, _ in a.loops)
        k = ats[0][len("master.adr[:"):ats[0].index("] == i")] if ok else None
        if sel_k is None:
            sel_k = k
        ok = ok and k == sel_k
        ctx.ob("A2", WB, "UpConverter", f"arm of {short(a.t, 30)} selected by master.adr[:k] == i", ok, "" if ok else f"guard {a.gtext()}", a.line)
    want = {"slave.adr": ("master.adr", None), "slave.sel": ("i * dw_from // 8", "(i + 1) * dw_from // 8"),
            "slave.dat_w": ("i * dw_from", "(i + 1) * dw_from")}
    for a in arms:
        base, lo, hi = _slice_parts(a.t)
        if base == "slave.adr":
            vb, vlo, vhi = _slice_parts(a.v)
            ok = vb == "master.adr" and vlo == sel_k and vhi is None
            ctx.ob("A2", WB, "UpConverter", "complementary split: forwarded adr[k:] with the selector's k", ok,
                   "" if ok else f"slave.adr <= {a.v} but the lane selector is master.adr[:{sel_k}]", a.line)
        elif base in ("slave.sel", "slave.dat_w"):
            ok = (lo, hi) == want[base] and a.v == base.replace("slave", "master")
            ctx.ob("A2", WB, "UpConverter", f"{base}: lane i of its own unit", ok, "" if ok else f"{a.t} <= {a.v}", a.line)
        elif base == "master.dat_r":
            vb, vlo, vhi = _slice_parts(a.v)
            ok = vb == "slave.dat_r" and (vlo, vhi) == ("i * dw_from", "(i + 1) * dw_from")
            ctx.ob("A2", WB, "UpConverter", "dat_r: lane i of the wide word", ok, "" if ok else f"master.dat_r <= {a.v}", a.line)
    for c in fx.conns:
        k = c["conn"]
        if norm(k.src) == "master" and norm(k.dst) == "slave":
            try:
                om = set(_lit_set(k.omit)) if k.omit is not None else set()
            except ValueError:
                om = None
            ok = om == {"adr", "sel", "dat_w", "dat_r"}
            ctx.ob("A2", WB, "UpConverter", "connect omits exactly the converted fields", ok, "" if ok else f"omit = {om}", c["node"])

    # ================================================================ A2 DownConverter
    fx = fx_of(ctx, WB, "DownConverter")
    fail_closed(ctx, fx, "DownConverter")
    prio(ctx, "PRIO", fx, "DownConverter")
    cnt = fx.find(domain="sync", target="count")
    inc = [a for a in cnt if a.v == "count + 1"]
    rst = [a for a in cnt if a.v == "0"]
    ok = len(inc) == 1 and len(rst) == 1 and len(cnt) == 2
    ctx.ob("A2", WB, "DownConverter", "count: one step, one reset", ok, f"{[(a.v, a.gtext()) for a in cnt]}")
    if ok:
        Gi = inc[0].eff()
        # effective: the later reset statement wins in the cycle that completes the master access
        ok1 = B.equivalent(Gi, B.from_expr("((slave.stb & slave.cyc & slave.ack) | skip) & ~(master.ack | ~master.cyc)"))
        ctx.ob("A2", WB, "DownConverter", "count steps on slave.stb & cyc & ack | skip", ok1, "" if ok1 else f"under {B.show(Gi)}", inc[0].line)
        Gr = rst[0].eff()
        ok2 = B.equivalent(Gr, B.from_expr("master.ack | ~master.cyc")) and rst[0].order >= inc[0].order and \
            fx.assigns.index(rst[0]) > fx.assigns.index(inc[0])
        ctx.ob("A2", WB, "DownConverter", "count reset on master.ack | ~cyc, with priority (later statement)", ok2,
               "" if ok2 else f"reset under {B.show(Gr)} / order", rst[0].line)
    from ..rules_stream import s_range
    s_range(ctx, "A2", fx, "DownConverter", "count")
    ma = fx.find(domain="comb", target="master.ack")
    ok = len(ma) == 1 and ma[0].v == "done" and q.EQ(ma[0], B.from_expr("master.stb & master.cyc & (slave.ack | skip)"))
    ctx.ob("A2", WB, "DownConverter", "master.ack = done under stb & cyc & (slave.ack | skip)", ok, "" if ok else f"{[(a.v, a.gtext()) for a in ma]}")
    d = fx.find(domain="comb", target="done")
    ok = len(d) == 1 and d[0].v == "count == ratio - 1"
    ctx.ob("A2", WB, "DownConverter", "done = count == ratio - 1", ok, "" if ok else f"{[a.v for a in d]}")
    sa = fx.find(domain="comb", target="slave.adr")
    ok = len(sa) == 1 and sa[0].v == "Cat(count, master.adr)"
    ctx.ob("A2", WB, "DownConverter", "slave.adr = Cat(count, master.adr)", ok, "" if ok else f"{[a.v for a in sa]}")
    for tgt, unit in (("slave.dat_w", "i * dw_to"), ("slave.sel", "i * dw_to // 8")):
        ds = fx.find(domain="comb", target=tgt)
        ok = len(ds) == 1 and q.EQ(ds[0], B.A("count == i"))
        if ok:
            vb, vlo, vhi = _slice_parts(ds[0].v)
            ok = vb == tgt.replace("slave", "master") and vlo == unit
        ctx.ob("A2", WB, "DownConverter", f"{tgt}: sub-word `count` of the master word", ok, "" if ok else f"{[(a.v, a.gtext()) for a in ds]}")
    sh = fx.find(domain="sync", target="dat_r")
    ok = len(sh) == 1 and sh[0].v == "master.dat_r" and q.EQ(sh[0], B.from_expr("slave.ack | skip"))
    ctx.ob("A2", WB, "DownConverter", "read shift register steps with each sub-word", ok, "" if ok else f"{[(a.v, a.gtext()) for a in sh]}")
    md = fx.find(domain="comb", target="master.dat_r")
    ok = len(md) == 1 and md[0].v == "Cat(dat_r[dw_to:], slave.dat_r)"
    ctx.ob("A2", WB, "DownConverter", "master.dat_r = Cat(shifted, slave.dat_r)", ok, "" if ok else f"{[a.v for a in md]}")
    for tgt in ("slave.cyc", "slave.stb"):
        ds = fx.find(domain="comb", target=tgt)
        ok = len(ds) == 1 and ds[0].v == "~skip" and q.EQ(ds[0], B.from_expr("master.stb & master.cyc"))
        ctx.ob("A2", WB, "DownConverter", f"{tgt} = ~skip within the master cycle", ok, "" if ok else f"{[(a.v, a.gtext()) for a in ds]}")
    sk = fx.find(domain="comb", target="skip")
    ok = len(sk) == 1 and B.entails(B.from_expr(sk[0].value), B.A("slave.sel == 0"))
    ctx.ob("A2", WB, "DownConverter", "skip only when no byte of the sub-word is selected", ok, "" if ok else f"{[a.v for a in sk]}")

    # cycle-type translation (decision table over master.cti x last sub-word x master.bte, the constants read from the module):
    # an incrementing burst stays one, the master's END beat ends the slave burst on its LAST sub-word only, everything else
    # (classic, constant-address, wrapping) is issued as classic cycles
    from .. import pyconst
    consts = pyconst.module_consts(ctx.mod(WB).tree)
    sc = fx.find(domain="comb", target="slave.cti")
    need = ("CTI_BURST_NONE", "CTI_BURST_INCREMENTING", "CTI_BURST_END")
    bad = None
    if not sc or any(not isinstance(consts.get(k), int) for k in need):
        bad = "slave.cti is not driven / the CTI_* constants are no longer literals"
    else:
        none_, inc_, end_ = (consts[k] for k in need)
        for cti in range(8):
            for last in (0, 1):
                for bte in (0, 1, 2, 3):
                    env = {"master.cti": cti, "done": last, "count == ratio - 1": last, "master.bte": bte}
                    try:
                        got = q.concrete_value(fx, sc, env, consts, default=0)
                    except q.NotConcrete as ex:
                        bad = f"slave.cti depends on `{ex}`, which the table does not fix"
                        break
                    want = none_ if bte else (inc_ if cti == inc_ else ((end_ if last else inc_) if cti == end_ else none_))
                    if got != want and bad is None:
                        bad = f"master.cti={cti:#05b}, {'last' if last else 'not the last'} sub-word, master.bte={bte}: slave.cti = {got:#05b}, expected {want:#05b}"
                if bad:
                    break
            if bad:
                break
    ctx.ob("A2", WB, "DownConverter", "cycle type: INCREMENTING kept, END only on the last sub-word, anything else classic", bad is None, bad or "",
           sc[0].line if sc else 0)

    # ================================================================ A3 Cache
    fx = fx_of(ctx, WB, "Cache")
    fail_closed(ctx, fx, "Cache")
    fsm_sanity(ctx, "A3", fx, "Cache")
    prio(ctx, "PRIO", fx, "Cache")
    ctx.need(len(fx.fsms) == 1, "Cache: expected one FSM")
    info = list(fx.fsms.values())[0]
    edges = {}
    for t in fx.trans:
        edges.setdefault(t.src, set()).add(t.dst)
    want = {"IDLE": {"TEST_HIT"}, "TEST_HIT": {"IDLE", "EVICT", "REFILL"}, "EVICT": {"REFILL"}, "REFILL": {"TEST_HIT", "REFILL"}}
    ok = edges == want
    ctx.ob("A3", WB, "Cache", "FSM graph IDLE/TEST_HIT/EVICT/REFILL", ok, "" if ok else f"{edges}")
    mw = [a for a in fx.find(domain="comb", target="data_port.we") if "master.sel" in a.v]
    ok = len(mw) == 1 and q.IMP(mw[0], B.from_expr("master.cyc & master.stb & master.we & master.ack & ~write_from_slave"))
    ctx.ob("A3", WB, "Cache", "master byte enables only on an acknowledged write", ok, "" if ok else f"{[(a.v, a.gtext()) for a in mw]}")
    dirty = fx.find(domain="comb", target="tag_di.dirty")
    ok = len(dirty) == 1 and dirty[0].state[1] == "TEST_HIT" and q.IMP(dirty[0], B.from_expr("master.we & (tag_do.tag == adr_tag)"))
    ctx.ob("A3", WB, "Cache", "dirty set only by a write hit", ok, "" if ok else f"{[(a.state, a.gtext()) for a in dirty]}")
    # a tag write on a hit re-writes the whole entry: it must carry dirty = 1, or a read hit would clean a modified line
    hit = B.A("tag_do.tag == adr_tag")
    Gd = dirty[0].eff() if dirty else B.F
    tws = [a for a in fx.find(domain="comb", target="tag_port.we") if a.state and a.state[1] == "TEST_HIT" and a.v == "1"]
    ctx.ob("A3", WB, "Cache", "tag writes in TEST_HIT:present", len(tws) >= 2, f"{len(tws)} tag writes in TEST_HIT", 0)
    for a in tws:
        G = B.And(a.eff(), hit)
        ok = B.entails(G, Gd)
        ctx.ob("A3", WB, "Cache", "a tag write on a hit sets dirty (never cleans a modified line)", ok,
               "" if ok else f"tag_port.we under {B.show(a.eff())} can fire on a hit without tag_di.dirty = 1 ({B.show(Gd)}): the dirty bit "
                             f"of a modified line is cleared, its write-back is skipped on eviction; e.g. {B.counterexample(G, Gd)}", a.line)
    wfs = fx.find(domain="comb", target="write_from_slave")
    ok = len(wfs) == 1 and wfs[0].state[1] == "REFILL" and q.EQ(wfs[0], B.A("slave.ack"))
    ctx.ob("A3", WB, "Cache", "line written from the slave only in REFILL on slave.ack", ok, "" if ok else f"{[(a.state, a.gtext()) for a in wfs]}")
    ack = fx.find(domain="comb", target="master.ack")
    ok = len(ack) == 1 and ack[0].state[1] == "TEST_HIT" and q.EQ(ack[0], B.A("tag_do.tag == adr_tag"))
    ctx.ob("A3", WB, "Cache", "master acknowledged only on a tag hit", ok, "" if ok else f"{[(a.state, a.gtext()) for a in ack]}")
    # tag written on both miss paths into REFILL
    for t in [t for t in fx.trans if t.dst == "REFILL" and t.src != "REFILL"]:
        G = t.eff()
        tw = [a for a in fx.find(domain="comb", target="tag_port.we") if a.state == (info.id, t.src)]
        ok = any(B.entails(G, a.eff()) for a in tw)
        ctx.ob("A3", WB, "Cache", f"tag written when {t.src} enters REFILL", ok,
               "" if ok else f"{t.src}->REFILL under {B.show(G)} without tag_port.we: the refill uses the evicted line's address", t.line)
        wc = [a for a in fx.find(domain="comb", target="word_clr") if a.state == (info.id, t.src)]
        ok = any(B.entails(G, a.eff()) for a in wc)
        ctx.ob("A3", WB, "Cache", f"word counter cleared when {t.src} enters REFILL", ok, "" if ok else "word not cleared", t.line)
    # ... and only then: while a dirty line is written back the tag still holds its slave address; replacing it before the last
    # word went out sends the remaining words to the new line's address
    for a in [a for a in fx.find(domain="comb", target="tag_port.we") if a.v == "1" and a.state and a.state[1] not in ("TEST_HIT", "IDLE")]:
        outs = [t.eff() for t in fx.trans if t.src == a.state[1] and t.dst == "REFILL"]
        ok = bool(outs) and B.entails(a.eff(), B.Or(*outs) if len(outs) > 1 else outs[0])
        ctx.ob("A3", WB, "Cache", f"tag replaced in {a.state[1]} only on the step that leaves for REFILL", ok,
               "" if ok else f"tag_port.we under {B.show(a.eff())} in {a.state[1]}: fires before the write-back of the line is complete "
                             f"(e.g. {B.counterexample(a.eff(), B.Or(*outs) if len(outs) > 1 else outs[0]) if outs else '-'}): the rest of the dirty "
                             f"line is written to the new line's address", a.line)
    ev = [t for t in fx.trans if t.src == "TEST_HIT" and t.dst == "EVICT"]
    ok = len(ev) == 1 and q.IMP(ev[0], B.from_expr("tag_do.dirty & ~(tag_do.tag == adr_tag)"))
    ctx.ob("A3", WB, "Cache", "evict only dirty lines on a miss", ok, "" if ok else f"{[t.gtext() for t in ev]}")
    for st in ("EVICT", "REFILL"):
        wi = [a for a in fx.find(domain="comb", target="word_inc") if a.state == (info.id, st)]
        ok = len(wi) == 1 and q.EQ(wi[0], B.A("slave.ack"))
        ctx.ob("A3", WB, "Cache", f"word steps per slave.ack in {st}", ok, "" if ok else f"{[a.gtext() for a in wi]}")
        swe = [a for a in fx.find(domain="comb", target="slave.we") if a.state == (info.id, st)]
        ok = len(swe) == 1 and swe[0].v == ("1" if st == "EVICT" else "0")
        ctx.ob("A3", WB, "Cache", f"slave.we = {'1' if st == 'EVICT' else '0'} in {st}", ok, "" if ok else f"{[a.v for a in swe]}")
    # the line ends with the LAST value the word counter can take: `word == E` on the steps EVICT -> REFILL and REFILL -> TEST_HIT,
    # E evaluated by the checker for wordbits = 1..5 against the declared width of `word` (a shorter count leaves the upper slave
    # words of every line neither written back nor refilled; a longer one never ends)
    from .. import pyconst
    wdecl = None
    for st_ in ast.walk(ctx.mod(WB).cls("Cache")):
        if isinstance(st_, ast.Assign) and any(norm(t_) == "word" for t_ in st_.targets):
            for c_ in ast.walk(st_.value):
                if isinstance(c_, ast.Call) and norm(c_.func) == "Signal":
                    wdecl = c_
    for t in [t for t in fx.trans if (t.src, t.dst) in (("EVICT", "REFILL"), ("REFILL", "TEST_HIT"))]:
        cmp_ = [n_ for g_, pol_ in t.guards if pol_ for n_ in ast.walk(g_)
                if isinstance(n_, ast.Compare) and len(n_.ops) == 1 and isinstance(n_.ops[0], ast.Eq) and norm(n_.left) == "word"]
        bad = None
        if len(cmp_) != 1 or wdecl is None:
            bad = f"end-of-line test not recognised in {t.gtext()}"
        else:
            for wb in range(1, 6):
                try:
                    got = pyconst.Interp({"wordbits": wb}).ev(cmp_[0].comparators[0])
                except Exception as e:          # noqa
                    got = f"? ({type(e).__name__})"
                n_vals = q.signal_values(wdecl, {"wordbits": wb})
                if n_vals is None or got != n_vals - 1:
                    bad = (f"wordbits={wb}: the line is taken as complete at word == {got}, the counter `{norm(wdecl)}` runs to "
                           f"{(n_vals or 0) - 1}: slave words {got + 1 if isinstance(got, int) else '?'}..{(n_vals or 0) - 1} of every line are "
                           f"never transferred")
                    break
        ctx.ob("A3", WB, "Cache", f"{t.src} -> {t.dst}: line complete at the last value of the word counter (wordbits 1..5)", bad is None,
               bad or "", t.line)
    wd = fx.find(domain="sync", target="word")
    ok = len(wd) == 2 and all(B.entails(q.gformula(fx, a, inline=False), B.from_expr("word_clr | word_inc")) for a in wd)
    ctx.ob("A3", WB, "Cache", "word register moves only via word_clr/word_inc", ok, "" if ok else f"{[(a.v, a.gtext()) for a in wd]}")
    sadr = fx.find(domain="comb", target="slave.adr")
    import re as _re

    def _pos(v, name):
        m_ = _re.search(r"\b" + _re.escape(name) + r"\b", v)
        return m_.start() if m_ else -1
    # Cat(word?, adr_line, tag_do.tag), least significant first; the word index is present when the slave bus is narrower
    ok = bool(sadr) and all(a.v.startswith("Cat(") and 0 <= _pos(a.v, "adr_line") < _pos(a.v, "tag_do.tag") and
                            (_pos(a.v, "word") < 0 or _pos(a.v, "word") < _pos(a.v, "adr_line")) for a in sadr) and \
        any(_pos(a.v, "word") >= 0 for a in sadr)
    ctx.ob("A3", WB, "Cache", "slave address = {word, line, stored tag}", ok, "" if ok else f"{[a.v for a in sadr]}")

    # ================================================================ A4 Remapper
    m = ctx.mod(WB)
    rm = m.method("Remapper", "__init__")
    ifs = [n for n in ast.walk(rm) if isinstance(n, ast.If) and norm(n.test) == "master.addressing == 'word'"]
    ok = len(ifs) == 1
    ctx.ob("A4", WB, "Remapper", "word-addressing conversion:present", ok, "no `if master.addressing == 'word'` block", rm)
    if ok:
        aug = [n for n in ifs[0].body if isinstance(n, ast.AugAssign)]
        d = {norm(n.target): (type(n.op).__name__, norm(n.value)) for n in aug}
        ok = set(d) == {"log2_size", "origin"} and d["log2_size"][0] == "Sub" and d["origin"][0] == "RShift" and \
            d["log2_size"][1] == d["origin"][1] and "len(master.dat_w) // 8" in d["origin"][1]
        ctx.ob("A4", WB, "Remapper", "origin >>= s and log2_size -= s with one s", ok, "" if ok else f"{d}", ifs[0])
    fx = fx_of(ctx, WB, "Remapper")
    sa = [a for a in fx.find(domain="comb", target="slave.adr") if not a.guards]
    ok = len(sa) == 1 and B.equivalent(B.from_expr(sa[0].value), B.from_expr("origin | (master.adr & adr_mask)"))
    ctx.ob("A4", WB, "Remapper", "slave.adr = origin | (master.adr & mask)", ok, "" if ok else f"{[a.v for a in sa]}")
    sh = [a for a in fx.find(domain="comb") if a.t in ("src_adr",) or (a.t == "slave.adr" and a.guards)]
    l = [a.v for a in sh if a.t == "src_adr"]
    r = [a.v for a in sh if a.t == "slave.adr"]
    ok = len(l) == 1 and len(r) == 1 and " << " in l[0] and " >> " in r[0] and l[0].split(" << ")[1] == r[0].split(" >> ")[1]
    ctx.ob("A4", WB, "Remapper", "region remap shifts up and down by the same amount", ok, "" if ok else f"{l} / {r}")
    # window membership is the half-open interval [origin, origin + size): conjunction of  src >= origin  and  src < origin + size
    from .. import lin
    ac = fx.find(domain="comb", target="active")
    ok = len(ac) == 1 and not ac[0].guards
    lo = hi = None
    if ok:
        def conj(e):
            if isinstance(e, ast.BinOp) and isinstance(e.op, ast.BitAnd):
                return conj(e.left) + conj(e.right)
            return [e]
        for c in conj(ac[0].value):
            if not (isinstance(c, ast.Compare) and len(c.ops) == 1):
                continue
            op, lft, rgt = type(c.ops[0]), c.left, c.comparators[0]
            if norm(rgt) == "src_adr":
                lft, rgt = rgt, lft
                op = {ast.Lt: ast.Gt, ast.LtE: ast.GtE, ast.Gt: ast.Lt, ast.GtE: ast.LtE}.get(op)
            if norm(lft) != "src_adr":
                continue
            T = lin.linform(rgt)
            if op is ast.GtE:
                lo = T
            elif op is ast.Gt:
                lo = lin.add(T, lin.const(1))
            elif op is ast.Lt:
                hi = T
            elif op is ast.LtE:
                hi = lin.add(T, lin.const(1))
        src = None
        if lo is not None and len(lo) == 1:
            (k, c), = lo.items()
            if c == 1 and isinstance(k, str) and k.endswith(".origin"):
                src = k[:-len(".origin")]
        ok = src is not None and hi == {src + ".origin": 1, src + ".size": 1} and len(conj(ac[0].value)) == 2
    ctx.ob("A4", WB, "Remapper", "region window = [origin, origin + size) (first address past the window passes through)", ok,
           "" if ok else f"active = {ac[0].v if ac else '?'}: lower bound {lin.show(lo) if lo is not None else '?'}, exclusive upper bound "
                         f"{lin.show(hi) if hi is not None else '?'}: an address outside the source region is redirected (or one inside is not)",
           ac[0].line if ac else 0)
    da = fx.find(domain="comb", target="dst_adr")
    df = lin.linform(da[0].value) if len(da) == 1 else {}
    pos = [k for k, c in df.items() if c == 1 and isinstance(k, str) and k.endswith(".origin")]
    neg = [k for k, c in df.items() if c == -1 and isinstance(k, str) and k.endswith(".origin")]
    ok = len(da) == 1 and len(df) == 3 and df.get("src_adr") == 1 and len(pos) == 1 and len(neg) == 1 and "dst" in pos[0] and "src" in neg[0]
    ctx.ob("A4", WB, "Remapper", "dst = dst.origin + (src - src.origin)", ok, "" if ok else f"{[a.v for a in da]}")
    ra = [a for a in fx.find(domain="comb", target="slave.adr") if a.guards]
    ok = len(ra) == 1 and q.EQ(ra[0], B.A("active")) and ra[0].v.startswith("dst_adr >>")
    ctx.ob("A4", WB, "Remapper", "redirected exactly when active", ok, "" if ok else f"{[(a.v, a.gtext()) for a in ra]}")

    # ================================================================ A5 Wishbone2CSR
    fx = fx_of(ctx, WB, "Wishbone2CSR")
    fail_closed(ctx, fx, "Wishbone2CSR")
    fsm_sanity(ctx, "A5", fx, "Wishbone2CSR")
    ctx.need(len(fx.fsms) == 2, "Wishbone2CSR: expected registered and combinational variants")
    for info in fx.fsms.values():
        reg = ("register", True) in info.pyguards
        tag = "registered" if reg else "comb"
        for strobe, pol in (("self.csr.we", "self.wishbone.we"), ("self.csr.re", "~self.wishbone.we")):
            ds = [a for a in fx.find(target=strobe) if a.state and a.state[0] == info.id and a.v != "0"]
            ok = len(ds) == 1
            if ok:
                f = B.from_expr(ds[0].value)
                ok = B.equivalent(f, B.from_expr(f"{pol} & (self.wishbone.sel != 0)")) and \
                    q.EQ(ds[0], B.from_expr("self.wishbone.cyc & self.wishbone.stb"))
            ctx.ob("A5", WB, "Wishbone2CSR", f"{tag}: {strobe} = {pol} & sel != 0 under cyc & stb", ok,
                   "" if ok else f"{[(a.v, a.gtext()) for a in ds]}", ds[0].line if ds else 0)
        acks = [a for a in fx.find(domain="comb", target="self.wishbone.ack") if a.state and a.state[0] == info.id]
        ok = len(acks) == 1 and acks[0].state[1] == "ACK" and acks[0].v == "1"
        ctx.ob("A5", WB, "Wishbone2CSR", f"{tag}: ack only in ACK", ok, "" if ok else f"{[(a.state, a.v) for a in acks]}")
        dr = [a for a in fx.find(domain="comb", target="self.wishbone.dat_r") if a.state and a.state[0] == info.id]
        ok = len(dr) == 1 and dr[0].v == "self.csr.dat_r" and dr[0].state[1] == "ACK"
        ctx.ob("A5", WB, "Wishbone2CSR", f"{tag}: read data returned in ACK", ok, "" if ok else f"{[(a.state, a.v) for a in dr]}")
        adr = [a for a in fx.find(target="self.csr.adr") if a.state and a.state[0] == info.id and a.v != "0"]
        ok = len(adr) == 1 and adr[0].v.startswith("self.wishbone.adr[") and adr[0].v.endswith(":]")
        ctx.ob("A5", WB, "Wishbone2CSR", f"{tag}: csr.adr = wishbone.adr[shift:]", ok, "" if ok else f"{[a.v for a in adr]}")
        # ... and the shift is the one that turns the master's address into the index of its own data word: 0 on a word-addressed
        # bus, log2(bus bytes) on a byte-addressed one, whatever the CSR side's width is (bound evaluated by the checker's interpreter)
        if ok:
            from .. import pyconst as _pc7
            import math as _m7
            v7 = fx.expand(adr[0].value, depth=6)
            low7 = v7.slice.lower if isinstance(v7, ast.Subscript) and isinstance(v7.slice, ast.Slice) else None
            bad7 = None
            n7 = 0
            for addressing in ("word", "byte"):
                for wdw in (32, 64):
                    for cdw in (8, 32):
                        env7 = {"self": _pc7.NS(wishbone=_pc7.NS(data_width=wdw, addressing=addressing, adr_width=30), csr=_pc7.NS(data_width=cdw, address_width=14)),
                                "log2_int": _pc7.Native(lambda n, need_pow2=True: int(_m7.log2(n))), "register": reg}
                        try:
                            got7 = 0 if low7 is None else _pc7.Interp(env7, exact=True).ev(low7)
                        except Exception as ex7:      # noqa
                            got7 = f"<{type(ex7).__name__}>"
                        n7 += 1
                        want7 = 0 if addressing == "word" else int(_m7.log2(wdw // 8))
                        if got7 != want7 and bad7 is None:
                            bad7 = f"{addressing}-addressed {wdw}-bit bus, {cdw}-bit CSR side: csr.adr = wishbone.adr[{got7}:], the word index of the " \
                                   f"master's address is wishbone.adr[{want7}:]: consecutive bus words land {2 ** (want7 - got7) if isinstance(got7, int) and got7 <= want7 else '?'} " \
                                   f"CSR locations apart, distinct words alias or fall outside the bank"
            ctx.ob("A5", WB, "Wishbone2CSR", f"{tag}: address shift = 0 (word addressing) / log2(bus bytes) (byte addressing), 8 configurations", bad7 is None and n7 == 8,
                   bad7 or "", adr[0].line)
        first = [t for t in fx.trans if t.fsm == info.id and t.src == info.reset_state]
        ok = len(first) == 1 and q.EQ(first[0], B.from_expr("self.wishbone.cyc & self.wishbone.stb"))
        ctx.ob("A5", WB, "Wishbone2CSR", f"{tag}: access starts only on cyc & stb", ok, "" if ok else f"{[t.gtext() for t in first]}")
        if reg:
            for strobe in ("self.csr.we", "self.csr.re"):
                z = [a for a in fx.find(target=strobe) if a.state == (info.id, "WRITE-READ") and a.v == "0"]
                ctx.ob("A5", WB, "Wishbone2CSR", f"registered: {strobe} is a one-cycle pulse", len(z) == 1, f"{strobe} not cleared in WRITE-READ")
