"""C08 -- AXI-Lite / AXI interconnect keeps grants and routes until every response has returned.

Decided (structural, necessary), applied to both sibling files: L1 outstanding counters (+1 on request &
~full, -1 on response & ~empty, both-at-once keeps, ready = empty); L2 arbiter: two SP_CE round-robins whose
ce needs lock.ready and an idle target, lock request/response are the target-side handshakes (AXI: read
response qualified by r.last), slave->master valid/ready only under grant == i, master->slave through
choices[grant], requests cover every channel valid of the direction; L3 decoder: select register updated only
when unlocked, final = live decode when unlocked else the register, master->slave valid/ready masked by
select[dir(channel)][i] with the slave's own i, slave->master OR-mux masked alike, channel->direction table covers
the five channels; L4 the set of slave-driven channels is {b, r} in connect_axi, layout_flat and connect_to_pads;
L5 while locked a request must not be presented by the frozen select alone (fails: known findings, 2 classes).
Not decided: issue-order delivery, fairness, independence of read and write progress."""
import ast
from ..core import AnalysisError, norm, cnorm, const_fold
from .. import boolx as B
from .. import q
from ..rules_stream import fx_of, fail_closed, prio, short

AL = "litex/soc/interconnect/axi/axi_lite.py"
AF = "litex/soc/interconnect/axi/axi_full.py"
AC = "litex/soc/interconnect/axi/axi_common.py"

EXPLANATION = ("FHDL IR of the AXI-Lite and AXI arbiters/decoders/request counters extracted from the AST (channel loops over "
               "layout_flat() kept symbolic in channel/name, conditional masks as conditional expressions); guard entailment for "
               "the counters and clock enables; index agreement between select bit and slave; literal channel-role tables.")
TECHNIQUE = ("AST-extracted FHDL IR + guard entailment + index agreement + role tables by abstract interpretation of connect"
             "_axi / axi_layout_flat on model interfaces (sibling files cross-checked)")

FAMILIES = [
    (AL, "_AXILiteRequestCounter", "AXILiteArbiter", "AXILiteDecoder", False),
    (AF, "_AXIRequestCounter", "AXIArbiter", "AXIDecoder", True),
]


def _rr_of_channel(expr_text):
    """'(self.rr_write if channel in ['aw','w','b'] else self.rr_read)' -> (write_channels, rr_true, rr_false)"""
    try:
        n = ast.parse(expr_text, mode="eval").body
    except SyntaxError:
        return None
    for x in ast.walk(n):
        if isinstance(x, ast.IfExp) and isinstance(x.test, ast.Compare) and norm(x.test.left) == "channel" and \
                isinstance(x.test.ops[0], ast.In):
            try:
                chans = set(const_fold(x.test.comparators[0]))
            except ValueError:
                return None
            return chans, norm(x.body), norm(x.orelse)
    return None


def lock_counter_range(ctx, rid):
    """The outstanding-request counters of the arbiter / decoder locks stay inside 0..max-1 (shared with C11: the watchdog answers
    requests the slaves never counted -- a decrement that is not guarded by ~empty wraps the counter to its top, `full` then blocks
    every increment, the lock never reads ready again and the bus hangs after the first time-out)."""
    from ..rules_stream import s_range
    n = 0
    for rel, ccls, acls, dcls, full in FAMILIES:
        n += s_range(ctx, rid, fx_of(ctx, rel, ccls), ccls, "self.counter")
    return n


def _grant_freeze(ctx, rid, rel, acls, fx):
    for rr, lock, chans in (("self.rr_write", "self.wr_lock", ("aw", "w", "b")), ("self.rr_read", "self.rd_lock", ("ar", "r"))):
        ce = fx.find(domain="comb", target=f"{rr}.ce")
        ok = len(ce) == 1 and not ce[0].guards
        if ok:
            fce = B.from_expr(ce[0].value)
            ok = B.entails(fce, B.A(f"{lock}.ready")) and all(B.entails(fce, B.Not(B.A(f"target.{c}.valid"))) for c in chans)
        ctx.ob(rid, rel, acls, f"{rr}.ce needs {lock}.ready and an idle target", ok,
               "" if ok else f"{rr}.ce <= {ce[0].v if ce else '?'}: arbitration can change while responses are outstanding",
               ce[0].line if ce else 0)


def _response_routing(ctx, rid, rel, acls, fx):
    # S->M valid/ready gated by grant == i of the channel's own round-robin
    gated = [a for a in fx.find(domain="comb") if a.t == "getattr(getattr(masters[i], channel), name)"]
    vr = [a for a in gated if ("name in ['valid', 'ready']", True) in a.pyguards]
    ctx.ob(rid, rel, acls, "S->M valid/ready wiring:present", len(vr) == 1, f"{len(vr)} gated drivers", 0)
    for a in vr:
        ats = B.atoms(a.eff())
        r = _rr_of_channel(ats[0].split(".grant == ")[0]) if len(ats) == 1 and ".grant == i" in ats[0] else None
        ok = r is not None and r[0] == {"aw", "w", "b"} and r[1] == "self.rr_write" and r[2] == "self.rr_read" and \
            a.v == "getattr(getattr(target, channel), name)"
        ctx.ob(rid, rel, acls, "S->M valid/ready to master i only under grant == i of the channel's round-robin", ok,
               "" if ok else f"under {a.gtext()}: a response/ready reaches a master that does not own the channel", a.line)


def arbiter_grant_freeze(ctx, rid):
    """The arbiters' grant is frozen while any channel of the target is valid, responses included (shared with C11: the watchdog's
    error response is a b/r.valid the lock counters never counted -- when the request's address beat was not accepted, e.g. W before
    AW -- and only the response term keeps the grant on the master that is being answered; without it the error goes to another
    master and that master's own request is swallowed)."""
    for rel, ccls, acls, dcls, full in FAMILIES:
        _grant_freeze(ctx, rid, rel, acls, fx_of(ctx, rel, acls))
        _response_routing(ctx, rid, rel, acls, fx_of(ctx, rel, acls))


def run(ctx):
    ctx.rule("L1", "request counter: +1 only on request & ~full & ~response, -1 only on response & ~empty & ~request, ready is "
                   "empty, empty = counter == 0", min_sites=14)
    ctx.rule("L2", "arbiter: SP_CE round-robins; ce entails lock.ready and an idle target; lock request/response = target "
                   "handshakes (read response & last for AXI); S->M valid/ready under grant == i; M->S via choices[grant]; "
                   "requests OR every channel valid of the direction", min_sites=22)
    ctx.rule("L3", "decoder: select register written only under lock.ready; final select = decode when unlocked else register; "
                   "M->S valid/ready masked by select[direction(channel)][i] for slave i; S->M OR-mux masked alike; decode on "
                   "aw/ar address; channel->direction table covers aw,w,b / ar,r", min_sites=18)
    ctx.rule("L4", "slave-driven channels are exactly {b, r} in connect_axi, layout_flat and connect_to_pads", min_sites=3)
    ctx.rule("L5", "routing follows the address: while locked, the request-channel mask must depend on the live decode", min_sites=2)

    ctx.rule("L6", "crossbar access matrix is indexed [master][slave]: decoders take rows, arbiters take columns (non-square "
                   "crossbars keep every master and every slave connected)", min_sites=4)
    from ..rules_xbar import crossbar_shape
    crossbar_shape(ctx, "L6", AL, "AXILiteCrossbar", "AXILiteDecoder", "AXILiteArbiter")
    crossbar_shape(ctx, "L6", AF, "AXICrossbar", "AXIDecoder", "AXIArbiter")
    ctx.rule("L8", "a request is routed by its address: the internal busses of the shared interconnects and crossbars (AXI-Lite and "
                   "AXI) are as wide as the widest master's address -- constructors interpreted on masters of different widths in "
                   "both orders", min_sites=4)
    from ..rules_xbar import internal_bus_width
    internal_bus_width(ctx, "L8", AL, ("AXILiteInterconnectShared", "AXILiteCrossbar"), "AXILiteInterface", "address_width", "address_width",
                       extra_funcs=("litex/soc/interconnect/axi/axi_common.py",))
    internal_bus_width(ctx, "L8", AF, ("AXIInterconnectShared", "AXICrossbar"), "AXIInterface", "address_width", "address_width",
                       extra_funcs=("litex/soc/interconnect/axi/axi_common.py",))
    for rel, ccls, acls, dcls, full in FAMILIES:
    # ============================================================ L1
        from ..rules_stream import s_range
        s_range(ctx, "L1", fx_of(ctx, rel, ccls), ccls, "self.counter")
        fx = fx_of(ctx, rel, ccls)
        fail_closed(ctx, fx, ccls)
        prio(ctx, "L1", fx, ccls) if False else None
        cnt = fx.find(domain="sync", target="self.counter")
        inc = [a for a in cnt if a.v == "self.counter + 1"]
        dec = [a for a in cnt if a.v == "self.counter - 1"]
        keep = [a for a in cnt if a.v == "self.counter"]
        ok = len(inc) == 1 and len(dec) == 1 and len(cnt) == len(inc) + len(dec) + len(keep)
        ctx.ob("L1", rel, ccls, "counter: one increment, one decrement", ok, f"{[(a.v, a.gtext()) for a in cnt]}")
        if ok:
            inl = q.Inliner(fx, inc[0], no_inline={"self.full", "self.empty"})
            Gi = inl.gformula(inc[0])
            ok1 = B.entails(Gi, B.from_expr("request & ~self.full & ~response"))
            ctx.ob("L1", rel, ccls, "+1 only on request & ~full without a simultaneous response", ok1,
                   "" if ok1 else f"counter+1 under {B.show(Gi)}: the lock opens while a response is outstanding / counts twice", inc[0].line)
            Gd = q.Inliner(fx, dec[0], no_inline={"self.full", "self.empty"}).gformula(dec[0])
            ok2 = B.entails(Gd, B.from_expr("response & ~self.empty & ~request"))
            ctx.ob("L1", rel, ccls, "-1 only on response & ~empty without a simultaneous request", ok2,
                   "" if ok2 else f"counter-1 under {B.show(Gd)}", dec[0].line)
            # every request / response is counted unless both coincide or the counter saturates
            ok3 = B.entails(B.from_expr("request & ~response & ~self.full"), Gi) and B.entails(B.from_expr("response & ~request & ~self.empty"), Gd)
            ctx.ob("L1", rel, ccls, "every lone request / response moves the counter", ok3,
                   "" if ok3 else "a request or response can go uncounted", inc[0].line)
        e = fx.find(domain="comb", target="self.empty")
        ok = len(e) == 1 and e[0].v == "self.counter == 0"
        ctx.ob("L1", rel, ccls, "empty = counter == 0", ok, "" if ok else f"{[a.v for a in e]}")
        f = fx.find(domain="comb", target="self.full")
        ok = len(f) == 1 and f[0].v == "self.counter == max_requests - 1"
        ctx.ob("L1", rel, ccls, "full = counter == max - 1", ok, "" if ok else f"{[a.v for a in f]}")
        rdy = fx.attr.get("self.ready")
        ok = rdy is not None and not isinstance(rdy, str) and norm(rdy) == "self.empty"
        ctx.ob("L1", rel, ccls, "ready is empty", ok, "" if ok else f"self.ready = {norm(rdy) if rdy is not None else '?'}")

        # ============================================================ L2
        fx = fx_of(ctx, rel, acls)
        fail_closed(ctx, fx, acls)
        ins = {i.name: i for i in fx.insts}
        for rr in ("self.rr_write", "self.rr_read"):
            i = ins.get(rr)
            ok = i is not None and i.cls.endswith("RoundRobin") and len(i.call.args) == 2 and norm(i.call.args[0]) == "len(masters)" and \
                norm(i.call.args[1]).endswith("SP_CE")
            ctx.ob("L2", rel, acls, f"{rr} = RoundRobin(len(masters), SP_CE)", ok, "" if ok else f"{i}")
        _grant_freeze(ctx, "L2", rel, acls, fx)
        for rr, lock, chans in (("self.rr_write", "self.wr_lock", ("aw", "w", "b")), ("self.rr_read", "self.rd_lock", ("ar", "r"))):
            rq = fx.find(domain="comb", target=f"{rr}.request")
            ok = len(rq) == 1 and not rq[0].guards
            if ok:
                v = rq[0].value
                els = q.star_elements(v.args[0]) if isinstance(v, ast.Call) and norm(v.func) == "Cat" and len(v.args) == 1 and \
                    isinstance(v.args[0], ast.Starred) else None
                ok = bool(els) and len(els) == 1 and els[0][2] == "masters"
                if ok:
                    m = els[0][1]
                    fr = B.from_expr(els[0][0])
                    ok = B.equivalent(fr, B.Or(*[B.A(f"{m}.{c}.valid") for c in chans]))
            ctx.ob("L2", rel, acls, f"{rr}.request = OR of the masters' {'/'.join(chans)} valids", ok,
                   "" if ok else f"{rr}.request <= {rq[0].v if rq else '?'}", rq[0].line if rq else 0)
        wl, rl = ins.get("self.wr_lock"), ins.get("self.rd_lock")
        kw = lambda i: {k.arg: norm(k.value) for k in i.call.keywords} if i is not None and i.call is not None else {}
        ok = wl is not None and wl.cls == ccls and B.equivalent(B.from_expr(kw(wl).get("request", "0")), B.from_expr("target.aw.valid & target.aw.ready")) and \
            B.equivalent(B.from_expr(kw(wl).get("response", "0")), B.from_expr("target.b.valid & target.b.ready"))
        ctx.ob("L2", rel, acls, "write lock counts aw handshakes against b handshakes on the target", ok, "" if ok else f"{kw(wl)}")
        want_resp = "target.r.valid & target.r.ready & target.r.last" if full else "target.r.valid & target.r.ready"
        ok = rl is not None and rl.cls == ccls and B.equivalent(B.from_expr(kw(rl).get("request", "0")), B.from_expr("target.ar.valid & target.ar.ready")) and \
            B.equivalent(B.from_expr(kw(rl).get("response", "0")), B.from_expr(want_resp))
        ctx.ob("L2", rel, acls, "read lock counts ar handshakes against " + ("last-qualified " if full else "") + "r handshakes", ok,
               "" if ok else f"{kw(rl)}: " + ("a burst read releases the grant after its first beat" if full else "read lock mis-counted"))
        _response_routing(ctx, "L2", rel, acls, fx)
        m2s = [a for a in fx.find(domain="comb") if a.t == "getattr(getattr(target, channel), name)"]
        ok = len(m2s) == 1 and not m2s[0].guards
        if ok:
            v = m2s[0].value
            ok = isinstance(v, ast.Subscript) and isinstance(v.value, ast.Call) and norm(v.value.func) == "Array" and len(v.value.args) == 1 and \
                q.elementwise(v.value.args[0]) == ("getattr(getattr(@, channel), name)", "masters")
            r = _rr_of_channel(norm(v.slice)) if ok else None
            ok = ok and r is not None and r[0] == {"aw", "w", "b"} and r[1] == "self.rr_write" and r[2] == "self.rr_read" and \
                norm(v.slice).endswith(".grant")
        ctx.ob("L2", rel, acls, "M->S signals = masters[grant of the channel's round-robin]", ok, "" if ok else f"{[a.v for a in m2s]}",
               m2s[0].line if m2s else 0)

        # ============================================================ L3
        fx = fx_of(ctx, rel, dcls)
        fail_closed(ctx, fx, dcls)
        for ch, addr in (("write", "master.aw.addr"), ("read", "master.ar.addr")):
            d = [a for a in fx.find(domain="comb") if a.t == f"slave_sel_dec['{ch}'][i]"]
            ok = len(d) == 1 and d[0].v == f"slaves[i][0]({addr}[addr_shift:])"
            ctx.ob("L3", rel, dcls, f"{ch} decode: bit i = predicate of slave i on {addr}", ok, "" if ok else f"{[a.v for a in d]}")
            # ... and nothing else drives the decode, whatever the number of slaves (a select tied high for a single slave routes
            # unmapped addresses to it)
            other = [a for a in fx.find() if (a.t == f"slave_sel_dec['{ch}']" or a.t.startswith(f"slave_sel_dec['{ch}'][")) and a not in d]
            built = bool(d) and all(q.pg_active(d[0].pyguards, {"register": r_}) for r_ in (True, False)) and \
                not any("len(slaves)" in c_ or c_.startswith("ns ") for c_, _ in d[0].pyguards)
            ok = not other and built
            ctx.ob("L3", rel, dcls, f"{ch} decode is the only driver of the select, for every number of slaves", ok,
                   "" if ok else (f"`{other[0].t} <= {other[0].v}` {other[0].pyguards}" if other else f"decode built only under {d[0].pyguards if d else '?'}"),
                   (other[0].line if other else (d[0].line if d else 0)))
        reg = [a for a in fx.find(domain="sync") if a.t.startswith("slave_sel_reg[")]
        ok = len(reg) == 1
        if ok:
            ch = reg[0].t[len("slave_sel_reg["):-1]
            ok = reg[0].v == f"slave_sel_dec[{ch}]" and q.EQ(reg[0], B.A(f"locks[{ch}].ready"))
        ctx.ob("L3", rel, dcls, "select register updated only when unlocked", ok,
               "" if ok else f"{[(a.v, a.gtext()) for a in reg]}: the route changes while responses are outstanding", reg[0].line if reg else 0)
        fin = [a for a in fx.find(domain="comb") if a.t.startswith("slave_sel[")]
        live = [a for a in fin if a.v.startswith("slave_sel_dec[")]
        froz = [a for a in fin if a.v.startswith("slave_sel_reg[")]
        ok = len(live) == 1 and len(froz) == 1 and len(fin) == 2
        if ok:
            ch = live[0].t[len("slave_sel["):-1]
            ok = q.EQ(live[0], B.A(f"locks[{ch}].ready")) and \
                q.EQ(froz[0], B.Not(B.A(f"locks[{ch}].ready")))
        ctx.ob("L3", rel, dcls, "final select = live decode when unlocked, register otherwise", ok, "" if ok else f"{[(a.v, a.gtext()) for a in fin]}")
        m2s = [a for a in fx.find(domain="comb") if a.t == "getattr(getattr(slaves[i][1], channel), name)"]
        ok = len(m2s) == 1 and not m2s[0].guards
        if ok:
            v = m2s[0].value
            ok = isinstance(v, ast.IfExp) and norm(v.test) == "name in ['valid', 'ready']" and \
                norm(v.orelse) == "getattr(getattr(master, channel), name)" and \
                B.equivalent(B.from_expr(v.body), B.from_expr("getattr(getattr(master, channel), name) & slave_sel[directions[channel]][i]"))
        ctx.ob("L3", rel, dcls, "M->S valid/ready of slave i masked by select[direction(channel)][i]", ok,
               "" if ok else f"{[a.v for a in m2s]}: a request is presented to a slave that is not selected", m2s[0].line if m2s else 0)
        s2m = [a for a in fx.find(domain="comb") if a.t == "getattr(getattr(master, channel), name)"]
        ok = len(s2m) == 1 and not s2m[0].guards
        if ok:
            v = fx.expand(s2m[0].value, keep=("directions",))
            els = q.star_elements(v.args[1]) if isinstance(v, ast.Call) and norm(v.func) == "reduce" and len(v.args) == 2 and \
                norm(v.args[0]) == "or_" else None
            ok = bool(els) and len(els) == 1 and els[0][2] == "enumerate(slaves)"
            if ok:
                elt, tgt, _it = els[0]
                iv = tgt.strip("()").split(",")[0].strip()
                # comprehension form: the element variable is still `slave`; loop-built form: already `slaves[i][1]`
                et = cnorm(elt).replace("getattr(getattr(slave, channel), name)", f"getattr(getattr(slaves[{iv}][1], channel), name)")
                ok = et == cnorm(f"getattr(getattr(slaves[{iv}][1], channel), name) & Replicate(slave_sel[directions[channel]][{iv}], "
                                 f"len(getattr(getattr(master, channel), name)))")
        ctx.ob("L3", rel, dcls, "S->M signals = OR over all slaves masked by the same select bit", ok, "" if ok else f"{[short(a.v, 200) for a in s2m]}",
               s2m[0].line if s2m else 0)
        m = ctx.mod(rel)
        init = m.method(dcls, "__init__")
        from lxs import pyconst
        tabs = pyconst.run(init, pyconst.module_consts(m.tree))
        chtab = tabs.get("channels")
        if isinstance(chtab, dict):
            chtab = {k: set(v) if isinstance(v, (list, tuple, set)) else v for k, v in chtab.items()}
        # (the channel table is an intermediate: judged when present, the direction table below is what the wiring uses)
        ok = chtab == {"write": {"aw", "w", "b"}, "read": {"ar", "r"}} or (chtab is None and "channels" not in
                                                                                {x.id for x in ast.walk(init) if isinstance(x, ast.Name)})
        ctx.ob("L3", rel, dcls, "channel table write={aw,w,b}, read={ar,r}", ok, "" if ok else f"channels = {chtab}", init)
        dd = tabs.get("directions")
        ok = dd == {"aw": "write", "w": "write", "b": "write", "ar": "read", "r": "read"}
        ctx.ob("L3", rel, dcls, "directions = inverse of the channel table", ok, "" if ok else f"directions = {dd if dd is not None else '?'}")
        # locks
        lk = None
        for n in ast.walk(init):
            if isinstance(n, ast.Assign) and norm(n.targets[0]) == "locks" and isinstance(n.value, ast.Dict):
                def _call_of(v):
                    # the counter built in place, or built into a local first (wr_lock = Counter(...); locks = {"write": wr_lock, ...})
                    if isinstance(v, ast.Name):
                        ds = [x.value for x in ast.walk(init) if isinstance(x, ast.Assign) and len(x.targets) == 1 and
                              isinstance(x.targets[0], ast.Name) and x.targets[0].id == v.id]
                        v = ds[0] if len(ds) == 1 else v
                    return v if isinstance(v, ast.Call) else None
                lk = {k.value: {kk.arg: norm(kk.value) for kk in _call_of(v).keywords} for k, v in zip(n.value.keys, n.value.values)
                      if _call_of(v) is not None}
        want_r = "master.r.valid & master.r.ready & master.r.last" if full else "master.r.valid & master.r.ready"
        ok = lk is not None and set(lk) == {"write", "read"} and \
            B.equivalent(B.from_expr(lk["write"].get("request", "0")), B.from_expr("master.aw.valid & master.aw.ready")) and \
            B.equivalent(B.from_expr(lk["write"].get("response", "0")), B.from_expr("master.b.valid & master.b.ready")) and \
            B.equivalent(B.from_expr(lk["read"].get("request", "0")), B.from_expr("master.ar.valid & master.ar.ready")) and \
            B.equivalent(B.from_expr(lk["read"].get("response", "0")), B.from_expr(want_r))
        ctx.ob("L3", rel, dcls, "locks count master-side request/response handshakes" + (" (read response & last)" if full else ""), ok,
               "" if ok else f"{lk}", init)

        # ============================================================ L5
        # In the locked arm the mask applied to the request channels is the frozen register alone
        ok = False
        if len(froz) == 1:
            sup = q.paths(froz[0].value)
            ok = any(p.startswith("slave_sel_dec") for p in sup)
        ctx.ob("L5", rel, dcls, "locked request mask depends on the live decode", ok,
               "" if ok else "while responses are outstanding the request channels (aw/w, ar) are masked by the frozen select only: a new "
                             "request whose address decodes to a different slave is delivered to the previously selected slave",
               froz[0].line if froz else 0)

    # ================================================================ L7 the watchdog of the shared interconnect
    ctx.rule("L7", "the time-out module on the shared bus synthesises a response only for a request no slave took: its timer counts "
                   "only cycles in which a request channel is valid without ready, and the responding state is entered only on expiry "
                   "(a response for an accepted request would be delivered twice / release the locks early)", min_sites=8)
    for rel, cls in ((AL, "AXILiteTimeout"), (AF, "AXITimeout")):
        fx = fx_of(ctx, rel, cls)
        for info in fx.fsms.values():
            name = info.alias or info.id
            kind = "wr" if "wr" in name else ("rd" if "rd" in name else None)
            ctx.need(kind is not None, f"{cls}: cannot tell write/read machine from `{name}`")
            timer = f"{kind}_timer"
            w = [a for a in fx.find(domain="comb", target=f"{timer}.wait") if a.state == (info.id, "WAIT")]
            stalled = "(master.aw.valid & ~master.aw.ready) | (master.w.valid & ~master.w.ready)" if kind == "wr" else "master.ar.valid & ~master.ar.ready"
            ok = len(w) == 1
            f = None
            if ok:
                f = B.And(B.guard_formula(w[0].guards), B.from_expr(w[0].value))    # read on the master's own signals: nothing inlined
                ok = B.entails(f, B.from_expr(stalled))
            ctx.ob("L7", rel, cls, f"{kind}: the timer runs only while a request is stalled (valid & ~ready)", ok,
                   "" if ok else f"{timer}.wait <= {w[0].v if w else '?'}: also counts cycles in which the request is accepted"
                                 f"{' (e.g. ' + str(B.counterexample(f, B.from_expr(stalled))) + ')' if f is not None else ''}: a read/write the slave took "
                                 f"can be answered by the watchdog as well", w[0].line if w else 0)
            tr = [t for t in fx.trans if t.fsm == info.id and t.dst == "RESPOND"]
            ok = bool(tr) and all(t.src == "WAIT" and B.entails(q.Inliner(fx, t).gformula(t), B.A(f"{timer}.done")) for t in tr)
            ctx.ob("L7", rel, cls, f"{kind}: RESPOND entered only from WAIT on expiry", ok,
                   "" if ok else f"{[(t.src, short(B.show(q.Inliner(fx, t).gformula(t)), 80)) for t in tr]}", tr[0].node if tr else 0)

    # ================================================================ L4 (connect_axi and axi_layout_flat by value: interpreted on model
    # interfaces whose channels record what is connected to what / carry a small layout)
    from .. import pyconst
    from ..pyconst import NS, Native
    cm = ctx.mod(AC)
    consts = dict(pyconst.module_consts(cm.tree))
    consts.update({"DIR_M_TO_S": "M2S", "DIR_S_TO_M": "S2M"})
    funcs = {f.name: f for f in cm.tree.body if isinstance(f, ast.FunctionDef)}
    CH = ("aw", "w", "b", "ar", "r")

    def side(tag):
        o = NS()
        for ch in CH:
            o[ch] = NS(__id__=(tag, ch), connect=Native(lambda other, keep=None, omit=None, me=(tag, ch): [(me, other["__id__"])]),
                       layout=[("valid", 1, "M2S"), ("ready", 1, "S2M"), ("payload", [("data", 32, "M2S"), ("strb", 4, "M2S")]), ("param", [("id", 2, "M2S")])])
        return o
    ca = cm.func("connect_axi")
    try:
        got = pyconst.call(ca, {"master": side("m"), "slave": side("s")}, consts=consts, funcs=funcs)
    except pyconst.Unknowable as ex:
        ctx.need(False, f"connect_axi cannot be interpreted on model interfaces ({ex})")
    want = {(("s", ch), ("m", ch)) if ch in ("b", "r") else (("m", ch), ("s", ch)) for ch in CH}
    have = set(got[1]) if got[0] == "return" and isinstance(got[1], list) else None
    ok = have == want and len(got[1]) == 5
    ctx.ob("L4", AC, "connect_axi", "slave-driven channels = {b, r}", ok,
           "" if ok else f"connections made: {sorted(have) if have is not None else got}: expected master->slave for aw, w, ar and slave->master for b, r, "
                         f"each channel once", ca)
    lf = cm.func("axi_layout_flat")
    try:
        got = pyconst.call(lf, {"axi": side("m")}, consts=consts, funcs=funcs)
    except pyconst.Unknowable as ex:
        ctx.need(False, f"axi_layout_flat cannot be interpreted on a model interface ({ex})")
    flip = {"M2S": "S2M", "S2M": "M2S"}
    want = [(ch, nm, flip[d] if ch in ("b", "r") else d) for ch in CH
            for nm, d in (("valid", "M2S"), ("ready", "S2M"), ("data", "M2S"), ("strb", "M2S"), ("id", "M2S"))]
    have = list(got[1]) if got[0] == "return" else None
    ok = have is not None and sorted(have) == sorted(want)
    ctx.ob("L4", AC, "axi_layout_flat", "directions reversed for {b, r} over the five channels", ok,
           "" if ok else f"flat layout differs: {sorted(set(have or []) ^ set(want))[:4]}", lf)
    cp = cm.func("connect_to_pads")
    swapped = set()
    for n in ast.walk(cp):
        if isinstance(n, ast.Assign) and norm(n.targets[0]) == "channel_modes" and isinstance(n.value, ast.Dict):
            for k, v in zip(n.value.keys, n.value.values):
                if norm(v) == "swap_mode(mode)":
                    swapped.add(k.value)
    ok = swapped == {"b", "r"}
    ctx.ob("L4", AC, "connect_to_pads", "pad direction swapped for {b, r}", ok, "" if ok else f"{swapped}", cp)
