"""C09 -- bus bridges and AXI-Lite converters preserve memory semantics and protocol rules.

Decided (structural, necessary): B1 FSM no-trap for every bridge; B2 hold-until-ready (FSM form) for every
outgoing valid/stb and valid independent of its own ready (AXI4 A3.2.1); B3 error discipline (master-side
resp/err depends on slave-side resp/err); B4 address units (a Wishbone word address meets a byte quantity
only through a data-width derived conversion); B5 write/read strobes and AHB size->sel tables; B6 read/write
fairness flag; B8 response data sampled on the response only.
Known findings: AXI2AXILite withdraws aw.valid (B2), AXI2AXILite and AXILite2Wishbone drop error responses (B3).
Not decided: memory semantics over histories; behaviour with slaves that pipeline several requests."""
import ast
from ..core import AnalysisError, norm
from ..fx import FX, PyTuple
from .. import boolx as B
from .. import q
from ..rules_stream import fx_of, fail_closed, prio, fsm_sanity, s4_hold, s4_hold_flags, short, fsm_txn_state

ALW = "litex/soc/interconnect/axi/axi_lite_to_wishbone.py"
AFL = "litex/soc/interconnect/axi/axi_full_to_axi_lite.py"
AFW = "litex/soc/interconnect/axi/axi_full_to_wishbone.py"
AL = "litex/soc/interconnect/axi/axi_lite.py"
ALC = "litex/soc/interconnect/axi/axi_lite_to_csr.py"
AHB = "litex/soc/interconnect/ahb.py"

EXPLANATION = ("FHDL IR of every bridge / AXI-Lite converter extracted from the AST (axi_lite_to_simple as a module-level "
               "statement builder); FSM graphs; for every state, valid and exit: propositional entailment exit => ~valid | ready "
               "after inlining state-local comb definitions; comb closure of each valid against its own ready; support of "
               "master-side response signals; unit discipline of address arithmetic; literal evaluation of the AHB tables.")
TECHNIQUE = "AST-extracted FHDL IR + FSM graph + guard entailment + comb-closure/support rules + literal tables"

# (file, class or func, is_func, [(valid, ready)] outgoing handshakes to hold, [(valid, ready)] for valid-indep-of-ready)
HOLD = [
    (ALW, "AXILite2Wishbone", False,
     [("axi_lite.r.valid", "axi_lite.r.ready"), ("axi_lite.b.valid", "axi_lite.b.ready"), ("wishbone.stb", "wishbone.ack")]),
    (ALW, "Wishbone2AXILite", False,
     [("axi_lite.aw.valid", "axi_lite.aw.ready"), ("axi_lite.w.valid", "axi_lite.w.ready"), ("axi_lite.ar.valid", "axi_lite.ar.ready")]),
    (AFL, "AXI2AXILite", False,
     [("axi_lite.ar.valid", "axi_lite.ar.ready"), ("axi_lite.aw.valid", "axi_lite.aw.ready"), ("axi.b.valid", "axi.b.ready"),
      ("axi.r.valid", "axi.r.ready")]),
    (AL, "axi_lite_to_simple", True,
     [("axi_lite.r.valid", "axi_lite.r.ready"), ("axi_lite.b.valid", "axi_lite.b.ready")]),
    (AL, "_AXILiteDownConverterWrite", False,
     [("slave.aw.valid", "slave.aw.ready"), ("slave.w.valid", "slave.w.ready"), ("master.b.valid", "master.b.ready")]),
    (AL, "_AXILiteDownConverterRead", False,
     [("slave.ar.valid", "slave.ar.ready"), ("master.r.valid", "master.r.ready")]),
    (AHB, "AHB2Wishbone", False, [("wishbone.stb", "wishbone.ack")]),
]


# requests that forward an upstream beat: {class: {outgoing valid: (upstream valid, upstream ready)}} -- each outgoing handshake
# must consume the upstream beat, leave the state, or turn the valid off (a beat is issued once)
UPSTREAM = {"AXI2AXILite": {"axi_lite.ar.valid": ("ax_beat.valid", "ax_beat.ready"), "axi_lite.aw.valid": ("ax_beat.valid", "ax_beat.ready")}}


def _fx(ctx, rel, name, is_func):
    return fx_of(ctx, rel, func=name) if is_func else fx_of(ctx, rel, cls=name)


def run(ctx):
    ctx.rule("B1", "every bridge FSM: targets defined, no trap state (reset reachable from every state, reset edges of "
                   "ResetInserter not counted)", min_sites=7)
    ctx.rule("B2", "hold until ready: for every state that asserts an outgoing valid/stb and every exit of it, exit => ~valid | "
                   "ready; done/skid flags that gate a valid are set only by that channel's handshake and by every such handshake; each "
                   "outgoing AXI valid is independent of the same channel's ready", min_sites=52)
    ctx.rule("B3", "error discipline: the master-side resp/err of each bridge depends on the slave-side resp/err", min_sites=10)
    ctx.rule("B4", "address units: base_address meets a Wishbone word address only through the data-width derived shift; the "
                   "byte->word slice uses the same shift", min_sites=7)
    ctx.rule("B5", "strobes: port write enable = w.valid & w.ready & strb; read enable = ar.valid & ar.ready; Wishbone sel from "
                   "w.strb on writes, all ones on reads; AHB size->sel leaves are byte-lane masks on the matching address slice",
             min_sites=37)
    ctx.rule("B6", "fairness flag: set by a read, cleared by a write, consulted exactly when both requests are valid", min_sites=6)
    ctx.rule("B9", "per-transaction FSM registers (counters, sticky resp latches, done flags) are re-initialised in the reset state "
                   "or cleared in every successor of the accumulating state: nothing is inherited by the next transaction", min_sites=9)
    ctx.rule("B8", "slave read data is registered only under the slave's response (ack / valid&ready)", min_sites=4)
    ctx.rule("B10", "bursts fully and correctly answered: the burst splitter of AXI2AXILite / AXI2Wishbone (AXIBurst2Beat) has "
                    "registers wide enough for every AXI-legal burst (len field width, 4 KB page offsets incl. the sign, size <= 7)",
             min_sites=5)

    # ================================================================ B1 / B2
    for rel, name, is_func, pairs in HOLD:
        fx = _fx(ctx, rel, name, is_func)
        fail_closed(ctx, fx, name)
        ctx.need(len(fx.fsms) >= 1, f"{name}: FSM vanished")
        for fid, info in fx.fsms.items():
            problems, nconf = q.fsm_check(fx, info)
            ctx.analysed["paths"] += nconf
            ctx.ob("B1", rel, name, f"fsm:{info.alias or info.name}", not problems, "; ".join(d for _, d in problems[:3]), info.node)
            s4_hold(ctx, "B2", fx, name, info, pairs)
            s4_hold_flags(ctx, "B2", fx, name, info, pairs, upstream=UPSTREAM.get(name))
        for vp, rp in pairs:
            if vp.endswith(".stb"):
                continue
            drv = fx.find(domain="comb", target=vp)
            if not drv:
                continue
            clos = set()
            for a in drv:
                clos |= q.comb_closure(fx, a.value, context=a)
                for c, _ in a.guards:
                    clos |= q.comb_closure(fx, c, context=a)
            ok = rp not in clos
            ctx.ob("B2", rel, name, f"{vp} independent of {rp}", ok,
                   "" if ok else f"`{vp}` combinationally depends on its own `{rp}` (AXI4 A3.2.1: a source must not wait for ready "
                                 f"before asserting valid)", drv[0].line)

    # ================================================================ B3
    fx = fx_of(ctx, ALW, "Wishbone2AXILite")
    info = list(fx.fsms.values())[0]
    for st, ch in (("WRITE", "b"), ("READ", "r")):
        tr = [t for t in fx.trans if t.src == st and t.dst == "ERROR"]
        ok = len(tr) == 1 and B.entails(tr[0].eff(),
                                        B.from_expr(f"axi_lite.{ch}.valid & axi_lite.{ch}.ready & ~(axi_lite.{ch}.resp == RESP_OKAY)"))
        ctx.ob("B3", ALW, "Wishbone2AXILite", f"{st}: non-OKAY {ch}.resp leads to ERROR", ok, "" if ok else f"{[(t.dst, t.gtext()) for t in tr]}")
        ack = [a for a in fx.find(domain="comb", target="wishbone.ack") if a.state == (info.id, st)]
        ok = len(ack) == 1 and q.IMP(ack[0], B.A(f"axi_lite.{ch}.resp == RESP_OKAY"))
        ctx.ob("B3", ALW, "Wishbone2AXILite", f"{st}: plain ack only on OKAY", ok, "" if ok else f"{[a.gtext() for a in ack]}")
    err = [a for a in fx.find(domain="comb", target="wishbone.err")]
    ok = len(err) == 1 and err[0].state == (info.id, "ERROR") and err[0].v == "1" and \
        any(a.state == (info.id, "ERROR") and a.v == "1" for a in fx.find(domain="comb", target="wishbone.ack"))
    ctx.ob("B3", ALW, "Wishbone2AXILite", "ERROR terminates the cycle with ack + err", ok, "" if ok else f"{[(a.state, a.v) for a in err]}")
    fx = fx_of(ctx, AHB, "AHB2Wishbone")
    r = fx.find(domain="comb", target="ahb.resp")
    ok = len(r) == 1 and r[0].v == "wishbone.err"
    ctx.ob("B3", AHB, "AHB2Wishbone", "ahb.resp <- wishbone.err", ok, "" if ok else f"{[a.v for a in r]}")
    for cls, ch in (("_AXILiteDownConverterWrite", "b"), ("_AXILiteDownConverterRead", "r")):
        fx = fx_of(ctx, AL, cls)
        mr = fx.find(domain="comb", target=f"master.{ch}.resp")
        ok = len(mr) == 1 and mr[0].v == "resp"
        sam = [a for a in fx.find(domain="sync", target="resp") if a.v == f"slave.{ch}.resp"]
        ok = ok and len(sam) == 1 and B.entails(q.gformula(fx, sam[0], inline=False), B.from_expr(f"slave.{ch}.valid & ~(slave.{ch}.resp == RESP_OKAY)"))
        ctx.ob("B3", AL, cls, f"master.{ch}.resp = sticky error of the sub-transfers", ok, "" if ok else f"{[(a.v, a.gtext()) for a in fx.find(domain='sync', target='resp')]}")
        # ... and no error is missed: in the state that looks at the sub-response, a first non-OKAY response is latched in every
        # cycle in which it is presented (the last sub-read is deliberately not acknowledged there: a latch that waits for the
        # handshake never sees it)
        if len(sam) == 1 and sam[0].state is not None:
            inl = q.Inliner(fx, sam[0])
            G = inl.gformula(sam[0])
            info = fx.fsms[sam[0].state[0]]
            from ..rules_stream import state_atom_of
            seen = B.And(state_atom_of(info, sam[0].state[1]), B.from_expr(f"slave.{ch}.valid & (resp == RESP_OKAY) & ~(slave.{ch}.resp == RESP_OKAY)"))
            okc = B.entails(seen, G)
            ctx.ob("B3", AL, cls, f"every presented error of a sub-transfer is latched ({sam[0].state[1]})", okc,
                   "" if okc else f"`resp <= slave.{ch}.resp` takes effect only under {B.show(G)[:200]}: a non-OKAY sub-response presented in "
                                  f"{sam[0].state[1]} can pass unlatched (e.g. {B.counterexample(seen, G)}) and the master is answered OKAY",
                   sam[0].line)
    fx = fx_of(ctx, AFL, "AXILite2AXI")
    for t, v in (("axi_lite.b.resp", "axi.b.resp"), ("axi_lite.r.resp", "axi.r.resp")):
        d = fx.find(domain="comb", target=t)
        ok = len(d) == 1 and d[0].v == v and not d[0].guards
        ctx.ob("B3", AFL, "AXILite2AXI", f"{t} <- {v}", ok, "" if ok else f"{[a.v for a in d]}")
    # the two bridges that swallow errors (known findings)
    fx = fx_of(ctx, AFL, "AXI2AXILite")
    for ch in ("r", "b"):
        d = fx.find(domain="comb", target=f"axi.{ch}.resp")
        sup = set()
        for a in d:
            sup |= q.comb_closure(fx, a.value, context=a)
        ok = f"axi_lite.{ch}.resp" in sup
        ctx.ob("B3", AFL, "AXI2AXILite", f"axi.{ch}.resp depends on axi_lite.{ch}.resp", ok,
               "" if ok else f"axi.{ch}.resp <= {[a.v for a in d]}: an AXI-Lite slave answering SLVERR/DECERR is reported as OKAY to the AXI master",
               d[0].line if d else 0)
    fx = fx_of(ctx, ALW, "AXILite2Wishbone")
    sup = set()
    for t in ("axi_lite.r.resp", "axi_lite.b.resp"):
        for a in fx.find(domain="comb", target=t):
            sup |= q.comb_closure(fx, a.value, context=a)
            for c, _ in a.guards:
                sup |= q.comb_closure(fx, c, context=a)
    reads_err = any("wishbone.err" in q.paths(a.value) or any("wishbone.err" in q.paths(c) for c, _ in a.guards) for a in fx.assigns) or \
        any(any("wishbone.err" in q.paths(c) for c, _ in t.guards) for t in fx.trans)
    ok = "wishbone.err" in sup or reads_err
    ctx.ob("B3", ALW, "AXILite2Wishbone", "r/b resp depends on wishbone.err", ok,
           "" if ok else "wishbone.err is never read: a Wishbone cycle terminated with ack+err (bus time-out) is reported as OKAY")

    # ================================================================ B4
    fx = fx_of(ctx, ALW, "Wishbone2AXILite")
    a = fx.find(domain="comb", target="_addr")
    ok = len(a) == 1
    if ok:
        v = fx.expand(a[0].value, keep=("wishbone_adr_shift",))
        bad = None
        for n in ast.walk(v):
            if isinstance(n, ast.BinOp) and any(isinstance(x, ast.Name) and x.id == "base_address" for x in ast.walk(n)):
                if isinstance(n.op, (ast.FloorDiv, ast.Div, ast.RShift, ast.LShift, ast.Mult)):
                    other = n.right if any(isinstance(x, ast.Name) and x.id == "base_address" for x in ast.walk(n.left)) else n.left
                    if isinstance(other, ast.Constant):
                        bad = norm(n)
                    elif not (isinstance(n.op, ast.RShift) and norm(other) == "wishbone_adr_shift"):
                        bad = norm(n)
        ok = bad is None and "base_address >> wishbone_adr_shift" in norm(v) and "wishbone.adr" in norm(v)
    ctx.ob("B4", ALW, "Wishbone2AXILite", "base_address converted with the bus address shift", ok,
           "" if ok else f"_addr <= {a[0].v if a else '?'}: a byte base address is combined with a word address through a literal factor "
                         f"(wrong for 64-bit or byte-addressed buses)", a[0].line if a else 0)
    sh = fx.localdefs.get("wishbone_adr_shift")
    ok = sh is not None and "axi_lite.data_width // 8" in norm(sh) and "wishbone.addressing" in norm(sh) and "'byte': 0" in norm(sh)
    ctx.ob("B4", ALW, "Wishbone2AXILite", "shift = log2(bytes per word) for word addressing, 0 for byte addressing", ok,
           "" if ok else f"wishbone_adr_shift = {norm(sh) if sh is not None else '?'}")
    for ch in ("aw", "ar"):
        d = [x for x in fx.find(domain="comb") if x.t == f"axi_lite.{ch}.addr[wishbone_adr_shift:]"]
        ok = len(d) == 1 and d[0].v == "_addr"
        ctx.ob("B4", ALW, "Wishbone2AXILite", f"{ch}.addr[shift:] <- word address", ok, "" if ok else f"{[(x.t, x.v) for x in fx.find(domain='comb') if x.t.startswith(f'axi_lite.{ch}.addr')]}")
    fx = fx_of(ctx, ALW, "AXILite2Wishbone")
    for reg, src in (("_r_addr", "axi_lite.ar.addr"), ("_w_addr", "axi_lite.aw.addr")):
        d = fx.find(domain="comb", target=reg)
        ok = len(d) == 1 and d[0].v == f"{src} - base_address"
        ctx.ob("B4", ALW, "AXILite2Wishbone", f"{reg} = byte address - byte base", ok, "" if ok else f"{[x.v for x in d]}")
    wa = fx.find(domain="comb", target="wishbone.adr")
    ok = len(wa) == 2 and {x.v for x in wa} == {"_r_addr[wishbone_adr_shift:]", "_w_addr[wishbone_adr_shift:]"}
    ctx.ob("B4", ALW, "AXILite2Wishbone", "wishbone.adr = byte address sliced by the shift", ok, "" if ok else f"{[x.v for x in wa]}")

    # ================================================================ B5
    fxs = fx_of(ctx, AL, func="axi_lite_to_simple")
    ret = fxs.returns[0] if fxs.returns else None
    ctx.need(isinstance(ret, PyTuple) and len(ret.vals) == 2, "axi_lite_to_simple no longer returns (fsm, comb)")
    comb = fxs.flatten_value(ret.vals[1], "ret:comb")
    we = [a for a in comb if a.t == "port_we[i]"]
    ok = len(we) == 1 and B.equivalent(B.from_expr(we[0].value), B.from_expr("axi_lite.w.valid & axi_lite.w.ready & axi_lite.w.strb[i]"))
    ctx.ob("B5", AL, "axi_lite_to_simple", "port_we[i] = w.valid & w.ready & strb[i]", ok, "" if ok else f"{[a.v for a in we]}")
    we1 = [a for a in comb if a.t == "port_we"]
    ok = len(we1) == 1 and B.equivalent(B.from_expr(we1[0].value), B.from_expr("axi_lite.w.valid & axi_lite.w.ready & (axi_lite.w.strb != 0)"))
    ctx.ob("B5", AL, "axi_lite_to_simple", "scalar port_we = w.valid & w.ready & strb != 0", ok, "" if ok else f"{[a.v for a in we1]}")
    re_ = [a for a in comb if a.t == "port_re"]
    ok = len(re_) == 1 and B.equivalent(B.from_expr(re_[0].value), B.from_expr("axi_lite.ar.valid & axi_lite.ar.ready"))
    ctx.ob("B5", AL, "axi_lite_to_simple", "port_re = ar.valid & ar.ready", ok, "" if ok else f"{[a.v for a in re_]}")
    dw = [a for a in comb if a.t == "port_dat_w"]
    ok = len(dw) == 1 and dw[0].v == "axi_lite.w.data"
    ctx.ob("B5", AL, "axi_lite_to_simple", "port_dat_w = w.data", ok, "" if ok else f"{[a.v for a in dw]}")
    for cls, rel in (("AXILiteSRAM", AL), ("AXILite2CSR", ALC)):
        fxc = fx_of(ctx, rel, cls)
        fail_closed(ctx, fxc, cls)
        ok = len(fxc.fsms) == 1 and any(a.domain == "comb" and a.t.endswith("w.ready") for a in fxc.assigns)
        ctx.ob("B5", rel, cls, "built on axi_lite_to_simple (fsm + comb registered)", ok, "" if ok else "bridge body vanished")
    fxs2 = fx_of(ctx, AL, "AXILiteSRAM")
    we = [a for a in fxs2.find(domain="comb") if a.t == "port.we[i]" and not a.state]
    ok = len(we) >= 1 and all(B.equivalent(B.from_expr(a.value), B.from_expr("bus.w.valid & bus.w.ready & bus.w.strb[i]")) for a in we)
    ctx.ob("B5", AL, "AXILiteSRAM", "port.we[i] = w.valid & w.ready & strb[i]", ok, "" if ok else f"{[a.v for a in we]}")
    fx = fx_of(ctx, ALW, "AXILite2Wishbone")
    info = list(fx.fsms.values())[0]
    sel = {a.state[1]: a.v for a in fx.find(domain="comb", target="wishbone.sel") if a.state}
    ok = sel == {"DO-READ": "2 ** len(wishbone.sel) - 1", "DO-WRITE": "axi_lite.w.strb"}
    ctx.ob("B5", ALW, "AXILite2Wishbone", "sel: all ones on reads, w.strb on writes", ok, "" if ok else f"{sel}")
    wes = {a.state[1]: a.v for a in fx.find(domain="comb", target="wishbone.we") if a.state}
    ok = wes == {"DO-WRITE": "1"}
    ctx.ob("B5", ALW, "AXILite2Wishbone", "we only in DO-WRITE", ok, "" if ok else f"{wes}")
    dwr = {a.state[1]: a.v for a in fx.find(domain="comb", target="wishbone.dat_w") if a.state}
    ok = dwr == {"DO-WRITE": "axi_lite.w.data"}
    ctx.ob("B5", ALW, "AXILite2Wishbone", "dat_w = w.data", ok, "" if ok else f"{dwr}")
    # the Wishbone write is issued with the master's W beat, not before it: in the state that drives we, stb/cyc imply w.valid -- by
    # their own value, or because every way into the state is taken under w.valid (AXI keeps valid up until the handshake)
    wv = B.A("axi_lite.w.valid")
    for st_ in sorted(wes):
        into = [t for t in fx.trans if t.dst == st_ and t.src != st_]
        entered_valid = bool(into) and all(B.entails(t.eff(), wv) for t in into)
        for tgt in ("wishbone.stb", "wishbone.cyc"):
            for a in [a for a in fx.find(domain="comb", target=tgt) if a.state and a.state[1] == st_]:
                on = B.And(q.gformula(fx, a, inline=False), B.from_expr(a.value))
                ok = entered_valid or B.entails(on, wv)
                loose = [f"{t.src}->{st_} under {B.show(t.eff())}" for t in into if not B.entails(t.eff(), wv)]
                ctx.ob("B5", ALW, "AXILite2Wishbone", f"{tgt} in {st_} only with a valid W beat", ok,
                       "" if ok else f"{tgt} <= {a.v} in {st_}, entered without w.valid by {loose[:2]}: the Wishbone write is issued with "
                                     f"the data / strobes of a W beat the master has not presented yet", a.line)
    fx = fx_of(ctx, ALW, "Wishbone2AXILite")
    for t, v in (("axi_lite.w.strb", "wishbone.sel"), ("axi_lite.w.data", "wishbone.dat_w")):
        d = fx.find(domain="comb", target=t)
        ok = len(d) == 1 and d[0].v == v
        ctx.ob("B5", ALW, "Wishbone2AXILite", f"{t} <- {v}", ok, "" if ok else f"{[a.v for a in d]}")
    d = fx.find(domain="comb", target="wishbone.dat_r")
    ok = len(d) == 1 and d[0].v == "axi_lite.r.data"
    ctx.ob("B5", ALW, "Wishbone2AXILite", "dat_r <- r.data", ok, "" if ok else f"{[a.v for a in d]}")
    # AHB tables: every leaf of the size -> byte-select decode, instantiated for both data widths (literal tables and tables built
    # by loops alike: symbolic loops of the IR are run by the checker's interpreter), is the byte-lane mask of its (size, lane)
    from .. import pyconst as _pcb
    fx = fx_of(ctx, AHB, "AHB2Wishbone")
    leaves = fx.find(domain="comb", target="wishbone_sel")
    n_leaf = 0
    seen = {}
    for dwid in (32, 64):
        nbytes = dwid // 8
        kk = nbytes.bit_length() - 1
        envb = {"ahb": _pcb.NS(data_width=dwid)}
        for a in leaves:
            if not q.pg_active(a.pyguards, envb) or not all(q.pg_active([(c_, p_)], {"ahb": envb["ahb"]}) for c_, p_ in a.pyguards):
                continue
            # Python-level guards written on ahb.data_width are evaluated by value
            skip = False
            for c_, p_ in a.pyguards:
                try:
                    v_ = _pcb.Interp(dict(envb)).ev(ast.parse(c_, mode="eval").body)
                    if isinstance(v_, (bool, int)) and bool(v_) != p_:
                        skip = True
                except Exception:       # noqa
                    pass
            if skip:
                continue
            try:
                insts = list(q.instantiate(a, envb))
            except q.NotConcrete as ex:
                ctx.need(False, f"AHB2Wishbone: size->sel table cannot be instantiated ({ex})")
            for inst in insts:
                size = lane = lo = hi = None
                okg = True
                for c, p in a.guards:
                    if not (isinstance(c, ast.Compare) and len(c.ops) == 1 and isinstance(c.ops[0], ast.Eq) and p):
                        okg = False
                        continue
                    try:
                        rhs = _pcb.Interp(dict(inst)).ev(c.comparators[0])
                    except Exception:   # noqa
                        rhs = None
                    lt = norm(c.left)
                    if lt == "ahb.size":
                        size = rhs
                    elif isinstance(c.left, ast.Subscript) and norm(c.left.value) in ("ahb.addr", "ahb_addr") and isinstance(c.left.slice, ast.Slice):
                        try:
                            lo = _pcb.Interp(dict(inst)).ev(c.left.slice.lower)
                            hi = _pcb.Interp(dict(inst)).ev(c.left.slice.upper)
                        except Exception:   # noqa
                            lo = hi = None
                        lane = rhs
                    else:
                        okg = False
                try:
                    val = _pcb.Interp(dict(inst)).ev(fx.expand(a.value))
                except Exception:       # noqa
                    val = None
                ok = okg and isinstance(size, int) and isinstance(val, int)
                if ok:
                    full = (1 << nbytes) - 1
                    if lane is None:
                        want = ((1 << (1 << size)) - 1) & full if (1 << size) >= nbytes else None
                        ok = want is not None and val == want
                    else:
                        want = (((1 << (1 << size)) - 1) << (lane << size)) & full
                        ok = val == want and lo == size and hi == kk
                n_leaf += 1
                seen.setdefault(dwid, set()).add((size, lane))
                ctx.ob("B5", AHB, "AHB2Wishbone", f"dw={dwid} size={size} lane={lane}: sel = byte-lane mask", ok,
                       "" if ok else f"leaf {val} under {a.gtext()} {inst if a.loops else ''} is not ((1<<(1<<size))-1) << (lane<<size) on addr[size:log2(bytes)]", a.line)
    ctx.ob("B5", AHB, "AHB2Wishbone", "size->sel table:present", n_leaf >= 20, f"{n_leaf} leaves")
    for dwid in (32, 64):
        nbytes = dwid // 8
        want_keys = {(sz, ln) for sz in range(nbytes.bit_length() - 1) for ln in range(nbytes >> sz)}
        miss = sorted(want_keys - seen.get(dwid, set()))
        ctx.ob("B5", AHB, "AHB2Wishbone", f"dw={dwid}: every (size, lane) below the bus width has a leaf", not miss, f"missing {miss[:4]}")

    # ================================================================ B6
    for rel, name, is_func, flag, rd_states, wr_states in (
            (ALW, "AXILite2Wishbone", False, "_last_ar_aw_n", ("DO-READ",), ("DO-WRITE",)),
            (AFL, "AXI2AXILite", False, "_last_ar_aw_n", ("READ",), ("WRITE",))):
        fx = _fx(ctx, rel, name, is_func)
        both = "axi_lite.ar.valid & axi_lite.aw.valid" if name == "AXILite2Wishbone" else "axi.ar.valid & axi.aw.valid"
        both = B.from_expr(both)
        for t in [t for t in fx.trans if t.src == "IDLE"]:
            G = t.eff()
            if B.entails(G, both):
                want_read = B.entails(G, B.Not(B.A(flag)))
                ok = (t.dst in rd_states) == want_read and (B.entails(G, B.A(flag)) or want_read)
                ctx.ob("B6", rel, name, f"both valid -> {t.dst} alternates on {flag}", ok,
                       "" if ok else f"IDLE->{t.dst} under {B.show(G)}: with both requests pending one direction can starve", t.line)
        for a in fx.find(domain="sync", target=flag):
            G = q.gformula(fx, a, inline=False)
            dsts = [t.dst for t in fx.trans if t.src == "IDLE" and q.EQ(t, a.eff())]
            ok = len(dsts) == 1 and ((a.v == "1") == (dsts[0] in rd_states))
            ctx.ob("B6", rel, name, f"{flag} <= {a.v} when a {'read' if a.v == '1' else 'write'} is taken", ok,
                   "" if ok else f"{flag} <= {a.v} with transition(s) {dsts}", a.line)
    fx = fx_of(ctx, AL, func="axi_lite_to_simple")
    lw = {a.state[1]: a.v for a in fx.find(domain="sync", target="last_was_read")}
    ok = lw == {"SEND-READ-RESPONSE": "1", "SEND-WRITE-RESPONSE": "0"}
    ctx.ob("B6", AL, "axi_lite_to_simple", "last_was_read set by reads, cleared by writes", ok, "" if ok else f"{lw}")
    inl = q.Inliner(fx)
    dwf = inl.formula_of_path("do_write")
    drf = inl.formula_of_path("do_read")
    st = B.A("fsm@L%d.state == 'START-TRANSACTION'" % list(fx.fsms.values())[0].node.lineno)
    ok = dwf is not None and drf is not None and \
        B.equivalent(B.And(st, dwf), B.And(st, B.from_expr("axi_lite.aw.valid & (last_was_read | ~axi_lite.ar.valid)"))) and \
        B.equivalent(B.And(st, drf), B.And(st, B.from_expr("axi_lite.ar.valid & (~last_was_read | ~axi_lite.aw.valid)")))
    ctx.ob("B6", AL, "axi_lite_to_simple", "do_write/do_read alternate when both are valid", ok,
           "" if ok else f"do_write = {B.show(dwf) if dwf else '?'}; do_read = {B.show(drf) if drf else '?'}")

    # the address channel that is acknowledged is the one that is served: in START-TRANSACTION  aw handshake <=> do_write,
    # ar handshake <=> do_read (an acknowledged-but-dropped address hangs the master, a served-but-unacknowledged one repeats)
    for ch, served, sf in (("aw", "do_write", dwf), ("ar", "do_read", drf)):
        fr = inl.formula_of_path(f"axi_lite.{ch}.ready")
        ok = fr is not None and sf is not None and \
            B.equivalent(B.And(st, B.A(f"axi_lite.{ch}.valid"), fr), B.And(st, sf))
        ctx.ob("B6", AL, "axi_lite_to_simple", f"{ch} accepted exactly when {served}", ok,
               "" if ok else f"axi_lite.{ch}.ready = {B.show(fr) if fr is not None else '?'} but {served} = {B.show(sf) if sf is not None else '?'}: with AW "
                             f"and AR valid together the acknowledged channel is not the served one; e.g. "
                             f"{B.counterexample(B.And(st, B.A(f'axi_lite.{ch}.valid'), fr), B.And(st, sf)) if fr is not None and sf is not None else ''}", 0)

    # ================================================================ B11 AXI-Lite up-converter lanes
    ctx.rule("B11", "AXILiteUpConverter: the narrow write data / strobes are placed on the lane named by the write address presented "
                    "in the same cycle (selector combinationally fed by aw.addr[master_align:slave_align], held otherwise), lane i = "
                    "bits [i*dw_from, (i+1)*dw_from); read data taken from the lane of the read address; upper address bits forwarded",
             min_sites=6)
    fxu = _fx(ctx, AL, "AXILiteUpConverter", False)
    fail_closed(ctx, fxu, "AXILiteUpConverter")
    for tgt, src, ch in (("slave.w.data[", "master.w.data", "aw"), ("slave.w.strb[", "master.w.strb", "aw")):
        ds = [a for a in fxu.find(domain="comb") if a.t.startswith(tgt) and a.v == src]
        ok = len(ds) == 1 and len(ds[0].guards) == 1 and ds[0].guards[0][1]
        sel = None
        if ok:
            g = ds[0].guards[0][0]
            ok = isinstance(g, ast.Compare) and len(g.ops) == 1 and isinstance(g.ops[0], ast.Eq) and bool(ds[0].loops) and \
                norm(g.comparators[0]) == ds[0].loops[-1][0]
            sel = norm(g.left) if ok else None
        dep = q.stage_depths(fxu, sel, ["master.aw.addr", "master.ar.addr", "master.w", "master.r"]) if sel else {}
        ok = ok and 0 in dep.get("master.aw.addr", set()) and "master.ar.addr" not in dep
        ctx.ob("B11", AL, "AXILiteUpConverter", f"{tgt}lane] <- {src} on the lane of the write address of this cycle", ok,
               "" if ok else f"lane selector `{sel}` reaches master.aw.addr through {sorted(dep.get('master.aw.addr', []))} register stage(s) "
                             f"(other inputs: {sorted(k for k in dep if k != 'master.aw.addr')}): a slave that takes W in the cycle AW is "
                             f"presented gets the data on the previous write's lane", ds[0].line if ds else 0)
    rd = [a for a in fxu.find(domain="comb", target="master.r.data")]
    ok = len(rd) == 1 and len(rd[0].guards) == 1 and rd[0].v.startswith("slave.r.data[")
    if ok:
        g = rd[0].guards[0][0]
        sel = norm(g.left) if isinstance(g, ast.Compare) else None
        dep = q.stage_depths(fxu, sel, ["master.aw.addr", "master.ar.addr"]) if sel else {}
        ok = bool(dep.get("master.ar.addr")) and min(dep["master.ar.addr"]) <= 1 and "master.aw.addr" not in dep
    ctx.ob("B11", AL, "AXILiteUpConverter", "read data taken from the lane of the read address", ok, "" if ok else f"{[(a.v, a.gtext()) for a in rd]}",
           rd[0].line if rd else 0)
    lanes = [a for a in fxu.find(domain="comb") if a.loops and (a.t.startswith(("slave.w.data[", "slave.w.strb[")) or a.v.startswith("slave.r.data["))]
    for a in lanes:
        sl = a.target if a.t.startswith("slave.w.") else a.value
        strb = "strb" in norm(sl)
        i_ = a.loops[-1][0]
        bad = None
        lo_n = hi_n = None
        if isinstance(sl, ast.Subscript) and isinstance(sl.slice, ast.Slice):
            lo_n, hi_n = sl.slice.lower, sl.slice.upper
        elif isinstance(sl, ast.Subscript) and isinstance(sl.slice, ast.Call) and norm(sl.slice.func) == "slice" and len(sl.slice.args) == 2:
            lo_n, hi_n = sl.slice.args          # x[slice(lo, hi)]
        if lo_n is None or hi_n is None:
            bad = f"{norm(sl)} is not a [lo:hi] slice"
        else:
            import copy as _copy
            from .. import pyconst as _pc

            class _R(ast.NodeTransformer):          # resolve the per-lane locals (data_from, strb_to, ...) down to i and dw_from
                def visit_Name(self, x):
                    d = fxu.localdefs.get(x.id)
                    if d is not None and x.id not in ("dw_from", "dw_to", "ratio", i_):
                        return self.visit(_copy.deepcopy(d))
                    return x
            lo_e, hi_e = _R().visit(_copy.deepcopy(lo_n)), _R().visit(_copy.deepcopy(hi_n))
            for dwf in (8, 16, 32):
                for k in (0, 1, 3):
                    unit = dwf // 8 if strb else dwf
                    try:
                        lo, hi = _pc.Interp({"dw_from": dwf, i_: k}).ev(lo_e), _pc.Interp({"dw_from": dwf, i_: k}).ev(hi_e)
                    except Exception as ex:     # noqa
                        lo, hi = f"? ({ex})", None
                    if (lo, hi) != (k * unit, (k + 1) * unit) and bad is None:
                        bad = f"dw_from={dwf}, lane {k}: [{lo}:{hi}], expected [{k * unit}:{(k + 1) * unit}]"
        ctx.ob("B11", AL, "AXILiteUpConverter", f"lane i of {norm(sl).split('[')[0]} = [i*w : (i+1)*w], w = dw_from{'//8' if strb else ''}", bad is None,
               bad or "", a.line)
    for chn in ("aw", "ar"):
        ds = [a for a in fxu.find(domain="comb") if a.t == f"slave.{chn}.addr[slave_align:]"]
        ok = len(ds) == 1 and ds[0].v == f"master.{chn}.addr[slave_align:]" and not ds[0].guards
        ctx.ob("B11", AL, "AXILiteUpConverter", f"{chn}: wide-word address bits forwarded", ok, "" if ok else f"{[(a.t, a.v) for a in ds]}", ds[0].line if ds else 0)
    # ================================================================ B13 port address of axi_lite_to_simple (shared with C14.E9)
    # the word a delayed write lands in is the one named by the address accepted with AW: replayed from a register while the data
    # is awaited, never read again from the AW channel after aw.ready was given
    from .c14 import _axi_lite_port_address
    _axi_lite_port_address(ctx, "B13")
    # ================================================================ B14 composite bridges forward what they were given
    ctx.rule("B14", "composite bridges (AXI2Wishbone, Wishbone2AXI, ...): a constructor parameter handed on to an inner bridge binds, by "
                    "position or keyword resolved against that bridge's own signature, to the parameter of the same meaning -- "
                    "base_address to base_address; and a base_address that is accepted is used or handed on", min_sites=2)
    pkg = {}
    for rel_ in (AL, ALW, AFL, "litex/soc/interconnect/axi/axi_full_to_wishbone.py", "litex/soc/interconnect/axi/axi_full.py"):
        for c_ in ctx.mod(rel_).tree.body:
            if isinstance(c_, ast.ClassDef):
                ini = [f_ for f_ in c_.body if isinstance(f_, ast.FunctionDef) and f_.name == "__init__"]
                if ini:
                    pkg[c_.name] = (rel_, c_, ini[0])
    for cname_, (rel_, c_, ini) in sorted(pkg.items()):
        params = [a_.arg for a_ in ini.args.args[1:]]
        if "base_address" not in params:
            continue
        used = False
        for call in [n_ for n_ in ast.walk(ini) if isinstance(n_, ast.Call) and isinstance(n_.func, ast.Name) and n_.func.id in pkg]:
            callee = [a_.arg for a_ in pkg[call.func.id][2].args.args[1:]]
            bound = [(callee[k_] if k_ < len(callee) else "?", a_) for k_, a_ in enumerate(call.args)] + [(k_.arg, k_.value) for k_ in call.keywords if k_.arg]
            for pname, arg in bound:
                if isinstance(arg, ast.Name) and arg.id == "base_address":
                    used = True
                    ok = pname == "base_address"
                    ctx.ob("B14", rel_, cname_, f"base_address handed to {call.func.id} binds to its base_address", ok,
                           "" if ok else f"`{norm(call)[:90]}`: base_address lands in parameter `{pname}` of {call.func.id}: the window offset is "
                                         f"not removed from the addresses and `{pname}` takes a value meant for something else", call)
        if not used:
            used = any(isinstance(n_, ast.Name) and n_.id == "base_address" and isinstance(n_.ctx, ast.Load) for n_ in ast.walk(ini))
            if cname_ in ("AXI2Wishbone", "Wishbone2AXI"):
                ctx.ob("B14", rel_, cname_, "base_address accepted => used or handed on", used, "" if used else "base_address is accepted and dropped", ini)

    # ================================================================ B2 (ext.) self-resetting converter FSMs
    # the down-converter halves reset their FSM "when the master breaks a request": the reset must not be able to fire while the FSM
    # itself offers a response to the master (valid would be withdrawn before ready -- the response is lost, the narrow side hangs) nor
    # while the request it serves is still presented: reset => ~V for every master-side valid V the machine raises, and => ~request
    for cls_, reqs in (("_AXILiteDownConverterRead", ("master.ar.valid",)), ("_AXILiteDownConverterWrite", ("master.aw.valid", "master.w.valid"))):
        fxr = fx_of(ctx, AL, cls_)
        rst = [a for a in fxr.assigns if a.t.endswith("fsm.reset") and a.domain == "comb"]
        offered = sorted({a.t for a in fxr.find(domain="comb") if a.state and a.t.startswith("master.") and a.t.endswith(".valid") and a.v != "0"})
        ctx.ob("B2", AL, cls_, "self-reset:present", len(rst) == 1 and bool(offered), f"{len(rst)} reset driver(s), valids offered: {offered}", 0)
        for a in rst:
            R = B.And(a.eff(), B.from_expr(a.value))
            for vname in offered + list(reqs):
                ok = B.entails(R, B.Not(B.A(vname)))
                ctx.ob("B2", AL, cls_, f"FSM reset cannot fire while {vname} is up", ok,
                       "" if ok else f"fsm.reset <= {a.v}: the machine is reset while {vname} is still "
                                     f"{'offered: the response is withdrawn before the master took it' if vname in offered else 'presented'}", a.line)

    # ================================================================ B12 AXI-Lite down-converter lanes
    ctx.rule("B12", "AXI-Lite down-converter: sub-word `counter` of the wide word goes to / comes from narrow address addr + counter * "
                    "(narrow bytes): write data / strobes taken from lane counter (bounds evaluated numerically), read data shifted in "
                    "from the top (LSW first)", min_sites=5)
    from .. import pyconst as _pc12
    import copy as _copy12
    for cls_, chn in (("_AXILiteDownConverterWrite", "aw"), ("_AXILiteDownConverterRead", "ar")):
        fxd = _fx(ctx, AL, cls_, False)
        ad = fxd.find(domain="comb", target=f"slave.{chn}.addr")
        bad = None
        if len(ad) != 1 or ad[0].guards:
            bad = f"{[(a.v, a.gtext()) for a in ad]}"
        else:
            for dwt in (8, 16, 32):
                for cnt in (0, 1, 3):
                    try:
                        got = _pc12.Interp({"dw_to": dwt, "counter": cnt, "base__": 0x100}).ev(
                            ast.parse(ad[0].v.replace(f"master.{chn}.addr", "base__"), mode="eval").body)
                    except Exception as ex:     # noqa
                        got = f"? ({ex})"
                    if got != 0x100 + cnt * (dwt // 8) and bad is None:
                        bad = f"narrow width {dwt}, sub-word {cnt}: address offset {got - 0x100 if isinstance(got, int) else got}, expected {cnt * (dwt // 8)}"
        ctx.ob("B12", AL, cls_, f"slave.{chn}.addr = master.{chn}.addr + counter * (narrow bytes)", bad is None, bad or "", ad[0].line if ad else 0)
    fxd = _fx(ctx, AL, "_AXILiteDownConverterWrite", False)
    for fld, unit8 in (("data", False), ("strb", True)):
        ds = [a for a in fxd.find(domain="comb", target=f"slave.w.{fld}") if a.loops]
        bad = None
        if len(ds) != 1 or len(ds[0].guards) != 1 or norm(ds[0].guards[0][0]) != f"counter == {ds[0].loops[-1][0]}":
            bad = f"{[(a.v, a.gtext()) for a in ds]}"
        else:
            v = ds[0].value
            i_ = ds[0].loops[-1][0]
            if not (isinstance(v, ast.Subscript) and norm(v.value) == f"master.w.{fld}" and isinstance(v.slice, ast.Slice) and v.slice.lower is not None):
                bad = f"slave.w.{fld} <= {ds[0].v}"
            else:
                for dwt in (8, 16, 32):
                    for k in (0, 1, 3):
                        want = k * dwt // 8 if unit8 else k * dwt
                        try:
                            lo = _pc12.Interp({"dw_to": dwt, i_: k}).ev(_copy12.deepcopy(v.slice.lower))
                        except Exception as ex:     # noqa
                            lo = f"? ({ex})"
                        up = None
                        if v.slice.upper is not None:
                            try:
                                up = _pc12.Interp({"dw_to": dwt, i_: k}).ev(_copy12.deepcopy(v.slice.upper))
                            except Exception:       # noqa
                                up = "?"
                        if (lo != want or (up is not None and up != want + (dwt // 8 if unit8 else dwt))) and bad is None:
                            bad = f"narrow width {dwt}, sub-word {k}: taken from bit/byte {lo}, expected {want}"
        ctx.ob("B12", AL, "_AXILiteDownConverterWrite", f"slave.w.{fld} <- lane `counter` of master.w.{fld}", bad is None, bad or "", ds[0].line if ds else 0)
    fxd = _fx(ctx, AL, "_AXILiteDownConverterRead", False)
    rd = fxd.find(domain="comb", target="master.r.data")
    ok = len(rd) == 1 and not rd[0].guards and rd[0].v == "Cat(r_data[dw_to:], slave.r.data)"
    ctx.ob("B12", AL, "_AXILiteDownConverterRead", "read word = {new narrow word on top, earlier ones shifted down}", ok, "" if ok else f"{[a.v for a in rd]}",
           rd[0].line if rd else 0)
    # ================================================================ B10
    from .c10 import burst2beat_widths
    burst2beat_widths(ctx, "B10")
    # ================================================================ B9
    PERSIST = {"last_was_read": "fairness flag, persistent by design (B6)", "_last_ar_aw_n": "fairness flag, persistent by design (B6)"}
    for rel, name, is_func, _ in HOLD:
        fsm_txn_state(ctx, "B9", _fx(ctx, rel, name, is_func), name, persistent=PERSIST)

    # ================================================================ B8
    for rel, name, reg, src, resp in ((ALW, "AXILite2Wishbone", "_data", "wishbone.dat_r", "wishbone.ack"),
                                      (AHB, "AHB2Wishbone", "ahb.rdata", "wishbone.dat_r", "wishbone.ack")):
        fx = fx_of(ctx, rel, name)
        d = [a for a in fx.find(domain="sync", target=reg)]
        ok = len(d) == 1 and d[0].v == src and B.entails(q.gformula(fx, d[0], inline=False), B.A(resp))
        ctx.ob("B8", rel, name, f"{reg} <- {src} only on {resp}", ok, "" if ok else f"{[(a.v, a.gtext()) for a in d]}")
    fx = fx_of(ctx, AL, "_AXILiteDownConverterRead")
    d = fx.find(domain="sync", target="r_data")
    ok = len(d) == 1 and d[0].v == "master.r.data" and q.EQ(d[0], B.A("slave.r.ready"))
    ctx.ob("B8", AL, "_AXILiteDownConverterRead", "read shift register steps when a slave beat is consumed", ok, "" if ok else f"{[(a.v, a.gtext()) for a in d]}")
    rr = [a for a in fx.find(domain="comb", target="slave.r.ready")]
    ok = bool(rr) and all(B.entails(q.gformula(fx, a, inline=False), B.Or(B.A("slave.r.valid"), B.A("master.r.ready"))) for a in rr)
    ctx.ob("B8", AL, "_AXILiteDownConverterRead", "slave.r.ready only with slave.r.valid or when the master takes the word", ok,
           "" if ok else f"{[a.gtext() for a in rr]}")
    fxs = fx_of(ctx, AL, func="axi_lite_to_simple")
    d = fxs.find(domain="sync", target="port_dat_r_latched")
    ok = len(d) == 1 and d[0].v == "port_dat_r" and d[0].state[1] == "LATCH-READ-RESPONSE"
    ctx.ob("B8", AL, "axi_lite_to_simple", "read data latched one cycle after the address (1-cycle port latency)", ok, "" if ok else f"{[(a.state, a.v) for a in d]}")
