"""C10 -- AXI bursts are expanded and resized according to the AXI address rules (claimed, narrow).

Decided (structural, necessary): U1 Burst2Beat: beat counters move only on the beat handshake, are zeroed
on last, the request is consumed only at ready & last, the offset advances only for INCR/WRAP (and
capability), the wrap subtraction has priority over the increment, first/last are count == 0 / count == len,
beat valid independent of beat ready.  U2 twins: the aw and ar blocks of each converter / remapper are equal
under renaming; len and size use the same log2(ratio); omitted connect fields are driven.  U3 side-band
registers of the AXI converters obey the stream stability rule (registered only on accepted beats when the
data path has one cycle of latency, combinational otherwise).
Not decided: the address sequence itself, len/size arithmetic, byte order through the stride converters."""
import ast
from ..core import AnalysisError, norm, const_fold, cnorm
from .. import boolx as B
from .. import q
from ..rules_stream import fx_of, fail_closed, prio, short, s5_omit, _lit_set

AF = "litex/soc/interconnect/axi/axi_full.py"
AL = "litex/soc/interconnect/axi/axi_lite.py"

EXPLANATION = ("FHDL IR of AXIBurst2Beat and the AXI converters/remappers extracted from the AST (helper closures inlined "
               "per channel); guard entailment for the beat counters; effective-priority order of increment vs wrap; twin "
               "comparison of the aw/ar (wr/rd) blocks under renaming on the normalised IR; stability rule on side-band registers.")
TECHNIQUE = "AST-extracted FHDL IR + guard entailment + priority order + aw/ar twin comparison on normalised IR"

TWINS = [
    (AF, "AXIUpConverter", [("aw", "ar")]),
    (AF, "AXIDownConverter", [("aw", "ar")]),
    (AF, "AXIRemapper", [("aw", "ar")]),
    (AL, "AXILiteRemapper", [("aw", "ar")]),
]


def _sig(a, frm, to):
    def ren(s):
        return s.replace(f".{frm}.", f".{to}.").replace(f".{frm} ", f".{to} ").replace(f".{frm})", f".{to})")
    t = a.t if not a.t.endswith("." + frm) else a.t[:-len(frm)] + to
    # operand order of commutative operators is not part of the comparison (cnorm); guards compared as sorted conjunct lists
    g = tuple(sorted(("" if p else "~") + cnorm(ren(norm(c))) for c, p in a.guards))
    return (a.domain, ren(t), cnorm(ren(a.v)), g, tuple(a.pyguards))


def burst2beat_widths(ctx, rid, fx=None):
    """AXIBurst2Beat register widths cover the AXI-legal range (shared with C09: AXI2AXILite / AXI2Wishbone split every burst with
    this module, a narrow offset register sends the late beats of a long burst to the wrong addresses)."""
    if fx is None:
        fx = fx_of(ctx, AF, "AXIBurst2Beat")
    # ---- U4 widths
    axd = ctx.mod(AF).func("ax_description")
    lenw = None
    for n in ast.walk(axd):
        if isinstance(n, ast.Assign) and norm(n.targets[0]) == "len_width" and isinstance(n.value, ast.Subscript) and isinstance(n.value.value, ast.Dict):
            try:
                lenw = max(const_fold(n.value.value).values())
            except ValueError:
                pass
    ctx.ob(rid, AF, "ax_description", "len field widths are literals", lenw is not None, "len_width is no longer a literal table", axd)

    def width(reg):
        d = fx.decl.get(reg)
        if not d or d[0] != "Signal" or not d[1].args:
            return None
        try:
            v = const_fold(d[1].args[0])
        except ValueError:
            return None
        if isinstance(v, tuple) and len(v) == 2:
            return int(v[0]), bool(v[1])
        return (int(v), False) if isinstance(v, int) else None
    NEED = [("beat_count", lenw or 8, False, f"counts up to len ({lenw} bits)"), ("beat_size", 8, False, "holds 1 << size, size <= 7"),
            ("beat_offset", 13, True, "byte offsets 0..4095 inside a 4KB page, negative after a WRAP"), ("beat_wrap", 11, False, "len << size, len <= 15 for WRAP")]
    for reg, bits, signed, why in NEED:
        w = width(reg)
        ok = w is not None and w[0] >= bits and (w[1] or not signed)
        ctx.ob(rid, AF, "AXIBurst2Beat", f"{reg}: {'signed, ' if signed else ''}>= {bits} bits", ok,
               "" if ok else f"`{reg}` is declared {w}: {why}; a legal burst overflows it and the beat addresses/count wrap", fx.decl.get(reg, (0, 0))[1] or 0)


def run(ctx):
    ctx.rule("U1", "Burst2Beat: count/offset move only under beat valid & ready; zeroed on last; burst consumed only at beat ready & "
                   "last; offset advances only for INCR/WRAP with capability; wrap subtraction later than the increment; "
                   "first = count == 0, last = count == len; valid independent of ready", min_sites=22)
    ctx.rule("U2", "aw/ar twins equal under renaming; len and size use the same log2(ratio); omit sets equal what is driven",
             min_sites=26)
    ctx.rule("U3", "converter side-band (resp/id/user/dest): registered only on accepted beats where the data path has latency "
                   "1, combinational where it has none", min_sites=14)
    ctx.rule("U4", "Burst2Beat register widths cover the AXI-legal range: beat_count >= the widest `len` field of ax_description; "
                   "beat_size holds 1 << 7 (1024-bit beats); beat_offset is signed with >= 12 magnitude bits (a burst stays inside a "
                   "4KB page, AXI A3.4.1) ; beat_wrap holds 15 << 7 (WRAP bursts have at most 16 beats)", min_sites=5)
    ctx.rule("U5", "width-conversion geometry: ratio is wide // narrow for the converter's direction; the down-converter starts the "
                   "narrow burst at the wide word (low log2(wide bytes) address bits cleared), clamps size at the narrow bus; data/strb "
                   "converters run wide->narrow for writes and narrow->wide for reads (up-converter: the reverse)", min_sites=8)
    ctx.rule("PRIO", "no dead driver", min_sites=1)

    # ================================================================ U1
    fx = fx_of(ctx, AF, "AXIBurst2Beat")
    fail_closed(ctx, fx, "AXIBurst2Beat")
    burst2beat_widths(ctx, "U4", fx)
    prio(ctx, "PRIO", fx, "AXIBurst2Beat")
    H = B.from_expr("ax_beat.valid & ax_beat.ready")
    for reg in ("beat_count", "beat_offset"):
        ds = fx.find(domain="sync", target=reg)
        ctx.ob("U1", AF, "AXIBurst2Beat", f"{reg}:driven", len(ds) >= 2, f"{len(ds)} drivers", 0)
        for a in ds:
            G = a.eff()
            ok = B.entails(G, H)
            ctx.ob("U1", AF, "AXIBurst2Beat", f"{reg} <= {short(a.v, 30)} only on the beat handshake", ok,
                   "" if ok else f"under {B.show(G)}: a stalled beat is skipped or repeated", a.line)
            if a.v == "0":
                ok = B.entails(G, B.A("ax_beat.last"))
                ctx.ob("U1", AF, "AXIBurst2Beat", f"{reg} zeroed only on last", ok, "" if ok else f"under {B.show(G)}", a.line)
    # the WRAP boundary subtraction is the last statement and overrides both the increment and -- when a WRAP burst that
    # started on its aligned boundary ends, where offset == beat_wrap and offset - beat_wrap == 0 -- the zeroing.  Every other
    # override of these registers is reported.
    W = B.And(H, B.from_expr("(ax_burst.burst == BURST_WRAP) & (BURST_WRAP in capabilities)"), B.A("ax_beat.addr & beat_wrap == beat_wrap"))
    for reg in ("beat_count", "beat_offset"):
        z = [a for a in fx.find(domain="sync", target=reg) if a.v == "0"]
        want = B.And(H, B.A("ax_beat.last"))
        if reg == "beat_offset":
            want = B.And(want, B.Not(W))
        ok = len(z) == 1 and q.EQ(z[0], want)
        ctx.ob("U1", AF, "AXIBurst2Beat", f"{reg} returns to 0 with the last beat", ok,
               "" if ok else f"{[(a.v, a.gtext()) for a in z]}: the next burst starts from a stale {reg}")
    inc = [a for a in fx.find(domain="sync", target="beat_count") if a.v == "beat_count + 1"]
    ok = len(inc) == 1 and q.EQ(inc[0], B.And(H, B.Not(B.A("ax_beat.last"))))
    ctx.ob("U1", AF, "AXIBurst2Beat", "count + 1 on every non-last beat", ok, "" if ok else f"{[a.gtext() for a in inc]}")
    adv = [a for a in fx.find(domain="sync", target="beat_offset") if a.v == "beat_offset + beat_size"]
    wrp = [a for a in fx.find(domain="sync", target="beat_offset") if a.v == "beat_offset - beat_wrap"]
    ok = len(adv) == 1
    if ok:
        G = adv[0].eff()
        cap = B.from_expr("((ax_burst.burst == BURST_INCR) & (BURST_INCR in capabilities)) | ((ax_burst.burst == BURST_WRAP) & (BURST_WRAP in capabilities))")
        ok = q.EQ(adv[0], B.And(H, B.Not(B.A("ax_beat.last")), cap, B.Not(W)))
    ctx.ob("U1", AF, "AXIBurst2Beat", "offset advances only for INCR / WRAP (with capability) on non-last beats", ok,
           "" if ok else f"{[a.gtext() for a in adv]}: FIXED bursts would walk through memory / INCR bursts would not", adv[0].line if adv else 0)
    ok = len(wrp) == 1 and len(adv) == 1
    if ok:
        G = wrp[0].eff()
        ok = B.entails(G, B.from_expr("(ax_burst.burst == BURST_WRAP) & (BURST_WRAP in capabilities)")) and \
            B.entails(G, B.A("ax_beat.addr & beat_wrap == beat_wrap")) and fx.assigns.index(wrp[0]) > fx.assigns.index(adv[0])
    ctx.ob("U1", AF, "AXIBurst2Beat", "wrap subtraction for WRAP at the boundary, later than the increment (priority)", ok,
           "" if ok else f"{[(a.gtext()) for a in wrp]} / order", wrp[0].line if wrp else 0)
    br = fx.find(domain="comb", target="ax_burst.ready")
    ok = len(br) == 1 and br[0].v == "1" and q.EQ(br[0], B.from_expr("ax_beat.ready & ax_beat.last"))
    ctx.ob("U1", AF, "AXIBurst2Beat", "burst consumed only at beat ready & last", ok,
           "" if ok else f"{[(a.v, a.gtext()) for a in br]}: the request is dropped before all beats were issued or consumed twice")
    for t, v in (("ax_beat.first", "beat_count == 0"), ("ax_beat.last", "beat_count == ax_burst.len"), ("ax_beat.addr", "ax_burst.addr + beat_offset"),
                 ("ax_beat.id", "ax_burst.id"), ("beat_size", "2 ** ax_burst.size"), ("beat_wrap", "ax_burst.len << ax_burst.size")):
        d = fx.find(domain="comb", target=t)
        ok = len(d) == 1 and d[0].v == v and not d[0].guards
        ctx.ob("U1", AF, "AXIBurst2Beat", f"{t} = {v}", ok, "" if ok else f"{[a.v for a in d]}")
    bv = fx.find(domain="comb", target="ax_beat.valid")
    ok = len(bv) == 1 and B.equivalent(B.from_expr(bv[0].value), B.from_expr("ax_burst.valid | ~ax_beat.first"))
    clos = q.comb_closure(fx, "ax_beat.valid") if bv else set()
    ok = ok and "ax_beat.ready" not in clos
    ctx.ob("U1", AF, "AXIBurst2Beat", "beat valid = burst valid or burst in progress, independent of beat ready", ok,
           "" if ok else f"{[a.v for a in bv]} (closure {sorted(clos)[:6]})")

    # ================================================================ U2
    for rel, cls, pairs in TWINS:
        fx = fx_of(ctx, rel, cls)
        fail_closed(ctx, fx, cls)
        for frm, to in pairs:
            A_ = [a for a in fx.find() if f".{frm}." in a.t or a.t.endswith("." + frm)]
            Bb = [a for a in fx.find() if f".{to}." in a.t or a.t.endswith("." + to)]
            sa = sorted(_sig(a, frm, to) for a in A_)
            sb = sorted(_sig(a, to, to) for a in Bb)
            ok = sa == sb and len(sa) > 0
            diff = [x for x in sa if x not in sb][:2] + [x for x in sb if x not in sa][:2]
            ctx.ob("U2", rel, cls, f"{frm} block == {to} block under renaming ({len(sa)} assignments)", ok,
                   "" if ok else f"the {frm} and {to} channels are converted differently: {diff}", (A_ or Bb)[0].line if (A_ or Bb) else 0)
            ca = [c for c in fx.conns if norm(c["conn"].src).endswith("." + frm) or norm(c["conn"].dst).endswith("." + frm)]
            cb = [c for c in fx.conns if norm(c["conn"].src).endswith("." + to) or norm(c["conn"].dst).endswith("." + to)]

            def om(c):
                try:
                    return frozenset(_lit_set(c["conn"].omit)) if c["conn"].omit is not None else frozenset()
                except ValueError:
                    return "?"
            ok = sorted(str(sorted(om(c))) if om(c) != "?" else "?" for c in ca) == sorted(str(sorted(om(c))) if om(c) != "?" else "?" for c in cb)
            if ca or cb:
                ctx.ob("U2", rel, cls, f"{frm}/{to} connects omit the same fields", ok, "" if ok else f"{[om(c) for c in ca]} vs {[om(c) for c in cb]}")
        if cls in ("AXIUpConverter", "AXIDownConverter"):
            # every field omitted from the aw/ar connects is driven explicitly on the destination channel
            for c in fx.conns:
                dst = norm(c["conn"].dst)
                if not dst.endswith((".aw", ".ar")) or c["conn"].omit is None:
                    continue
                for name in sorted(_lit_set(c["conn"].omit)):
                    drv = [a for a in fx.find() if a.t == f"{dst}.{name}" or a.t.startswith(f"{dst}.{name}[")]
                    ctx.ob("U2", rel, cls, f"omitted {dst}.{name} is driven", bool(drv),
                           "" if drv else f"`{name}` is omitted from the connect into {dst} and never driven: the converted burst keeps a stale {name}", c["node"])
    fx = fx_of(ctx, AF, "AXIUpConverter")
    for ch in ("aw", "ar"):
        ln = fx.find(domain="comb", target=f"axi_to.{ch}.len")
        sz = fx.find(domain="comb", target=f"axi_to.{ch}.size")
        ok = len(ln) == 1 and len(sz) == 1 and ln[0].v == f"axi_from.{ch}.len >> log2_int(ratio)" and sz[0].v == f"axi_from.{ch}.size + log2_int(ratio)"
        ctx.ob("U2", AF, "AXIUpConverter", f"{ch}: len >> k and size + k with one k = log2(ratio)", ok,
               "" if ok else f"len {[a.v for a in ln]} size {[a.v for a in sz]}")
    fx = fx_of(ctx, AF, "AXIDownConverter")
    for ch in ("aw", "ar"):
        ln = fx.find(domain="comb", target=f"axi_to.{ch}.len")
        ok = len(ln) == 1 and ln[0].v == f"(axi_from.{ch}.len + 1 << log2_int(ratio)) - 1"
        ctx.ob("U2", AF, "AXIDownConverter", f"{ch}: len' = ((len + 1) << log2(ratio)) - 1", ok, "" if ok else f"{[a.v for a in ln]}")
        sz = fx.find(domain="comb", target=f"axi_to.{ch}.size")
        ok = len(sz) == 2 and {a.v for a in sz} == {f"axi_from.{ch}.size", "log2_int(dw_to // 8)"}
        ctx.ob("U2", AF, "AXIDownConverter", f"{ch}: size clamped to the narrow bus", ok, "" if ok else f"{[a.v for a in sz]}")
        bu = {a.gtext(): a.v for a in fx.find(domain="comb", target=f"axi_to.{ch}.burst")}
        ok = bu == {f"(axi_from.{ch}.burst == BURST_FIXED)": "BURST_INCR", f"(axi_from.{ch}.burst == BURST_INCR)": "BURST_INCR",
                    f"(axi_from.{ch}.burst == BURST_WRAP)": "BURST_WRAP", f"(axi_from.{ch}.burst == BURST_RESERVED)": "BURST_RESERVED"}
        ctx.ob("U2", AF, "AXIDownConverter", f"{ch}: FIXED -> INCR, others kept", ok, "" if ok else f"{bu}")
    # ---- U5 geometry of the width conversion (which side is wide)
    def side(fx, name):
        d = fx.localdefs.get(name)
        t = norm(d) if d is not None else ""
        for sd in ("from", "to"):
            if t in (f"len(axi_{sd}.r.data)", f"len(axi_{sd}.w.data)"):
                return sd
        return None
    fx = fx_of(ctx, AF, "AXIDownConverter")
    ws = {n: side(fx, n) for n in fx.localdefs if side(fx, n)}
    wide = [n for n, sd in ws.items() if sd == "from"]
    narrow = [n for n, sd in ws.items() if sd == "to"]
    ctx.need(len(wide) == 1 and len(narrow) == 1, f"AXIDownConverter: width locals not recognised ({ws})")
    wide, narrow = wide[0], narrow[0]
    rt = norm(fx.localdefs.get("ratio", ast.Constant(value=None)))
    ok = rt in (f"int({wide} // {narrow})", f"{wide} // {narrow}")
    ctx.ob("U5", AF, "AXIDownConverter", "ratio = master-side width // slave-side width", ok, "" if ok else f"ratio = {rt}")
    for ch in ("aw", "ar"):
        full = [a for a in fx.find(domain="comb", target=f"axi_to.{ch}.addr")]
        low = [a for a in fx.find(domain="comb") if a.t.startswith(f"axi_to.{ch}.addr[:")]
        ok = len(full) == 1 and full[0].v == f"axi_from.{ch}.addr" and len(low) == 1 and low[0].v == "0" and not low[0].guards and \
            low[0].t == f"axi_to.{ch}.addr[:log2_int({wide} // 8)]" and fx.assigns.index(low[0]) > fx.assigns.index(full[0])
        ctx.ob("U5", AF, "AXIDownConverter", f"{ch}: the narrow burst starts at the wide word (low log2(wide bytes) address bits cleared, after the copy)", ok,
               "" if ok else f"{[(a.t, a.v) for a in full + low]}: the {f'log2_int({wide} // 8)'} low bits select the byte lane inside the "
                             f"master-side word; the data converter emits lanes from 0, so the converted burst must start at the word base",
               (low or full)[0].line if (low or full) else 0)
        sz = [a for a in fx.find(domain="comb", target=f"axi_to.{ch}.size") if a.v != f"axi_from.{ch}.size"]
        ok = len(sz) == 1 and sz[0].v == f"log2_int({narrow} // 8)" and \
            q.EQ(sz[0], B.Not(B.from_expr(f"axi_from.{ch}.size <= log2_int({narrow} // 8)")))
        ctx.ob("U5", AF, "AXIDownConverter", f"{ch}: size clamped at log2(narrow bytes)", ok, "" if ok else f"{[(a.v, a.gtext()) for a in sz]}")
    conv = {i.name: i for i in fx.insts if i.cls.endswith("StrideConverter") and i.call is not None}

    def widths(i):
        kw = {k.arg: norm(k.value) for k in i.call.keywords}
        return kw.get("description_from", ""), kw.get("description_to", "")
    ok = set(conv) == {"w_converter", "r_converter"}
    if ok:
        wf, wt = widths(conv["w_converter"])
        rf, rt_ = widths(conv["r_converter"])
        ok = f"('data', {wide})" in wf and f"('strb', {wide} // 8)" in wf and f"('data', {narrow})" in wt and f"('strb', {narrow} // 8)" in wt and \
            f"('data', {narrow})" in rf and f"('data', {wide})" in rt_
    ctx.ob("U5", AF, "AXIDownConverter", "write data wide -> narrow (data and strb), read data narrow -> wide", ok,
           "" if ok else f"{ {k: widths(v) for k, v in conv.items()} }")
    fx = fx_of(ctx, AF, "AXIUpConverter")
    ws = {n: side(fx, n) for n in fx.localdefs if side(fx, n)}
    nar = [n for n, sd in ws.items() if sd == "from"]
    wid = [n for n, sd in ws.items() if sd == "to"]
    ctx.need(len(nar) == 1 and len(wid) == 1, f"AXIUpConverter: width locals not recognised ({ws})")
    rt = norm(fx.localdefs.get("ratio", ast.Constant(value=None)))
    ok = rt in (f"int({wid[0]} // {nar[0]})", f"{wid[0]} // {nar[0]}")
    ctx.ob("U5", AF, "AXIUpConverter", "ratio = slave-side width // master-side width", ok, "" if ok else f"ratio = {rt}")
    conv = {i.name: i for i in fx.insts if i.cls.endswith("StrideConverter") and i.call is not None}
    ok = set(conv) == {"w_converter", "r_converter"}
    if ok:
        wf, wt = widths(conv["w_converter"])
        rf, rt_ = widths(conv["r_converter"])
        ok = f"('data', {nar[0]})" in wf and f"('strb', {nar[0]} // 8)" in wf and f"('data', {wid[0]})" in wt and f"('strb', {wid[0]} // 8)" in wt and \
            f"('data', {wid[0]})" in rf and f"('data', {nar[0]})" in rt_
    ctx.ob("U5", AF, "AXIUpConverter", "write data narrow -> wide (data and strb), read data wide -> narrow", ok,
           "" if ok else f"{ {k: widths(v) for k, v in conv.items()} }")
    # the data paths above are stream.StrideConverter: its packing element carries the burst's `last` (WLAST / RLAST of the converted
    # burst) -- same obligation as C03.S3, reported here because the converted burst is what this property is about
    ctx.rule("U6", "the packing element behind the converters' narrow->wide data paths (stream._UpConverter, via StrideConverter) puts "
                   "`last` (and `first`) on the wide beat of the narrow beat that carried it, and only there; the lane counters of the packing / "
                   "unpacking elements step only on their own handshake", min_sites=4)
    from ..rules_stream import s3_word_flags
    s3_word_flags(ctx, "U6", fx_of(ctx, "litex/soc/interconnect/stream.py", "_UpConverter"), "_UpConverter")
    # ... and the lane counters of both elements step only on their own handshake (wide->narrow: W of the down-converter, R of the
    # up-converter -- a slave that holds WREADY high before the data arrives must not advance the sub-beat position)
    from ..rules_stream import s3_counter
    from .c03 import HIN, HOUT, packer_loads
    packer_loads(ctx, "U6", "_UpConverter")
    from ..share import lift
    lift(ctx, "c03", [("S3", "_UpConverter", "word completion restarts the lane counter"), ("S3", "_UpConverter", "strobe_all")], "U7",
         "a wide beat closed early by `last` (a burst whose length is not a multiple of the ratio) leaves the packing element at lane 0 for "
         "the next burst (C03.S3 decides the same construct)", min_sites=2)
    for cls_, cnt_, hs_ in (("_UpConverter", "demux", HIN), ("_DownConverter", "mux", HOUT)):
        s3_counter(ctx, "U6", fx_of(ctx, "litex/soc/interconnect/stream.py", cls_), cls_, cnt_, hs_)

    # ================================================================ U3
    fx = fx_of(ctx, AF, "AXIDownConverter")
    for fld in ("resp", "id", "user", "dest"):
        d = [a for a in fx.find() if a.t == f"axi_from.r.{fld}"]
        ok = len(d) == 1 and d[0].domain.startswith("sync") and d[0].v == f"axi_to.r.{fld}" and \
            q.IMP(d[0], B.from_expr("axi_to.r.valid & axi_to.r.ready"))
        ctx.ob("U3", AF, "AXIDownConverter", f"r.{fld} registered only on an accepted narrow beat", ok,
               "" if ok else f"{[(a.domain, a.v, a.gtext()) for a in d]}: the side-band of a stalled wide word changes to the next beat's",
               d[0].line if d else 0)
    fx = fx_of(ctx, AF, "AXIUpConverter")
    for fld in ("resp", "id", "user", "dest"):
        d = [a for a in fx.find() if a.t == f"axi_from.r.{fld}"]
        ok = len(d) == 1 and d[0].domain == "comb" and d[0].v == f"axi_to.r.{fld}" and not d[0].guards
        ctx.ob("U3", AF, "AXIUpConverter", f"r.{fld} combinational (down-converter has no latency)", ok,
               "" if ok else f"{[(a.domain, a.v, a.gtext()) for a in d]}", d[0].line if d else 0)
    for cls in ("AXIUpConverter", "AXIDownConverter"):
        fx = fx_of(ctx, AF, cls)
        for fld in ("id", "dest", "user"):
            d = [a for a in fx.find() if a.t == f"axi_to.w.{fld}"]
            ok = len(d) == 1 and d[0].v == f"axi_from.w.{fld}"
            ctx.ob("U3", AF, cls, f"w.{fld} forwarded", ok, "" if ok else f"{[(a.v) for a in d]}")
