"""C11 -- a silent or absent slave cannot hang the bus.

Decided (structural, necessary): T1 every interconnect that accepts `timeout_cycles` builds a *Timeout on its
shared bus from it (the three crossbars ignore the parameter: known findings); T2 the Timeout is constructed
after the Decoder (its conditional assignments must come last to win); T3 Timeout bodies: wait condition,
forced ack + all-ones data + error (Wishbone); WAIT/RESPOND machines with SLVERR, all-ones read data, last,
request absorbed, RESPOND left only on the response handshake, error pulse on entry (AXI-Lite/AXI); RESP_SLVERR
is 0b10; T4 WaitTimer skeleton; T5 the error pulse reaches the saturating SoC counter.
Not decided: the cycle count itself, same-cycle coincidences, recovery as a history property."""
import ast
from ..core import AnalysisError, norm, const_fold
from .. import boolx as B
from .. import q
from ..rules_stream import fx_of, fail_closed, prio, fsm_sanity, short

WB = "litex/soc/interconnect/wishbone.py"
AL = "litex/soc/interconnect/axi/axi_lite.py"
AF = "litex/soc/interconnect/axi/axi_full.py"
AC = "litex/soc/interconnect/axi/axi_common.py"
MISC = "litex/gen/genlib/misc.py"
SOC = "litex/soc/integration/soc.py"

EXPLANATION = ("FHDL IR of the Timeout classes (FSMs built through a local closure are resolved by inlining it at each call "
               "site); parameter def-use of timeout_cycles in the six interconnect classes; instantiation order; guard "
               "equivalences for the wait conditions and RESPOND exits; literal RESP constants.")
TECHNIQUE = "AST-extracted FHDL IR + parameter def-use + instantiation order + guard equivalence + literal constants"

INTERCONNECTS = [
    (WB, "InterconnectShared", "Timeout", "Decoder"),
    (WB, "Crossbar", "Timeout", "Decoder"),
    (AL, "AXILiteInterconnectShared", "AXILiteTimeout", "AXILiteDecoder"),
    (AL, "AXILiteCrossbar", "AXILiteTimeout", "AXILiteDecoder"),
    (AF, "AXIInterconnectShared", "AXITimeout", "AXIDecoder"),
    (AF, "AXICrossbar", "AXITimeout", "AXIDecoder"),
]


def timeout_in_interconnect(ctx, rel, cls, tcls, dcls, r1="T1", r2="T2"):
    """An interconnect that accepts timeout_cycles builds the watchdog from it, on the decoder's master bus and -- for the shared
    form -- *after* the decoder (Migen: later comb assignments win; shared with C06)."""
    m = ctx.mod(rel)
    init = m.method(cls, "__init__")
    params = [a.arg for a in init.args.args]
    ctx.need("timeout_cycles" in params, f"{cls}.__init__ no longer accepts timeout_cycles (instance table stale)")
    fx = fx_of(ctx, rel, cls)
    fail_closed(ctx, fx, cls)
    touts = [i for i in fx.insts if i.cls == tcls]
    ok = len(touts) >= 1 and all(len(i.call.args) >= 2 and norm(i.call.args[1]) == "timeout_cycles" for i in touts) and \
        all(("timeout_cycles is None", False) in i.pyguards for i in touts)
    used = any(isinstance(n, ast.Name) and n.id == "timeout_cycles" and isinstance(n.ctx, ast.Load) for n in ast.walk(init))
    ctx.ob(r1, rel, cls, "timeout_cycles builds a Timeout", ok,
           "" if ok else (f"`timeout_cycles` is accepted by {cls}.__init__ but "
                          + ("never read" if not used else "no " + tcls + " is built from it")
                          + ": an access to an unmapped address or a silent slave hangs the bus forever"), init)
    if ok and "Shared" in cls:
        decs = [i for i in fx.insts if i.cls == dcls]
        ok2 = len(decs) == 1 and all(t.order > decs[0].order for t in touts)
        ctx.ob(r2, rel, cls, "Timeout constructed after the Decoder", ok2,
               "" if ok2 else "the Timeout is built before the Decoder: the decoder's unconditional ack/ready/valid assignments "
                              "come later and override the forced termination", touts[0].node)
        # same bus as the decoder's master
        ok3 = decs and norm(touts[0].call.args[0]) == norm(decs[0].call.args[0])
        ctx.ob(r1, rel, cls, "Timeout watches the decoder's master bus", ok3, "" if ok3 else f"{touts[0]} vs {decs[0] if decs else None}", touts[0].node)
        # the SoC finds the watchdog by attribute name: SoC.finalize wires ctrl.bus_error only `if hasattr(interconnect, "<name>")`
        # and reads `<name>.error`; a watchdog kept as an anonymous submodule is never counted (writer / reader agreement)
        soc_ = ctx.mod("litex/soc/integration/soc.py")
        names_ = set()
        for n_ in ast.walk(soc_.tree):
            if isinstance(n_, ast.Call) and norm(n_.func) == "hasattr" and len(n_.args) == 2 and "_interconnect" in norm(n_.args[0]) and \
                    isinstance(n_.args[1], ast.Constant) and isinstance(n_.args[1].value, str):
                names_.add(n_.args[1].value)
        ok4 = len(names_) == 1 and touts[0].name == f"self.{next(iter(names_))}"
        ctx.ob(r1, rel, cls, "the watchdog is published under the attribute the SoC reads its error pulse from", ok4,
               "" if ok4 else f"the {tcls} is bound to `{touts[0].name}`, SoC.finalize looks for {sorted(names_)}: the time-out still answers the "
                              f"master but ctrl.bus_errors never counts it", touts[0].node)


def wb_timeout_body(ctx, rid):
    """wishbone.Timeout: counts only an unanswered request, terminates with ack + error data exactly on expiry (shared with C06:
    a watchdog that fires on an answered request gives the master a second termination / data that is not the slave's)."""
    fx = fx_of(ctx, WB, "Timeout")
    fail_closed(ctx, fx, "Timeout")
    w = fx.find(domain="comb", target="timer.wait")
    ok = len(w) == 1 and not w[0].guards and B.equivalent(B.from_expr(w[0].value), B.from_expr("master.stb & master.cyc & ~master.ack"))
    ctx.ob(rid, WB, "Timeout", "wait = stb & cyc & ~ack", ok, "" if ok else f"timer.wait <= {w[0].v if w else '?'}", w[0].line if w else 0)
    for tgt, want in (("master.ack", "1"), ("self.error", "1"), ("master.dat_r", "2 ** len(master.dat_w) - 1")):
        ds = fx.find(domain="comb", target=tgt)
        ok = len(ds) == 1 and ds[0].v == want and q.EQ(ds[0], B.A("timer.done"))
        ctx.ob(rid, WB, "Timeout", f"{tgt} = {want} on expiry", ok,
               "" if ok else f"{tgt} <= {ds[0].v if ds else '(none)'} under {ds[0].gtext() if ds else '-'}", ds[0].line if ds else 0)
    ti = [i for i in fx.insts if i.cls == "WaitTimer" and i.call is not None]
    ok = len(ti) == 1 and norm(ti[0].call.args[0]) == "cycles"
    ctx.ob(rid, WB, "Timeout", "WaitTimer(cycles)", ok, "" if ok else f"{ti}")


def run(ctx):
    ctx.rule("T1", "every interconnect whose __init__ accepts timeout_cycles instantiates a *Timeout(<bus>, timeout_cycles) on "
                   "the `timeout_cycles is not None` path", min_sites=6)
    ctx.rule("T2", "the Timeout is constructed after the Decoder (later statements win)", min_sites=3)
    ctx.rule("T6", "exactly one termination: while the watchdog answers a request (RESPOND) the request is not visible to the slaves any "
                   "more (AXI / AXI-Lite: a handshake completed by the watchdog on the shared wires can be completed by the slave too)",
             min_sites=4)
    ctx.rule("T7", "the interconnect survives a time-out: the locks' outstanding-request counters never leave 0..max-1 (a response "
                   "produced by the watchdog for a request that was never counted must not wrap the counter: the lock would stay "
                   "closed for ever)", min_sites=8)
    from .c08 import lock_counter_range
    lock_counter_range(ctx, "T7")
    ctx.rule("T8", "the watchdog's error response reaches the master whose request timed out: the arbiters keep the grant while any "
                   "channel of the target is valid, the response channels (b / r) included -- the locks do not count a request whose "
                   "address beat was never accepted -- and hand b / r to the master granted by the round-robin of that direction", min_sites=6)
    from .c08 import arbiter_grant_freeze
    arbiter_grant_freeze(ctx, "T8")
    from ..share import lift
    lift(ctx, "c08", [("L3", "AXI", "locks count master-side request/response handshakes")], "T9",
         "the slave selection of the decoders is held until the response the watchdog may have to give is complete: the locks count "
         "request handshakes against response handshakes, bursts up to their last beat (C08.L3 decides the same construct)", min_sites=2)
    ctx.rule("T3", "Timeout bodies: wait condition, forced termination with error data, RESPOND exits only on the response "
                   "handshake, error pulse, RESP_SLVERR = 0b10", min_sites=40)
    ctx.rule("T4", "WaitTimer: done = count == 0; decrement under wait & ~done; reload when not waiting; reset value t", min_sites=4)
    ctx.rule("T5", "SoC: ctrl.bus_error <- interconnect.timeout.error; bus_errors increments on bus_error and saturates; the "
                   "handler passes its timeout to the interconnect", min_sites=4)
    ctx.rule("S7", "FSM sanity of the timeout machines", min_sites=2)

    # ================================================================ T1 / T2
    for rel, cls, tcls, dcls in INTERCONNECTS:
        timeout_in_interconnect(ctx, rel, cls, tcls, dcls)

    # ================================================================ T3 wishbone
    wb_timeout_body(ctx, "T3")

    # ================================================================ T3 AXI-Lite / AXI
    acm = ctx.mod(AC)
    resp = {k: const_fold(acm.const(k)) for k in ("RESP_OKAY", "RESP_EXOKAY", "RESP_SLVERR", "RESP_DECERR")}
    ok = resp == {"RESP_OKAY": 0, "RESP_EXOKAY": 1, "RESP_SLVERR": 2, "RESP_DECERR": 3}
    ctx.ob("T3", AC, "<constants>", "RESP encodings (OKAY 0, EXOKAY 1, SLVERR 2, DECERR 3)", ok, "" if ok else f"{resp}")
    for rel, cls, full in ((AL, "AXILiteTimeout", False), (AF, "AXITimeout", True)):
        fx = fx_of(ctx, rel, cls)
        fail_closed(ctx, fx, cls)
        fsm_sanity(ctx, "S7", fx, cls)
        ctx.need(len(fx.fsms) == 2, f"{cls}: expected a write and a read machine, found {len(fx.fsms)}")
        e = fx.find(domain="comb", target="self.error")
        ok = len(e) == 1 and B.equivalent(B.from_expr(e[0].value), B.from_expr("wr_error | rd_error")) and not e[0].guards
        ctx.ob("T3", rel, cls, "error = wr_error | rd_error", ok, "" if ok else f"error <= {e[0].v if e else '?'}")
        for info in fx.fsms.values():
            name = info.alias or info.id
            kind = "wr" if "wr" in name else ("rd" if "rd" in name else "?")
            ctx.need(kind != "?", f"{cls}: cannot tell write/read machine from `{name}`")
            timer = f"{kind}_timer"
            st = lambda s: (info.id, s)
            # WAIT
            w = [a for a in fx.find(domain="comb", target=f"{timer}.wait") if a.state == st("WAIT")]
            want = "(master.aw.valid & ~master.aw.ready) | (master.w.valid & ~master.w.ready)" if kind == "wr" else \
                "master.ar.valid & ~master.ar.ready"
            ok = len(w) == 1 and not w[0].guards and B.equivalent(B.from_expr(w[0].value), B.from_expr(want))
            ctx.ob("T3", rel, cls, f"{kind}: wait condition = request pending without ready", ok,
                   "" if ok else f"{timer}.wait <= {w[0].v if w else '?'}", w[0].line if w else 0)
            er = [a for a in fx.find(domain="comb", target=f"{kind}_error") if a.state == st("WAIT")]
            ok = len(er) == 1 and er[0].v == "1" and q.EQ(er[0], B.from_expr(f"{timer}.done & {timer}.wait"))
            ctx.ob("T3", rel, cls, f"{kind}: error pulse on expiry while still waiting", ok,
                   "" if ok else f"{kind}_error under {er[0].gtext() if er else '?'}", er[0].line if er else 0)
            tr = [t for t in fx.trans if t.fsm == info.id and t.src == "WAIT"]
            ok = len(tr) == 1 and tr[0].dst == "RESPOND" and q.EQ(tr[0], B.from_expr(f"{timer}.done & {timer}.wait"))
            ctx.ob("T3", rel, cls, f"{kind}: WAIT -> RESPOND on done & wait only", ok,
                   "" if ok else f"{[(t.dst, t.gtext()) for t in tr]}: requests answered in time would be disturbed", tr[0].line if tr else 0)
            # RESPOND
            def drv(t):
                return [a for a in fx.find(domain="comb", target=t) if a.state == st("RESPOND")]
            # T6: the watchdog completes the request handshake on the very wires the slaves listen to; unless it also hides the
            # request (valid) from them, a slave whose ready arrives while RESPOND is accepting takes the request too
            req = ("aw", "w") if kind == "wr" else ("ar",)
            forced = [c for c in req if any(a.v == f"master.{c}.valid" for a in drv(f"master.{c}.ready"))]
            hidden = [c for c in req if any(a.t.endswith(f"{c}.valid") for a in fx.find(domain="comb") if a.state == st("RESPOND"))]
            ok = bool(forced) and set(forced) <= set(hidden)
            ctx.ob("T6", rel, cls, f"{kind}: RESPOND hides the request it answers from the slaves", ok,
                   "" if ok else f"RESPOND forces {['master.%s.ready' % c for c in forced]} while master.{'/'.join(req)}.valid still reaches the "
                                 f"slaves (channels masked: {hidden}): a slave that raises ready in the first RESPOND cycle accepts the request "
                                 f"as well, the master receives two responses", (drv(f"master.{req[0]}.ready") or [w[0]])[0].line if (drv(f"master.{req[0]}.ready") or w) else 0)
            if kind == "wr":
                obl = [("master.aw.ready", "master.aw.valid"), ("master.w.ready", "master.w.valid"), ("master.b.resp", "RESP_SLVERR")]
                v = drv("master.b.valid")
                ok = len(v) == 1 and B.equivalent(B.from_expr(v[0].value), B.from_expr("~master.aw.valid & ~master.w.valid"))
                ctx.ob("T3", rel, cls, "wr: b.valid once the request has been absorbed", ok, "" if ok else f"b.valid <= {v[0].v if v else '?'}")
                exit_want = "master.b.valid & master.b.ready"
            else:
                obl = [("master.ar.ready", "master.ar.valid"), ("master.r.resp", "RESP_SLVERR"),
                       ("master.r.data", "2 ** len(master.r.data) - 1")]
                if full:
                    obl.append(("master.r.last", "1"))
                v = drv("master.r.valid")
                ok = len(v) == 1 and B.equivalent(B.from_expr(v[0].value), B.from_expr("~master.ar.valid"))
                ctx.ob("T3", rel, cls, "rd: r.valid once the request has been absorbed", ok, "" if ok else f"r.valid <= {v[0].v if v else '?'}")
                exit_want = "master.r.valid & master.r.ready"
            for t, want in obl:
                d = drv(t)
                ok = len(d) == 1 and d[0].v == want and not d[0].guards
                ctx.ob("T3", rel, cls, f"{kind}: RESPOND {t} = {want}", ok,
                       "" if ok else f"{t} <= {d[0].v if d else '(not driven)'}", d[0].line if d else 0)
            tr = [t for t in fx.trans if t.fsm == info.id and t.src == "RESPOND"]
            ok = len(tr) == 1 and tr[0].dst == "WAIT" and q.EQ(tr[0], B.from_expr(exit_want))
            ctx.ob("T3", rel, cls, f"{kind}: RESPOND left only on the response handshake", ok,
                   "" if ok else f"{[(t.dst, t.gtext()) for t in tr]}", tr[0].line if tr else 0)
        ti = [i for i in fx.insts if i.cls == "WaitTimer" and i.call is not None]
        ok = len(ti) == 2 and all(norm(i.call.args[0]) == "cycles" for i in ti)
        ctx.ob("T3", rel, cls, "two WaitTimer(cycles)", ok, "" if ok else f"{ti}")

    # ================================================================ T4
    fx = fx_of(ctx, MISC, "WaitTimer")
    fail_closed(ctx, fx, "WaitTimer")
    d = fx.find(domain="comb", target="self.done")
    ok = len(d) == 1 and d[0].v == "count == 0" and not d[0].guards
    ctx.ob("T4", MISC, "WaitTimer", "done = count == 0", ok, "" if ok else f"done <= {d[0].v if d else '?'}")
    cs = fx.find(domain="sync", target="count")
    dec = [a for a in cs if a.v == "count - 1"]
    # the reload value is the counter's declared reset value, however it is spelled (count.reset / t / int(t))
    dc0 = fx.decl.get("count")
    rst_txt = {norm(k.value) for k in dc0[1].keywords if k.arg == "reset"} if dc0 is not None and dc0[1] is not None else set()
    rel_ = [a for a in cs if a.v in ({"count.reset", "t", "int(t)"} | rst_txt)]
    ok = len(dec) == 1 and B.equivalent(q.gformula(fx, dec[0]), B.from_expr("self.wait & ~(count == 0)"))
    ctx.ob("T4", MISC, "WaitTimer", "decrement under wait & ~done", ok, "" if ok else f"{[(a.v, a.gtext()) for a in cs]}")
    ok = len(rel_) == 1 and B.equivalent(q.gformula(fx, rel_[0]), B.Not(B.A("self.wait")))
    ctx.ob("T4", MISC, "WaitTimer", "reload when not waiting", ok, "" if ok else f"{[(a.v, a.gtext()) for a in cs]}")
    dc = fx.decl.get("count")
    ok = dc is not None and dc[1] is not None and any(k.arg == "reset" and norm(k.value) in ("t", "int(t)") for k in dc[1].keywords)
    ctx.ob("T4", MISC, "WaitTimer", "count resets to t", ok, "" if ok else "count reset value is not t")
    ok = len(cs) == 2
    ctx.ob("T4", MISC, "WaitTimer", "no other driver of count", ok, "" if ok else f"{len(cs)} drivers")

    # ================================================================ T5
    sm = ctx.mod(SOC)
    fin = sm.method("SoC", "finalize")
    asg = [n for n in ast.walk(fin) if isinstance(n, ast.Call) and isinstance(n.func, ast.Attribute) and n.func.attr == "eq" and
           norm(n.func.value) == "self.ctrl.bus_error"]
    ok = len(asg) == 1 and norm(asg[0].args[0]) == "self.bus._interconnect.timeout.error"
    ctx.ob("T5", SOC, "SoC.finalize", "ctrl.bus_error <- interconnect.timeout.error", ok, "" if ok else f"{[norm(a) for a in asg]}", fin)
    fxc = fx_of(ctx, SOC, "SoCController")
    inc = [a for a in fxc.find(domain="sync", target="bus_errors")]
    ok = len(inc) == 1 and inc[0].v == "bus_errors + 1"
    if ok:
        G = q.gformula(fxc, inc[0])
        # exactly: every cycle in which the error pulse is high is counted, until the counter saturates (two pulses in consecutive
        # cycles -- the write and the read watchdog of an AXI bus -- are two errors)
        ok = B.equivalent(q.Inliner(fxc, inc[0]).inline(G), B.And(B.A("self.bus_error"), B.Not(B.A("bus_errors == 2 ** len(bus_errors) - 1"))))
    ctx.ob("T5", SOC, "SoCController", "bus_errors increments on bus_error and saturates", ok,
           "" if ok else f"{[(a.v, a.gtext()) for a in inc]}", inc[0].line if inc else 0)
    st = fxc.find(domain="comb", target="self._bus_errors.status")
    ok = len(st) == 1 and st[0].v == "bus_errors"
    ctx.ob("T5", SOC, "SoCController", "counter exported through the CSR", ok, "" if ok else "status not driven from bus_errors")
    bh = sm.method("SoCBusHandler", "do_finalize")
    calls = [n for n in ast.walk(bh) if isinstance(n, ast.Call) and norm(n.func) == "interconnect_cls"]
    ok = len(calls) == 1 and any(k.arg == "timeout_cycles" and norm(k.value) == "self.timeout" for k in calls[0].keywords)
    ctx.ob("T5", SOC, "SoCBusHandler.do_finalize", "handler passes its timeout to the interconnect", ok, "" if ok else "timeout not forwarded", bh)
