"""C12 -- CSR banks give software exact, side-effect-free register semantics.

Decided (structural, necessary): R1 bank decode: strobes only under sel & (adr_lo == i) with the crossed
re/we naming, data from dat_w[:size]; dat_r default-zero-then-select; sel compares adr_hi with the bank
address using the same split point k; the CSR memory window alike.  R2 compound registers: per-word read
and write slices agree, each word written under its own strobe, back-store slice shifted by one bus word,
commit = Cat(word0, backstore), `re` is the registered strobe of the last word, device write separate.
R3 fields: name/overlap checks dominate their use, slices [offset:offset+size] in both directions, pulse
fields gated by re, reset composition.  R4 placement: fixed-location clash raises, gatherer sorted by duid,
one bank per object.  R5 the word that commits an atomic write is the last-address word (fails for
ordering='little': known finding).  Not decided: register semantics as a history property."""
import ast
from ..core import AnalysisError, norm
from .. import boolx as B
from .. import q
from .. import pathx as P
from ..rules_stream import fx_of, fail_closed, prio, short
from ..fx import FX

CSR = "litex/soc/interconnect/csr.py"
BUS = "litex/soc/interconnect/csr_bus.py"

EXPLANATION = ("FHDL IR of CSRBank / csr_bus.SRAM / CSRStorage / CSRStatus extracted from the AST (do_finalize word loops "
               "kept symbolic in the word index and both orderings); guard equivalence of strobes; slice agreement between "
               "read and write sides; priority of the dat_r default; abstract evaluation of the word loop per ordering for "
               "the commit word; path rules on the field checks and the placement function.")
TECHNIQUE = ("AST-extracted FHDL IR + guard equivalence + slice agreement + per-ordering loop abstraction + path rules + dec"
             "ision table of the placement helper by abstract interpretation")


def _slice(text):
    n = ast.parse(text, mode="eval").body
    if isinstance(n, ast.Subscript) and isinstance(n.slice, ast.Slice):
        return norm(n.value), norm(n.slice.lower) if n.slice.lower else None, norm(n.slice.upper) if n.slice.upper else None
    return text, None, None


def _i_nonzero(pyguards):
    """True: the Python conditions say the word index i is not 0 (`if i:`, `i != 0`, `not i == 0`, `0 < i`); False: they say i == 0"""
    for c, p in pyguards:
        t = c.replace(" ", "")
        if t == "i":
            return p
        if t in ("i==0", "0==i"):
            return not p
        if t in ("i!=0", "0!=i", "0<i", "i>0", "1<=i", "i>=1"):
            return p
    return None


def _word_order(ctx, cm_, cls, ordering, nwords=3, busword=8):
    """do_finalize interpreted (lxs/pyconst.py, objects as opaque tokens) for a register of `nwords` bus words: the word indices in
    the order their simple CSRs are created, and whether self.simple_csrs holds them in that order.  The CSR names carry the index."""
    from .. import pyconst
    fn = cm_.method(cls, "do_finalize")
    me = pyconst.NS(size=nwords * busword, atomic_write=True, name="r", simple_csrs=[], read_only=False, write_from_dev=False)
    it = pyconst.Interp({"self": me, "busword": busword, "ordering": ordering}, objects=True,
                        funcs={n.name: n for n in cm_.tree.body if isinstance(n, ast.FunctionDef)})
    try:
        it.run(fn.body)
    except Exception as ex:
        ctx.need(False, f"{cls}.do_finalize cannot be interpreted: {ex}")
    csrs = [o for o in it.created if o.cls == "CSR"]
    reg = me.get("simple_csrs")
    if not (isinstance(reg, list) and len(reg) == len(csrs) and {id(x) for x in reg} == {id(x) for x in csrs}):
        return None, False
    # the order that matters is the one of self.simple_csrs (= ascending bus addresses), however the list was built ...
    order = []
    for o in reg:
        nm = o.args[1] if len(o.args) > 1 else o.kwargs.get("name")
        if not (isinstance(nm, str) and nm.startswith("r") and nm[1:].isdigit()):
            return None, False
        order.append(int(nm[1:]))
    # ... and the word object the statements after the loop still refer to (its strobes become the register's) is the last-address one
    tail_ok = True
    loops = [st for st in fn.body if isinstance(st, ast.For)]
    if loops:
        k = fn.body.index(loops[-1])
        stored = {x.id for x in ast.walk(loops[-1]) if isinstance(x, ast.Name) and isinstance(x.ctx, ast.Store)}
        later = {x.id for st in fn.body[k + 1:] for x in ast.walk(st) if isinstance(x, ast.Name) and isinstance(x.ctx, ast.Load)}
        for nm_ in stored & later:
            v_ = it.env.get(nm_)
            if isinstance(v_, pyconst.Obj) and v_.cls == "CSR" and reg and v_ is not reg[-1]:
                tail_ok = False
    return order, tail_ok


def bank_decode(ctx, rid, fx=None):
    """csr_bus.CSRBank: a register is strobed / read only at its own offset of the bank's page -- the whole in-page address is compared
    (shared with C15: the event manager's pending / enable registers must not be written by an access to another offset of the page)."""
    if fx is None:
        fx = fx_of(ctx, BUS, "CSRBank")
    sel = fx.find(domain="comb", target="sel")
    ok = len(sel) == 1 and not sel[0].guards
    k = None
    if ok:
        v = sel[0].value
        ok = isinstance(v, ast.Compare) and isinstance(v.ops[0], ast.Eq) and norm(v.comparators[0]) == "address"
        if ok:
            b, lo, hi = _slice(norm(v.left))
            ok = b == "bus.adr" and hi is None and lo is not None
            k = lo
    ctx.ob(rid, BUS, "CSRBank", "sel = bus.adr[k:] == address", ok, "" if ok else f"sel <= {sel[0].v if sel else '?'}")
    ok = k == "log2_int(aligned_paging)" or k == "log2_int(paging // 4)"
    ctx.ob(rid, BUS, "CSRBank", "k = log2(paging // 4) (4 bytes per CSR word)", ok, "" if ok else f"k = {k}")
    for strobe, src in (("re", "bus.we"), ("we", "bus.re")):
        ds = [a for a in fx.find(domain="comb") if a.t == f"self.simple_csrs[i].{strobe}"]
        ok = len(ds) == 1 and ds[0].v == src
        if ok:
            G = ds[0].eff()
            ok = B.equivalent(G, B.from_expr(f"sel & (bus.adr[:{k}] == i)"))
        ctx.ob(rid, BUS, "CSRBank", f"csr[i].{strobe} <- {src} under sel & (adr[:k] == i)", ok,
               "" if ok else f"{[(a.v, a.gtext()) for a in ds]}: accesses to other addresses/banks strobe this register",
               ds[0].line if ds else 0)
    r = [a for a in fx.find(domain="comb") if a.t == "self.simple_csrs[i].r"]
    ok = len(r) == 1 and r[0].v == "bus.dat_w[:self.simple_csrs[i].size]"
    ctx.ob(rid, BUS, "CSRBank", "csr[i].r <- dat_w[:size]", ok, "" if ok else f"{[a.v for a in r]}")
    dr = fx.find(domain="sync", target="bus.dat_r")
    zero = [a for a in dr if a.v == "0"]
    word = [a for a in dr if a.v == "self.simple_csrs[i].w"]
    ok = len(zero) == 1 and not zero[0].guards and len(word) == 1 and len(dr) == 2
    if ok:
        ok = fx.assigns.index(zero[0]) < fx.assigns.index(word[0]) and \
            q.EQ(word[0], B.from_expr(f"sel & (bus.adr[:{k}] == i)"))
    ctx.ob(rid, BUS, "CSRBank", "dat_r: zero first, then the addressed word under sel (registered)", ok,
           "" if ok else f"{[(a.v, a.gtext()) for a in dr]}: a bank that is not addressed would not drive zero onto the OR-combined bus",
           word[0].line if word else 0)
    return k


def word_loop_order(ctx, rid, classes=("CSRStorage", "CSRStatus")):
    """Compound registers create (= map to ascending addresses, and iterate last) their words most-significant first for 'big', least
    significant first for 'little', and register every one (shared with C15: EventManager.pending is a multi-word CSRStatus whose
    acknowledge commits with the strobes of the word iterated last, i.e. the one at the last address)."""
    cm_ = ctx.mod(CSR)
    for cls in classes:
        fn = cm_.method(cls, "do_finalize")
        wo = {o: _word_order(ctx, cm_, cls, o) for o in ("big", "little")}
        ok = wo["big"] == ([2, 1, 0], True) and wo["little"] == ([0, 1, 2], True)
        ctx.ob(rid, CSR, f"{cls}.do_finalize", "word loop: MSW first for big, LSW first for little; every word registered", ok,
               "" if ok else f"for a 3-word register self.simple_csrs (= ascending bus addresses) holds the words in order {wo['big'][0]} for "
                             f"ordering='big' and {wo['little'][0]} for 'little'; the word object left after the loop is the last-address one: "
                             f"{wo['big'][1]} / {wo['little'][1]} -- the register's strobes must come from the word at the last address", fn)


def storage_word_slices(ctx, rid, fxs=None):
    """CSRStorage: bus word i reads and (non-atomic) writes storage[i*busword : i*busword + nbits], nbits = min(size - i*busword,
    busword), each word under its own strobe.  Shared with C15: EventManager.enable is a CSRStorage, bit i enables source i."""
    if fxs is None:
        from ..fx import FX
        fxs = FX(ctx, CSR, cls="CSRStorage", entries=("__init__", "do_finalize"))
    rd = fxs.find(domain="comb", target="sc.w")
    ok = len(rd) == 1 and rd[0].v == "self.storage[i * busword:i * busword + nbits]"
    ctx.ob(rid, CSR, "CSRStorage.do_finalize", "word i reads storage[i*busword : +nbits]", ok, "" if ok else f"{[a.v for a in rd]}")
    nb = fxs.localdefs.get("nbits")
    nbt = norm(nb) if nb is not None else None
    ok = nbt in ("min(size - i * busword, busword)", "min(self.size - i * busword, busword)")
    ctx.ob(rid, CSR, "CSRStorage.do_finalize", "nbits = min(size - i*busword, busword)", ok, "" if ok else f"nbits = {nbt}")
    plain = [a for a in fxs.find(domain="sync") if a.t == "self.storage[i * busword:i * busword + nbits]"]
    ok = len(plain) == 1 and plain[0].v == "sc.r" and q.EQ(plain[0], B.A("sc.re"))
    ctx.ob(rid, CSR, "CSRStorage.do_finalize", "non-atomic: word i written through the same slice under its own strobe", ok,
           "" if ok else f"{[(a.t, a.v, a.gtext()) for a in fxs.find(domain='sync')]}", plain[0].line if plain else 0)


def generic_bank_flattening(ctx, rid):
    """GenericBank.__init__ interpreted (lxs/pyconst.py) on model descriptions: every simple CSR is taken as it is, every compound
    register is finalised with the bank's bus word and ordering and contributes ALL its bus words, in their order, at its place."""
    from .. import pyconst
    from ..pyconst import NS, Native
    m = ctx.mod(CSR)
    fn = m.method("GenericBank", "__init__")
    bad = None
    n_ev = 0
    for ordering in ("big", "little"):
        for busword in (8, 32):
            for shape in ("sCsC", "Cs", "s", "CC", "ssC"):
                calls = []
                desc, want = [], []
                for k, ch in enumerate(shape):
                    if ch == "s":
                        o = NS(size=min(busword, 5), name=f"s{k}", __cls__=("CSR", "_CSRBase"))
                        desc.append(o)
                        want.append(o["name"])
                    else:
                        subs = [NS(name=f"c{k}w{j}", size=busword, __cls__=("CSR", "_CSRBase")) for j in range(1 + k % 3)]
                        o = NS(name=f"c{k}", __cls__=("CSRStorage", "_CompoundCSR", "_CSRBase"))
                        o["finalize"] = Native(lambda bw, od, o=o: calls.append((o["name"], bw, od)))
                        o["get_simple_csrs"] = Native(lambda subs=subs: list(subs))
                        desc.append(o)
                        want += [x["name"] for x in subs]
                me = NS(submodules=[])
                try:
                    pyconst.Interp({"self": me, "description": desc, "busword": busword, "ordering": ordering}, exact=True).run(fn.body)
                except Exception as ex:     # noqa
                    ctx.need(False, f"GenericBank.__init__ cannot be interpreted ({type(ex).__name__}: {ex})")
                n_ev += 1
                got = [x["name"] for x in me.get("simple_csrs", [])] if isinstance(me.get("simple_csrs"), list) else None
                exp_calls = [(o["name"], busword, ordering) for o in desc if "finalize" in o]
                if bad is None and got != want:
                    bad = f"description {shape} (s = simple CSR, C = compound), busword {busword}, {ordering}: bank words {got}, expected {want}"
                if bad is None and calls != exp_calls:
                    bad = f"description {shape}, busword {busword}, {ordering}: compound registers finalised as {calls}, expected {exp_calls}"
    ctx.analysed["paths"] += n_ev
    ctx.ob(rid, CSR, "GenericBank.__init__", "bank words = simple CSRs + all bus words of every compound register, in order; compounds finalised "
                                            "with the bank's bus word and ordering", bad is None, bad or "", fn)


def atomic_backstore(ctx, rid, fxs=None):
    """CSRStorage(atomic_write=True): the upper words go to the back-store at their own offset, word 0 commits the whole register.
    Shared with C14: the generated accessors write a multi-word register word by word, an atomic register must then hold what was
    written.  Returns the commit assignments (used by R5)."""
    from ..fx import FX
    if fxs is None:
        fxs = FX(ctx, CSR, cls="CSRStorage", entries=("__init__", "do_finalize"))
    bs = [a for a in fxs.find(domain="sync") if a.t.startswith("backstore[")]
    ok = len(bs) == 1 and bs[0].t == "backstore[i * busword - busword:i * busword + nbits - busword]" and bs[0].v == "sc.r" and \
        q.EQ(bs[0], B.A("sc.re")) and _i_nonzero(bs[0].pyguards) is True
    ctx.ob(rid, CSR, "CSRStorage.do_finalize", "atomic: words != 0 go to backstore[lo-busword : hi-busword] under their strobe", ok,
           "" if ok else f"{[(a.t, a.v, a.gtext(), a.pyguards) for a in bs]}", bs[0].line if bs else 0)
    cm = [a for a in fxs.find(domain="sync", target="self.storage") if "backstore" in a.v]
    ok = len(cm) == 1 and cm[0].v == "Cat(sc.r, backstore)" and q.EQ(cm[0], B.A("sc.re")) and \
        _i_nonzero(cm[0].pyguards) is False
    ctx.ob(rid, CSR, "CSRStorage.do_finalize", "atomic: word 0 commits Cat(sc.r, backstore) under its strobe", ok,
           "" if ok else f"{[(a.v, a.gtext(), a.pyguards) for a in cm]}", cm[0].line if cm else 0)
    return cm


def last_word_strobes(ctx, rid, fxs=None, fxt=None):
    """The register-level strobes of a multi-word CSR follow the word at the LAST bus address (the loop variable after the word loop):
    CSRStorage.re, CSRStatus.we / re.  Shared with C14: the generated accessors write the words in ascending address order and rely
    on the write taking effect with the last one."""
    from ..fx import FX
    if fxs is None and fxt is None:
        fxs = FX(ctx, CSR, cls="CSRStorage", entries=("__init__", "do_finalize"))
        fxt = FX(ctx, CSR, cls="CSRStatus", entries=("__init__", "do_finalize"))
    if fxs is not None:
        re_ = fxs.find(domain="sync", target="self.re")
        ok = len(re_) == 1 and re_[0].v == "sc.re" and not re_[0].guards and not re_[0].loops
        ctx.ob(rid, CSR, "CSRStorage.do_finalize", "re = registered strobe of the last iterated word", ok, "" if ok else f"{[(a.v, a.loops) for a in re_]}")
    if fxt is not None:
        we = fxt.find(domain="comb", target="self.we")
        ok = len(we) == 1 and we[0].v == "sc.we" and not we[0].loops
        ctx.ob(rid, CSR, "CSRStatus.do_finalize", "we = read strobe of the last iterated word", ok, "" if ok else f"{[a.v for a in we]}")
        re_ = fxt.find(domain="sync", target="self.re")
        ok = len(re_) == 1 and re_[0].v == "sc.re" and not re_[0].guards
        ctx.ob(rid, CSR, "CSRStatus.do_finalize", "re = registered write strobe", ok, "" if ok else f"{[a.v for a in re_]}")


def status_write_latch(ctx, rid, fxt=None):
    """Writable CSRStatus (shared with C15: EventManager.pending): `r` takes the bus data only in the cycle of the write strobe and
    `re` is that strobe one cycle later -- `re & r[i]` then means "a one was written to bit i".  Without the strobe on the latch `r`
    follows whatever is on the bus, and a later / unrelated access clears events that nobody acknowledged."""
    if fxt is None:
        fxt = FX(ctx, CSR, cls="CSRStatus", entries=("__init__", "do_finalize"))
    wr = [a for a in fxt.find(domain="sync") if a.t.startswith("self.r[")]
    ok = len(wr) == 1 and wr[0].t == "self.r[i * busword:i * busword + nbits]" and wr[0].v == "sc.r" and \
        q.EQ(wr[0], B.A("sc.re")) and ("read_only", False) in wr[0].pyguards
    ctx.ob(rid, CSR, "CSRStatus.do_finalize", "writable status: word i written through the same slice under its strobe", ok,
           "" if ok else f"{[(a.t, a.v, a.gtext()) for a in wr]}: the written value is not latched under the write strobe", wr[0].line if wr else 0)
    re_ = fxt.find(domain="sync", target="self.re")
    ok = len(re_) == 1 and re_[0].v == "sc.re" and not re_[0].guards
    ctx.ob(rid, CSR, "CSRStatus.do_finalize", "re = the write strobe, one cycle later", ok, "" if ok else f"{[(a.v, a.gtext()) for a in re_]}")


def _placement_table(ctx, sg):
    """_sort_gathered_items interpreted exactly (lxs/pyconst.py) on every list of 1..3 registers (and some of 4) whose locations
    are automatic or fixed at 0, 1, 2 or 5, in both duid orders: [(kind, text)] of deviations from `every register exactly once,
    fixed ones at their location, a clash refused`."""
    import itertools
    from .. import pyconst
    from ..pyconst import NS, Native
    filler = Native(lambda *a, name=None, **k: NS(name=name, n=None, fixed=False, duid=-1, size=1))
    sets = [ns for k in (1, 2, 3) for ns in itertools.product((None, 0, 1, 2, 5), repeat=k)]
    sets += [(0, 2, None, None), (3, None, 0, None), (None, None, 2, 2), (None, 0, None, 1), (1, None, None, 0)]
    out, n_ev = [], 0
    for ns in sets:
        if any(n == len(ns) for n in ns):
            continue        # a location equal to the number of registers: the list is one short (IndexError): refused either way
        for rev in (False, True):
            duids = [10 + i for i in range(len(ns))]
            if rev:
                duids.reverse()
            items = [NS(name=f"csr{i}", n=n, fixed=n is not None, duid=d, size=8) for i, (n, d) in enumerate(zip(ns, duids))]
            what = f"registers with locations {list(ns)} (duids {duids})"
            try:
                got = pyconst.call(sg, {"items": list(items)}, consts={"CSR": filler})
            except pyconst.Unknowable as ex:
                ctx.need(False, f"_sort_gathered_items cannot be interpreted on a constant register list ({ex})")
            n_ev += 1
            fixed = [n for n in ns if n is not None]
            if len(set(fixed)) != len(fixed):
                if got[0] != "raise":
                    out.append(("clash", f"{what}: two registers fixed at one location are placed without an error"))
                continue
            if got[0] != "return" or not isinstance(got[1], list):
                out.append(("lost", f"{what}: no placement is returned"))
                continue
            names = [x.get("name") if isinstance(x, NS) else None for x in got[1]]
            for it in items:
                if names.count(it["name"]) != 1:
                    out.append(("lost", f"{what}: {it['name']} (location {it['n']}) appears {names.count(it['name'])} times in the placement {names}"))
                    break
            for it in items:
                if it["n"] is not None and (it["n"] >= len(names) or names[it["n"]] != it["name"]):
                    out.append(("fixed", f"{what}: {it['name']} is fixed at {it['n']} but the placement is {names}"))
                    break
            auto = sorted((names.index(it["name"]), it["duid"]) for it in items if it["n"] is None and it["name"] in names)
            if [d_ for _, d_ in auto] != sorted(d_ for _, d_ in auto):
                out.append(("order", f"{what}: automatic registers are placed in the order of duids {[d_ for _, d_ in auto]}: the map depends on "
                                     f"the order in which the registers were gathered"))
    ctx.analysed["paths"] += n_ev
    return out


def run(ctx):
    ctx.rule("R1", "bank: re/we only under sel & (adr[:k] == i) (re <- bus.we, we <- bus.re), r <- dat_w[:size]; dat_r "
                   "zero first then selected word; sel = adr[k:] == address with the same k; memory window alike", min_sites=14)
    ctx.rule("R2", "compound registers: word i read and written through the same slice [i*busword : +nbits]; write under that "
                   "word's strobe; back-store shifted by busword; commit Cat(sc.r, backstore); re = registered strobe of the "
                   "last iterated word; device write is its own guarded assignment", min_sites=12)
    ctx.rule("R3", "fields: check_names and check_ordering_overlap run before the fields are used; field <-> register slice "
                   "[offset:offset+size] in both directions; pulse fields gated by re; reset = OR of reset << offset; layout loop executed "
                   "symbolically: running end = field offset + size on the explicit and the automatic path", min_sites=12)
    ctx.rule("R4", "placement: clash of fixed locations raises before filling; gathered items sorted by duid; one CSRBank per "
                   "object; bank address from address_map", min_sites=5)
    ctx.rule("R5", "atomic multi-word write commits on the last-iterated (last-address) word for each ordering", min_sites=2)
    ctx.rule("PRIO", "no dead driver", min_sites=2)
    # R9: exactly the written bits reach the register: the shared CSR bus is an OR of all masters (C14.E10 decides the same construct)
    from .c14 import _e10
    _e10(ctx, "R9")

    # ================================================================ R1 CSRBank
    fx = fx_of(ctx, BUS, "CSRBank")
    fail_closed(ctx, fx, "CSRBank")
    prio(ctx, "PRIO", fx, "CSRBank")
    k = bank_decode(ctx, "R1", fx)
    # csr_bus.SRAM
    fx = fx_of(ctx, BUS, "SRAM")
    fail_closed(ctx, fx, "SRAM")
    prio(ctx, "PRIO", fx, "SRAM")
    sel = fx.find(domain="comb", target="sel")
    ok = len(sel) == 1 and sel[0].v in ("bus.adr[log2_int(aligned_paging):] == address", "bus.adr[log2_int(paging // 4):] == address")
    ctx.ob("R1", BUS, "SRAM", "sel = bus.adr[k:] == address (same k as the banks)", ok, "" if ok else f"{[a.v for a in sel]}")
    sr = fx.find(domain="sync", target="sel_r")
    ok = len(sr) == 1 and sr[0].v == "sel" and not sr[0].guards
    ctx.ob("R1", BUS, "SRAM", "sel_r is the registered sel (data returns one cycle later)", ok, "" if ok else f"{[(a.v, a.gtext()) for a in sr]}")
    for a in fx.find(domain="comb", target="bus.dat_r"):
        ok = q.EQ(a, B.A("sel_r"))
        ctx.ob("R1", BUS, "SRAM", "dat_r driven only under sel_r", ok, "" if ok else f"under {a.gtext()}", a.line)
    for a in fx.find(domain="comb", target="port.we"):
        ok = B.entails(B.from_expr(a.value), B.from_expr("sel & bus.we")) and ("read_only", False) in a.pyguards
        ctx.ob("R1", BUS, "SRAM", "port.we needs sel & bus.we, only when not read_only", ok, "" if ok else f"port.we <= {a.v} {a.pyguards}", a.line)
    wr = fx.find(domain="sync", target="wreg")
    for a in wr:
        G = a.eff()
        ok = B.equivalent(G, B.from_expr("sel & bus.we & (bus.adr[:word_bits] == i)"))
        ctx.ob("R1", BUS, "SRAM", "staging register i loaded on a write to sub-word i", ok, "" if ok else f"under {B.show(G)}", a.line)
    pa = fx.find(domain="comb", target="port.adr")
    ok = len(pa) == 2 and all(a.v.startswith("bus.adr[word_bits:") or a.v.startswith("Cat(bus.adr[word_bits:") for a in pa)
    ctx.ob("R1", BUS, "SRAM", "port.adr = bus.adr above the sub-word bits (complementary split)", ok, "" if ok else f"{[a.v for a in pa]}")
    wi = fx.find(domain="sync", target="word_index")
    ok = len(wi) == 1 and wi[0].v == "bus.adr[:word_bits]" and not wi[0].guards
    ctx.ob("R1", BUS, "SRAM", "word_index = registered bus.adr[:word_bits]", ok, "" if ok else f"{[a.v for a in wi]}")

    # ================================================================ R2 compound registers
    fxs = FX(ctx, CSR, cls="CSRStorage", entries=("__init__", "do_finalize"))
    fail_closed(ctx, fxs, "CSRStorage")
    storage_word_slices(ctx, "R2", fxs)
    cm = atomic_backstore(ctx, "R2", fxs)
    last_word_strobes(ctx, "R2", fxs=fxs)
    generic_bank_flattening(ctx, "R2")
    dev = [a for a in fxs.find(domain="sync", target="self.storage") if a.v == "self.dat_w"]
    ok = len(dev) == 1 and q.EQ(dev[0], B.A("self.we")) and ("write_from_dev", True) in dev[0].pyguards
    ctx.ob("R2", CSR, "CSRStorage.__init__", "device write: separate assignment under self.we", ok, "" if ok else f"{[(a.v, a.gtext()) for a in dev]}")
    # a bus write is never lost: among the writers of the storage register the bus side comes last (in Migen the last assignment
    # wins), so a device-side write that coincides with a bus write yields to it
    writers = [a for a in fxs.find(domain="sync") if a.t == "self.storage" or a.t.startswith("self.storage[")]
    bus = [a for a in writers if "sc.r" in a.v]
    other = [a for a in writers if "sc.r" not in a.v]
    ok = bool(bus) and all(o.order < b.order for o in other for b in bus)
    late = [o for o in other if any(o.order >= b.order for b in bus)]
    ctx.ob("R2", CSR, "CSRStorage", "bus write wins: no other writer of storage is placed after the bus writers", ok,
           "" if ok else f"`{late[0].t} <= {late[0].v}` (under {late[0].gtext()}) is assigned after the bus write and overrides it: a bus write that "
                         f"coincides with it changes nothing" if late else "no bus writer found", late[0].line if late else 0)
    fxt = FX(ctx, CSR, cls="CSRStatus", entries=("__init__", "do_finalize"))
    fail_closed(ctx, fxt, "CSRStatus")
    rd = fxt.find(domain="comb", target="sc.w")
    ok = len(rd) == 1 and rd[0].v == "self.status[i * busword:i * busword + nbits]"
    ctx.ob("R2", CSR, "CSRStatus.do_finalize", "word i reads status[i*busword : +nbits]", ok, "" if ok else f"{[a.v for a in rd]}")
    status_write_latch(ctx, "R2", fxt)
    last_word_strobes(ctx, "R2", fxt=fxt)
    # both classes iterate the words in the same ordering-dependent way and register every simple CSR
    cm_ = ctx.mod(CSR)
    word_loop_order(ctx, "R2")

    # ================================================================ R5
    fn = cm_.method("CSRStorage", "do_finalize")
    wo = {o: _word_order(ctx, cm_, "CSRStorage", o)[0] for o in ("big", "little")}
    if all(isinstance(v, list) and len(v) == 3 for v in wo.values()):
        # the word index that sits at the last bus address, as text in terms of nwords
        orders = {o: {0: "0", 2: "nwords - 1"}.get(v[-1]) for o, v in wo.items()}
        # commit index: the pyguard on the loop variable of the commit assignment
        commit_idx = None
        if cm:
            pg = dict(cm[0].pyguards)
            if _i_nonzero(cm[0].pyguards) is False:
                commit_idx = "0"
            elif pg.get("i == nwords - 1") is True:
                commit_idx = "nwords - 1"
            else:
                for c, p in cm[0].pyguards:
                    if "i ==" in c and p:
                        commit_idx = c.split("==")[1].strip()
        for o in ("big", "little"):
            ok = orders.get(o) is not None and commit_idx is not None and (orders[o] == commit_idx or "last" in str(commit_idx))
            ctx.ob("R5", CSR, "CSRStorage.do_finalize", f"commit word = last-address word (ordering={o})", ok,
                   "" if ok else f"ordering='{o}': words are laid out so that the last bus address holds word index {orders.get(o)}, but "
                                 f"the atomic commit is keyed on word index {commit_idx}: writing a multi-word register in ascending "
                                 f"addresses commits on the first write and never applies the rest", cm[0].line if cm else fn.lineno)
    else:
        ctx.ob("R5", CSR, "CSRStorage.do_finalize", "ordering-dependent word loop:present", False, "word loop shape changed", fn)

    # ================================================================ R3 fields
    agg = cm_.method("CSRFieldAggregate", "__init__")
    paths = P.feasible_paths(agg)
    bad = None
    for p in paths:
        use = p.index_where(lambda e: e[0] == "stmt" and isinstance(e[1], (ast.For,)) or
                            (e[0] == "stmt" and isinstance(e[1], ast.Assign) and norm(e[1].targets[0]) == "self.fields"))
        n1 = p.index_where(lambda e: P.is_call_to(e, "check_names"))
        n2 = p.index_where(lambda e: P.is_call_to(e, "check_ordering_overlap"))
        if use >= 0 and not (0 <= n1 < use and 0 <= n2 < use):
            bad = p
    ctx.ob("R3", CSR, "CSRFieldAggregate.__init__", "check_names and check_ordering_overlap dominate the use of fields", bad is None,
           "" if bad is None else "fields are used before the name / overlap checks", agg)
    co = cm_.method("CSRFieldAggregate", "check_ordering_overlap")
    ok = any(isinstance(n, ast.If) and norm(n.test) == "field.offset < offset" and any(isinstance(x, ast.Raise) for x in n.body)
             for n in ast.walk(co)) and any(isinstance(n, ast.AugAssign) and norm(n.target) == "offset" and norm(n.value) == "field.size"
                                            for n in ast.walk(co))
    ctx.ob("R3", CSR, "CSRFieldAggregate.check_ordering_overlap", "offset below the running end raises; running end += size", ok,
           "" if ok else "overlap check changed", co)
    # layout by symbolic execution of one loop iteration: on every non-raising path the running end after the field is the
    # field's final offset plus its size (fields do not share bits), and the field has an offset
    from .. import lin
    loops = [n for n in co.body if isinstance(n, ast.For)]
    ctx.need(len(loops) == 1 and norm(loops[0].target) == "field", "check_ordering_overlap: loop over the fields not found")
    synth = ast.FunctionDef(name="<iteration>", args=ast.arguments(posonlyargs=[], args=[], kwonlyargs=[], kw_defaults=[], defaults=[]),
                            body=loops[0].body, decorator_list=[], lineno=loops[0].lineno, col_offset=0)
    npaths = 0
    for p in P.feasible_paths(synth):
        if p.end == "raise":
            continue
        npaths += 1
        env = {"offset": {"o": 1}, "field.offset": {"F": 1}}
        explicit = None
        understood = True

        def val(e):
            f = lin.linform(e)
            out = {}
            for a_, c in f.items():
                out = lin.add(out, lin.scale(env[a_], c) if a_ in env else {a_: c})
            return out
        for e in p.ev:
            if e[0] == "test" and norm(e[1]) in ("field.offset is not None", "field.offset is None"):
                explicit = e[2] if norm(e[1]).endswith("is not None") else (not e[2])
            elif e[0] == "stmt" and isinstance(e[1], ast.Assign) and norm(e[1].targets[0]) in env:
                env[norm(e[1].targets[0])] = val(e[1].value)
            elif e[0] == "stmt" and isinstance(e[1], ast.AugAssign) and norm(e[1].target) in env and isinstance(e[1].op, (ast.Add, ast.Sub)):
                d = val(e[1].value)
                env[norm(e[1].target)] = lin.add(env[norm(e[1].target)], d if isinstance(e[1].op, ast.Add) else lin.scale(d, -1))
            elif e[0] == "stmt" and not isinstance(e[1], (ast.If, ast.Pass, ast.Expr)):
                understood = False
        ctx.need(understood and explicit is not None, "check_ordering_overlap: iteration not understood (statement kinds / explicit-offset test)")
        role = "explicit offset" if explicit else "automatic offset"
        diff = lin.sub(env["offset"], env["field.offset"])
        ok = diff == {"field.size": 1}
        ctx.ob("R3", CSR, "CSRFieldAggregate.check_ordering_overlap", f"{role}: running end = field offset + field size", ok,
               "" if ok else f"after a field with an {role} the running end is {lin.show(env['offset'])} and the field sits at "
                             f"{lin.show(env['field.offset'])} (o = running end before, F = declared offset): the next field overlaps it / "
                             f"overlaps are no longer rejected", loops[0])
        okf = env["field.offset"] == ({"F": 1} if explicit else {"o": 1})
        ctx.ob("R3", CSR, "CSRFieldAggregate.check_ordering_overlap", f"{role}: field placed at {'its declared offset' if explicit else 'the running end'}", okf,
               "" if okf else f"field.offset = {lin.show(env['field.offset'])}", loops[0])
    ctx.ob("R3", CSR, "CSRFieldAggregate.check_ordering_overlap", "explicit and automatic paths:present", npaths == 2, f"{npaths} non-raising paths", co)
    cn = cm_.method("CSRFieldAggregate", "check_names")
    ok = any(isinstance(n, ast.If) and norm(n.test) == "field.name in names" and any(isinstance(x, ast.Raise) for x in n.body) for n in ast.walk(cn))
    ctx.ob("R3", CSR, "CSRFieldAggregate.check_names", "duplicate field name raises", ok, "" if ok else "name check changed", cn)
    # the loop over the fields is rendered `field.x` (loop over a literal copy) or `fields[_field].x` (loop over the list itself)
    def fld(t):
        return t.replace("fields[_field]", "field")
    fl = [a for a in fxs.find(domain="comb") if a.t.startswith("getattr(self.fields,")]
    ok = len(fl) == 2 and all(fld(a.v) == "self.storage[field.offset:field.offset + field.size]" and fld(a.t) == "getattr(self.fields, field.name)" for a in fl)
    ctx.ob("R3", CSR, "CSRStorage.__init__", "field = storage[offset : offset+size]", ok, "" if ok else f"{[a.v for a in fl]}")
    pul = [a for a in fl if ("field.pulse", True) in [(fld(t), p_) for t, p_ in a.pyguards]]
    ok = len(pul) == 1 and q.EQ(pul[0], B.A("self.re"))
    ctx.ob("R3", CSR, "CSRStorage.__init__", "pulse fields visible only in the write-strobe cycle", ok, "" if ok else f"{[(a.gtext(), a.pyguards) for a in pul]}")
    sf = [a for a in fxt.find(domain="comb") if a.t.startswith("self.status[")]
    ok = len(sf) == 1 and fld(sf[0].t) == "self.status[field.offset:field.offset + field.size]" and \
        fld(sf[0].v) == "getattr(self.fields, field.name)"
    ctx.ob("R3", CSR, "CSRStatus.__init__", "status[offset : offset+size] = field", ok, "" if ok else f"{[(a.t, a.v) for a in sf]}")
    # a field *is* a signal: its declared reset value is the reset of that signal (a status field nothing drives combinationally
    # starts from it; get_reset() below publishes the same value for the register)
    fi = cm_.method("CSRField", "__init__")
    sc = [c for c in ast.walk(fi) if isinstance(c, ast.Call) and norm(c.func) in ("Signal.__init__", "super().__init__")]
    rk = [k for c in sc for k in c.keywords if k.arg == "reset"]
    rv = [norm(n.value) for n in ast.walk(fi) if isinstance(n, ast.Assign) and norm(n.targets[0]) == "self.reset_value"]
    ok = len(sc) == 1 and len(rk) == 1 and len(rv) == 1 and norm(rk[0].value) in (rv[0], "self.reset_value")
    ctx.ob("R3", CSR, "CSRField.__init__", "the field signal resets to the declared reset value", ok,
           "" if ok else f"Signal initialised with reset={[norm(k.value) for k in rk] or 'nothing'} while reset_value = {rv}: the hardware field starts "
                         f"from another value than the one published", fi)
    gr = cm_.method("CSRFieldAggregate", "get_reset")
    ok = any(isinstance(n, ast.AugAssign) and isinstance(n.op, ast.BitOr) and norm(n.value) == "field.reset_value << field.offset" for n in ast.walk(gr))
    ctx.ob("R3", CSR, "CSRFieldAggregate.get_reset", "reset = OR of reset_value << offset", ok, "" if ok else "reset composition changed", gr)

    # ================================================================ R4 placement
    sg = cm_.func("_sort_gathered_items")
    paths = P.feasible_paths(sg)
    ok = any(p.end == "raise" and P.has_test(p, "sorted_items[item.n] is not None", True) for p in paths)
    ctx.ob("R4", CSR, "_sort_gathered_items", "two registers fixed at one location raise", ok, "" if ok else "fixed-location clash is not rejected", sg)
    # the clash test precedes the store of the fixed item: every path that places a fixed item has seen its slot empty
    okk, n_store = True, 0
    for p in paths:
        for k, e in enumerate(p.ev):
            if e[0] == "stmt" and isinstance(e[1], ast.Assign) and norm(e[1]) == "sorted_items[item.n] = item":
                n_store += 1
                okk = okk and P.has_test(p, "sorted_items[item.n] is None", True, upto=k)
    okk = okk and n_store > 0
    ctx.ob("R4", CSR, "_sort_gathered_items", "clash test precedes the placement", okk, "" if okk else "fixed item stored before the clash test", sg)
    dev = _placement_table(ctx, sg)
    for kind, role in (("lost", "every gathered register is placed exactly once (none dropped, none at two locations)"),
                       ("fixed", "a register with a fixed location sits at that location"),
                       ("clash", "two registers fixed at one location are refused (table)"),
                       ("order", "automatic items placed in duid order")):
        bad = [d for d in dev if d[0] == kind]
        ctx.ob("R4", CSR, "_sort_gathered_items", role, not bad, "" if not bad else f"{bad[0][1]} ({len(bad)} of the register sets)", sg)
    mg = cm_.func("_make_gatherer")
    ok = any(isinstance(n, ast.Assign) and norm(n.targets[0]) == "r" and norm(n.value) == "sorted(r, key=lambda x: x.duid)" for n in ast.walk(mg))
    ctx.ob("R4", CSR, "_make_gatherer", "gathered registers sorted by duid", ok, "" if ok else "gatherer order is run-dependent", mg)
    bm = ctx.mod(BUS)
    scan = bm.method("CSRBankArray", "scan")
    calls = [n for n in ast.walk(scan) if isinstance(n, ast.Call) and norm(n.func) == "self.address_map"]
    ok = len(calls) == 2
    ctx.ob("R4", BUS, "CSRBankArray.scan", "each bank / memory gets its page from address_map once", ok, "" if ok else f"{len(calls)} address_map calls", scan)
    banks = [n for n in ast.walk(scan) if isinstance(n, ast.Call) and norm(n.func) == "CSRBank"]
    ok = len(banks) == 1 and any(k.arg == "ordering" and norm(k.value) == "self.ordering" for k in banks[0].keywords)
    ctx.ob("R4", BUS, "CSRBankArray.scan", "one CSRBank per object, with the array's ordering", ok, "" if ok else f"{[norm(b) for b in banks]}", scan)
    # every configuration that changes how a bank decodes its addresses is passed down from the array: a bank built with a default
    # answers at another address than the one it was given
    for cname in ("CSRBank", "SRAM"):
        cs = [n for n in ast.walk(scan) if isinstance(n, ast.Call) and norm(n.func) == cname]
        kws = {k.arg: norm(k.value) for c in cs for k in c.keywords}
        need = {"paging": "self.paging"}
        if cname == "CSRBank":
            need["ordering"] = "self.ordering"
        okk = len(cs) == 1 and all(kws.get(k) == v for k, v in need.items())
        ctx.ob("R4", BUS, "CSRBankArray.scan", f"{cname} built with the array's {' and '.join(sorted(need))}", okk,
               "" if okk else f"{cname}({', '.join(f'{k}={v}' for k, v in sorted(kws.items()))}): the bank decodes with the default page size / order -- "
                              f"with a non-default setting it answers at another address (and drives dat_r when it is not addressed)", cs[0] if cs else scan)
    init = bm.method("CSRBank", "__init__")
    ok = any(isinstance(n, ast.Assign) and norm(n.targets[0]) == "aligned_paging" and norm(n.value) == "paging // 4" for n in ast.walk(init))
    fxb = fx_of(ctx, BUS, "CSRBank", entries=("__init__", "do_finalize")) if False else None
    ctx.ob("R4", BUS, "CSRBank.__init__", "page size in words = paging // 4", ok, "" if ok else "aligned_paging changed", init)
