"""C13 -- SoC resource allocation never hands out overlapping or out-of-range resources.

Decided (structural, necessary): A1 commit => validated (every store into the region/location
registries is preceded/followed on every path by the validation whose failure raises); A2 the overlap
test and the address decoder use the same window attribute, the two disjointness tests are mirror images;
A3 the fixed-location bound excludes exactly what the allocator's range excludes; A4 IO resources move
from `available` to `matched` on request and are looked up only in `matched`; A5 duplicate-name tests
dominate the insertion.  Not decided: arithmetic of the first-fit search over all histories."""
import ast
from ..core import AnalysisError, norm, cnorm, walk_no_nested
from .. import pathx as P

SOC = "litex/soc/integration/soc.py"
GP = "litex/build/generic_platform.py"

EXPLANATION = ("Path enumeration (structured CFG walk with constant-flag pruning) of the allocator/validator "
               "methods of soc.py and generic_platform.py: must-pass-through and dominance obligations between "
               "registry writes and their validation, attribute read sets, mirror-image comparison of the "
               "disjointness tests, bound agreement between validator and allocator.")
TECHNIQUE = ("abstract interpretation of the allocation / registration helpers on model handlers (call histories over an enu"
             "merated grid, state compared with the property) + per-function path enumeration (dominance) + twin comparison")


def _test_idx(p, pred, start=0, end=None):
    for i in range(start, len(p.ev) if end is None else end):
        e = p.ev[i]
        if e[0] == "test" and pred(norm(e[1])):
            return i
    return -1


def _is_store(e, base):
    return P.stores_to(e, lambda t: t.startswith(base + "["))


def loc_bound(ctx, rid):
    """SoCLocHandler: a user-fixed location is accepted only inside the range the allocator hands out (shared with C14: a CSR
    bank pinned at n_locs is published at an address past the window the CSR bridge decodes)."""
    m = ctx.mod(SOC)
    fn = m.method("SoCLocHandler", "add")
    paths = P.feasible_paths(fn)
    # A3 bound form
    his = []
    for n in walk_no_nested(fn):
        if isinstance(n, ast.Compare) and "self.n_locs" in norm(n) and len(n.ops) == 1:
            his.append(n)
    ctx.ob(rid, SOC, "SoCLocHandler.add", "upper bound test:present", len(his) == 1,
           f"expected one comparison against self.n_locs, found {[norm(h) for h in his]}", fn)
    for h in his:
        ok = _excludes_ge(h, "n", "self.n_locs")
        ctx.ob(rid, SOC, "SoCLocHandler.add", "upper test rejects exactly n >= n_locs", ok,
               "" if ok else f"`{norm(h)}` does not reject exactly n >= self.n_locs: location n_locs (one past the "
                             f"allocator's range) is accepted or a legal one refused", h)
        badp = [p for p in paths if any(e[0] == "test" and e[1] is h and e[2] for e in p.ev) and p.end != "raise"]
        ctx.ob(rid, SOC, "SoCLocHandler.add", "out-of-range raises", not badp, "" if not badp else "bound test true does not raise", h)
    fa = m.method("SoCLocHandler", "alloc")
    bad = _alloc_table(ctx, fa)
    ok = not [b for b in bad if b[0] == "range"]
    ctx.ob(rid, SOC, "SoCLocHandler.alloc", "allocator ranges over range(n_locs)", ok,
           "" if ok else f"{bad[0][1]}", fa)


def _alloc_table(ctx, fa):
    """SoCLocHandler.alloc interpreted exactly (lxs/pyconst.py) for n_locs in {1, 2, 4} and every set of used locations: the lowest
    free number below n_locs is returned, exhaustion raises.  [(kind, text)] of deviations."""
    import itertools
    from .. import pyconst
    out = []
    n_ev = 0
    for n_locs in (1, 2, 4):
        for k in range(n_locs + 1):
            for used in itertools.combinations(range(n_locs), k):
                locs = {f"r{u}": u for u in used}
                me = pyconst.NS(n_locs=n_locs, locs=locs, name="csr")
                try:
                    got = pyconst.call(fa, {"self": me, "name": "new"})
                except pyconst.Unknowable as ex:
                    ctx.need(False, f"SoCLocHandler.alloc cannot be interpreted on constant tables ({ex})")
                n_ev += 1
                free = [x for x in range(n_locs) if x not in used]
                want = ("return", free[0]) if free else ("raise", None)
                if got != want:
                    if got[0] == "return" and isinstance(got[1], int) and not (0 <= got[1] < n_locs):
                        out.append(("range", f"alloc() hands out {got[1]} with locations {sorted(used)} in use: outside range(n_locs={n_locs})"))
                    elif got[0] == "return" and got[1] is not None and got[1] in used:
                        out.append(("free", f"alloc() hands out {got[1]} although locations {sorted(used)} are in use (n_locs={n_locs})"))
                    elif got[0] == "return" and (got[1] is None or (free and False)) or (not free and got[0] != "raise"):
                        out.append(("exhaust", f"alloc() returns {got[1]!r} with all {n_locs} locations in use instead of raising"))
                    else:
                        out.append(("range", f"alloc() yields {got} with locations {sorted(used)} of {n_locs} in use, expected {want}: the allocator "
                                             f"does not hand out the lowest free number of range(n_locs)"))
    ctx.analysed["paths"] += n_ev
    return out


def _loc_table(ctx, m):
    """Histories of SoCLocHandler.add calls (n_locs = 1, 2, 4; every sequence of one or two requests over names a, b x location
    None, -1, 0, 1, n_locs-1, n_locs x use_loc_if_exists, and the fill-up sequences of automatic requests) interpreted exactly on a
    model handler whose add / alloc are the repository's own.  ([(kind, text)], #accepted, #refused)"""
    import itertools
    from .. import pyconst
    from ..pyconst import NS, Native
    cdef = m.classes["SoCLocHandler"]
    silent = Native(lambda *a, **k: None)
    out, n_ok, n_ref = [], 0, 0
    for n_locs in (1, 2, 4):
        alpha = [(nm, n, flag) for nm in ("a", "b") for n in sorted({-1, 0, 1, n_locs - 1, n_locs}) + [None] for flag in (False, True)]
        seqs = [s_ for k in (1, 2) for s_ in itertools.product(alpha, repeat=k)]
        seqs += [tuple((f"n{i}", None, False) for i in range(n_locs + 1))]
        seqs += [(("x", n_locs - 1, False),) + tuple((f"n{i}", None, False) for i in range(n_locs))]
        for seq in seqs:
            me = NS(name="csr", locs={}, n_locs=n_locs, logger=NS(info=silent, error=silent, warning=silent))
            try:
                pyconst.bind(me, cdef, ["add", "alloc"])
            except KeyError as ex:
                ctx.need(False, f"SoCLocHandler: method {ex} vanished")
            hist = []
            for nm, n, flag in seq:
                hist.append(f"add({nm!r}, n={n}{', use_loc_if_exists=True' if flag else ''})")
                what = f"n_locs={n_locs}: " + " ; ".join(hist)
                before = dict(me["locs"])
                try:
                    me["add"].fn(nm, n=n, use_loc_if_exists=flag)
                    ok = True
                except pyconst.Raised:
                    ok = False
                except pyconst.Unknowable as ex:
                    ctx.need(False, f"SoCLocHandler.add cannot be interpreted on a model handler ({ex})")
                if not ok:
                    n_ref += 1
                    break
                n_ok += 1
                locs = me["locs"]
                vals = list(locs.values())
                if nm in before:
                    if not flag:
                        out.append(("dup", f"{what}: `{nm}` already holds location {before[nm]} and the request is accepted"))
                        break
                    if locs != before:
                        out.append(("dup", f"{what}: reusing the location of `{nm}` changed the table to {locs}"))
                        break
                    continue
                if nm not in locs or not isinstance(locs[nm], int) or isinstance(locs[nm], bool) or (n is not None and locs[nm] != n):
                    out.append(("stored", f"{what}: table is {locs}"))
                    break
                if len(set(vals)) != len(vals):
                    out.append(("unique", f"{what}: table is {locs}"))
                    break
                if not all(isinstance(v, int) and 0 <= v < n_locs for v in vals):
                    out.append(("range", f"{what}: table is {locs}"))
                    break
    ctx.analysed["paths"] += n_ok + n_ref
    return out, n_ok, n_ref


def _address_map_table(ctx, m):
    """Histories of SoCCSRHandler.address_map calls (what CSRBankArray asks while the SoC is finalised): clients are (module name,
    memory or None) over two modules, one of them optionally given a location beforehand (fixed or automatic); every sequence of up
    to three requests, interpreted on a model handler whose add / alloc / address_map are the repository's own.  Every distinct
    client must end up with its own location, a repeated request must return the same one.  ([(kind, text)], #calls)"""
    import itertools
    from .. import pyconst
    from ..pyconst import NS, Native
    base, sub = m.classes["SoCLocHandler"], m.classes["SoCCSRHandler"]
    silent = Native(lambda *a, **k: None)
    out, n_calls = [], 0
    clients = [("p", None), ("p", "buf"), ("q", None), ("q", "mem")]
    for pre in (None, ("p", 1), ("p", None), ("q", 0)):
        for k in (1, 2, 3):
            for seq in itertools.product(clients, repeat=k):
                me = NS(name="csr", locs={}, n_locs=8, logger=NS(info=silent, error=silent, warning=silent))
                try:
                    pyconst.bind(me, base, ["add", "alloc"])
                    pyconst.bind(me, sub, ["address_map"])
                except KeyError as ex:
                    ctx.need(False, f"SoCCSRHandler: method {ex} vanished")
                hist = []
                try:
                    if pre is not None:
                        hist.append(f"add({pre[0]!r}, n={pre[1]})")
                        me["add"].fn(pre[0], n=pre[1])
                    got = {}
                    for nm, mem in seq:
                        hist.append(f"address_map({nm!r}, {'None' if mem is None else '<Memory ' + mem + '>'})")
                        r = me["address_map"].fn(nm, None if mem is None else NS(name_override=mem))
                        n_calls += 1
                        what = " ; ".join(hist)
                        if (nm, mem) in got and got[(nm, mem)] != r:
                            out.append(("stable", f"{what}: the same client is given location {r} after {got[(nm, mem)]}"))
                            break
                        got[(nm, mem)] = r
                        if not isinstance(r, int) or isinstance(r, bool) or not 0 <= r < 8:
                            out.append(("range", f"{what}: returns {r!r}"))
                            break
                        if pre is not None and pre[1] is not None and (nm, mem) == (pre[0], None) and r != pre[1]:
                            out.append(("fixed", f"{what}: the location fixed beforehand ({pre[1]}) is not the one returned ({r})"))
                            break
                        if len(set(got.values())) != len(got):
                            dup = sorted((c for c in got if list(got.values()).count(got[c]) > 1), key=str)
                            out.append(("unique", f"{what}: clients {dup} share CSR location {got[dup[0]]} (table {dict(me['locs'])}): one "
                                                  f"page is built into two banks"))
                            break
                except pyconst.Raised:
                    out.append(("refused", f"{' ; '.join(hist)}: refused although 8 locations are free"))
                except pyconst.Unknowable as ex:
                    ctx.need(False, f"SoCCSRHandler.address_map cannot be interpreted on a model handler ({ex})")
    ctx.analysed["paths"] += n_calls
    return out, n_calls


_REGION_POOL = {
    # name: request (origin None = automatic); the IO window of the model bus is what the history declares
    "io_hi":   dict(origin=0x80, size=0x80, io=True, cached=False),
    "io_ovl":  dict(origin=0xC0, size=0x40, io=True, cached=False),     # overlaps io_hi
    "io_lo":   dict(origin=0x40, size=0x20, io=True, cached=False),
    "ram":     dict(origin=0x00, size=0x40),
    "ram_ovl": dict(origin=0x20, size=0x20),                             # inside ram
    "ram_np2": dict(origin=0x00, size=0x18),                             # decoded window 0x20
    "ram_aft": dict(origin=0x18, size=0x08),                             # inside the decoded window of ram_np2
    "dev":     dict(origin=0x80, size=0x10, cached=False),
    "dev_c":   dict(origin=0x90, size=0x10, cached=True),                # cached inside IO
    "dev_out": dict(origin=0x60, size=0x10, cached=False),               # uncached outside IO
    "auto_c":  dict(origin=None, size=0x20, cached=True),
    "auto_u":  dict(origin=None, size=0x10, cached=False),
    "auto_c2": dict(origin=None, size=0x30, cached=True),
    "lnk":     dict(origin=0x00, size=0x40, linker=True),
    "ram#2":   dict(origin=0x70, size=0x08),                             # second request under the name `ram`
    "io_hi#2": dict(origin=0x78, size=0x08),                             # a bus region under the name of an IO region
}


def _add_region_table(ctx, m):
    """Histories of add_region calls (all sequences of one or two requests of _REGION_POOL, and the triples that start with an IO
    region) interpreted exactly on a model bus handler whose methods are the repository's own (add_region, alloc_region,
    check_regions_overlap, check_region_is_in / _is_io: lxs/pyconst.bind); SoCRegion is modelled as origin / size / size_pow2 /
    cached / linker.  After every accepted call the state is compared with the statement of the property; a refused call ends the
    history (the build stops there).  ([(kind, text)], #accepted, #refused)"""
    import itertools
    from .. import pyconst
    from ..pyconst import NS, Native, _log2_int
    cdef = m.classes["SoCBusHandler"]
    silent = Native(lambda *a, **k: None)

    def region(origin=None, size=None, mode="rw", cached=True, linker=False, decode=True, io=False):
        return NS(origin=origin, size=size, size_pow2=2**_log2_int(size, False), cached=cached, linker=linker, mode=mode, decode=decode,
                  __cls__=("SoCIORegion", "SoCRegion") if io else ("SoCRegion",))

    def clash(r0, r1):
        return r0["origin"] < r1["origin"] + r1["size_pow2"] and r1["origin"] < r0["origin"] + r0["size_pow2"]
    names = list(_REGION_POOL)
    seqs = [s_ for k in (1, 2) for s_ in itertools.permutations(names, k)]
    seqs += [s_ for s_ in itertools.permutations(names, 3) if s_[0] in ("io_hi", "io_lo") and "#" not in s_[1]]
    seqs += [("not_a_region",), ("io_hi", "not_a_region")]
    out, n_ok, n_ref = [], 0, 0
    for seq in seqs:
        me = NS(regions={}, io_regions={}, io_regions_check=True, address_width=8, data_width=32,
                logger=NS(info=silent, error=silent, warning=silent))
        try:
            pyconst.bind(me, cdef, ["check_regions_overlap", "check_region_is_in", "check_region_is_io", "alloc_region", "add_region"],
                         consts={"SoCRegion": Native(region)})
        except KeyError as ex:
            ctx.need(False, f"SoCBusHandler: method {ex} vanished")
        hist = []
        for key in seq:
            name = key.split("#")[0]
            req = _REGION_POOL.get(key)
            if req is not None:
                req = dict({"cached": True}, **req)
            obj = region(**req) if req else "a string"
            hist.append(key)
            what = f"history {' ; '.join(hist)}"
            taken = name in me["regions"] or name in me["io_regions"]
            try:
                me["add_region"].fn(name, obj)
                ok = True
            except pyconst.Raised:
                ok = False
            except pyconst.Unknowable as ex:
                ctx.need(False, f"SoCBusHandler.add_region cannot be interpreted on a model bus ({ex})")
            if not ok:
                n_ref += 1
                break
            n_ok += 1
            if req is None:
                out.append(("type", f"{what}: accepted"))
                break
            if taken:
                out.append(("dup", f"{what}: the name `{name}` was already registered and the request is accepted"))
                break
            tab = me["io_regions"] if req.get("io") else me["regions"]
            got = tab.get(name)
            if not isinstance(got, NS) or not isinstance(got.get("origin"), int) or got.get("size") != req["size"]:
                out.append(("stored", f"{what}: `{name}` is registered as {got!r}"))
                break
            regs = [r_ for r_ in me["regions"].values() if isinstance(r_, NS) and isinstance(r_.get("origin"), int)]
            ios = [r_ for r_ in me["io_regions"].values() if isinstance(r_, NS)]
            ov = [(a_, b_) for a_, b_ in itertools.combinations(regs, 2) if not (a_["linker"] or b_["linker"]) and clash(a_, b_)]
            if ov:
                out.append(("overlap", f"{what}: regions at {ov[0][0]['origin']:#x} (+{ov[0][0]['size']:#x}) and {ov[0][1]['origin']:#x} "
                                       f"(+{ov[0][1]['size']:#x}) are both registered"))
                break
            ov = [(a_, b_) for a_, b_ in itertools.combinations(ios, 2) if clash(a_, b_)]
            if ov:
                out.append(("io-overlap", f"{what}: IO regions at {ov[0][0]['origin']:#x} and {ov[0][1]['origin']:#x} are both registered"))
                break
            if req.get("io") or req.get("linker"):
                continue
            inside = any(i_["origin"] <= got["origin"] and got["origin"] + got["size"] <= i_["origin"] + i_["size"] for i_ in ios)
            if req["origin"] is None:
                in_pow2 = any(i_["origin"] <= got["origin"] and got["origin"] + got["size"] <= i_["origin"] + i_["size_pow2"] for i_ in ios)
                if got["origin"] % got["size_pow2"] or got["origin"] + got["size"] > 2**8 or (not req["cached"] and not in_pow2) or \
                        got.get("cached") != req["cached"]:
                    out.append(("alloc", f"{what}: `{name}` (size {req['size']:#x}, cached={req['cached']}) is placed at {got['origin']:#x}"))
                    break
            elif inside == bool(req["cached"]):
                out.append(("io/cached", f"{what}: `{name}` at {got['origin']:#x} is {'cached' if req['cached'] else 'uncached'} and "
                                         f"{'inside' if inside else 'outside'} the IO regions, and is accepted"))
                break
    ctx.analysed["paths"] += n_ok + n_ref
    return out, n_ok, n_ref


def _alloc_region_table(ctx, m, fn):
    """SoCBusHandler.alloc_region interpreted exactly (lxs/pyconst.py; check_regions_overlap is the repository's own, interpreted
    too; SoCRegion is modelled as origin/size/size_pow2/cached/linker) on a grid of memory maps: IO regions with aligned and odd
    origins, existing regions that leave holes of several sizes, power-of-two and odd request sizes, cached and uncached.  What the
    function returns is compared with the statement of the property, not with a reference allocator: ([(kind, text)], #returned)."""
    from .. import pyconst
    from ..pyconst import NS, Native, _log2_int
    fo = m.method("SoCBusHandler", "check_regions_overlap")

    def region(origin=None, size=None, mode="rw", cached=True, linker=False, decode=True):
        return NS(origin=origin, size=size, size_pow2=2**_log2_int(size, False), cached=cached, linker=linker, mode=mode, decode=decode)
    ios = [{"io": (0x80, 0x80)}, {"io0": (0x40, 0x20), "io1": (0xC0, 0x40)}, {"io": (0x44, 0x3c)}, {"io": (0x48, 0x78)}]
    fills = [[], [(0, 16)], [(0, 16), (16, 16)], [(0, 24)], [(0, 64), (0x80, 0x20)], [(0, 128), (128, 64), (192, 32), (224, 16)],
             [(0x40, 0x18)], [(0x40, 0x10), (0x58, 8)], [(0x80, 0x60)], [(0x48, 8), (0x60, 0x10)], [(0xC0, 0x20), (0x40, 0x20)]]
    silent = Native(lambda *a, **k: None)
    out, n_ret, n_ev = [], 0, 0
    for io in ios:
        for fill in fills:
            for size in (8, 12, 16, 24, 32, 40, 64, 96, 128):
                for cached in (True, False):
                    me = NS(regions={f"r{i}": region(o, s) for i, (o, s) in enumerate(fill)},
                            io_regions={k: region(o, s, cached=False) for k, (o, s) in io.items()},
                            address_width=8, logger=NS(info=silent, error=silent, warning=silent))

                    def overlap(regions, check_linker=False, me=me):
                        r = pyconst.call(fo, {"self": me, "regions": regions, "check_linker": check_linker})
                        if r[0] != "return":
                            raise pyconst.Unknowable("check_regions_overlap raises")
                        return r[1]
                    me["check_regions_overlap"] = Native(overlap)
                    try:
                        got = pyconst.call(fn, {"self": me, "size": size, "cached": cached}, consts={"SoCRegion": Native(region)})
                    except pyconst.Unknowable as ex:
                        ctx.need(False, f"SoCBusHandler.alloc_region cannot be interpreted on a concrete memory map ({ex})")
                    n_ev += 1
                    if got[0] != "return":
                        continue
                    n_ret += 1
                    c = got[1]
                    what = f"alloc_region(size={size:#x}, cached={cached}) with regions {[(hex(o), hex(s_)) for o, s_ in fill]}, IO regions " \
                           f"{[(hex(o), hex(s_)) for o, s_ in io.values()]}"
                    if not isinstance(c, NS) or not all(isinstance(c.get(k), int) for k in ("origin", "size", "size_pow2")):
                        out.append(("shape", f"{what} returns {c!r}"))
                        continue
                    at = f"{what} returns [{c['origin']:#x}, +{c['size']:#x})"
                    if c["size"] != size or c.get("cached") != cached:
                        out.append(("shape", f"{at} with size {c['size']:#x} / cached={c.get('cached')}"))
                    if c["origin"] % c["size_pow2"]:
                        out.append(("unaligned", f"{at}: not a multiple of {c['size_pow2']:#x}"))
                    for o, s_ in fill:
                        p2 = 2**_log2_int(s_, False)
                        if c["origin"] < o + p2 and o < c["origin"] + c["size_pow2"]:
                            out.append(("overlap", f"{at}: overlaps the existing region at {o:#x}"))
                            break
                    spaces = [(o, o + 2**_log2_int(s_, False)) for o, s_ in io.values()] if not cached else [(0, 2**8)]
                    if not any(a <= c["origin"] and c["origin"] + c["size"] <= b for a, b in spaces):
                        out.append(("outside", f"{at}: outside {'every IO region' if not cached else 'the address space'}"))
    ctx.analysed["paths"] += n_ev
    return out, n_ret


def _finalize_table(ctx, m):
    """SoCBusHandler.do_finalize interpreted exactly (lxs/pyconst.py; the interconnect classes are modelled as constructors that
    record their arguments) on buses of 1..3 regions with every combination of decode flags and 1..2 masters: a region whose
    decoder is disabled matches every address, so next to any other region it must be refused; otherwise one interconnect over all
    masters and all slaves is built.  [(kind, text)]"""
    from .. import pyconst
    from ..pyconst import NS, Native, Tok
    import itertools
    fn = m.method("SoCBusHandler", "do_finalize")
    silent = Native(lambda *a, **k: None)
    out, n_ev = [], 0
    for k in (1, 2, 3):
        for decs in itertools.product((True, False), repeat=k):
            for nm in (1, 2):
                for kind in ("shared", "crossbar"):
                    built = []

                    def mk(*a, built=built, **kw):
                        built.append(kw)
                        return NS(__cls__=("Interconnect",))
                    regions = {f"r{i}": NS(origin=0x1000 * (i + 1), size=0x1000, size_pow2=0x1000, decode=d, cached=True, linker=False,
                                           decoder=Native(lambda bus, i=i: ("decoder", i))) for i, d in enumerate(decs)}
                    me = NS(standard="wishbone", masters={f"m{i}": Tok("m", i) for i in range(nm)},
                            slaves={n_: Tok("s", i) for i, n_ in enumerate(regions)}, regions=regions, io_regions={}, interconnect=kind,
                            interconnect_register=True, timeout=100, data_width=32, address_width=32,
                            logger=NS(info=silent, error=silent, warning=silent), _interconnect=None)
                    wb = NS(InterconnectPointToPoint=Native(mk), InterconnectShared=Native(mk), Crossbar=Native(mk))
                    ax = NS(AXILiteInterconnectPointToPoint=Native(mk), AXIInterconnectPointToPoint=Native(mk), AXILiteInterconnectShared=Native(mk),
                            AXIInterconnectShared=Native(mk), AXILiteCrossbar=Native(mk), AXICrossbar=Native(mk))
                    try:
                        got = pyconst.call(fn, {"self": me}, consts={"wishbone": wb, "axi": ax})
                    except pyconst.Unknowable as ex:
                        ctx.need(False, f"SoCBusHandler.do_finalize cannot be interpreted on a constant bus description ({ex})")
                    n_ev += 1
                    what = f"{nm} master(s), regions with decode = {list(decs)}, {kind}"
                    if k > 1 and not all(decs):
                        if got[0] != "raise":
                            out.append(("decode", f"{what}: built although a region without address decoding sits next to other regions: every "
                                                  f"address of the others selects two slaves"))
                    elif got[0] != "return" or len(built) != 1:
                        out.append(("built", f"{what}: {'refused' if got[0] == 'raise' else str(len(built)) + ' interconnects built'}"))
                    elif k > 1 or nm > 1:
                        kw = built[0]
                        if len(kw.get("masters") or []) != nm or len(kw.get("slaves") or []) != k:
                            out.append(("built", f"{what}: interconnect over {len(kw.get('masters') or [])} master(s) and {len(kw.get('slaves') or [])} slave(s)"))
    ctx.analysed["paths"] += n_ev
    return out


# table -> the one method name that may update it in place (every handler class validates there; A1/A3/A5 decide those methods)
_WRITERS = {"locs": "add", "regions": "add_region", "io_regions": "add_region", "masters": "add_master", "slaves": "add_slave"}
# (SoC.constants is deliberately absent: Builder merges the JSON constants into it after finalisation, by design)
_INTEGRATION = ("litex/soc/integration/soc.py", "litex/soc/integration/soc_core.py", "litex/soc/integration/builder.py",
                "litex/soc/integration/export.py")


def _reordering_of(value, target):
    """value is {k: v for k, v in sorted(<target>.items(), ..)} / dict(sorted(<target>.items(), ..)) / OrderedDict(..)"""
    it = None
    if isinstance(value, ast.DictComp) and len(value.generators) == 1 and not value.generators[0].ifs:
        g = value.generators[0]
        if isinstance(g.target, ast.Tuple) and len(g.target.elts) == 2 and norm(g.target.elts[0]) == norm(value.key) and \
                norm(g.target.elts[1]) == norm(value.value):
            it = g.iter
    elif isinstance(value, ast.Call) and norm(value.func) in ("dict", "OrderedDict") and len(value.args) == 1 and not value.keywords:
        it = value.args[0]
    if isinstance(it, ast.Call) and norm(it.func) == "sorted" and it.args:
        it = it.args[0]
    return it is not None and norm(it) == f"{target}.items()"


def _who_may_write(ctx):
    from .c02 import _mutated_in_place
    for rel in _INTEGRATION:
        m = ctx.mod(rel)
        scopes = []
        for c in m.tree.body:
            if isinstance(c, ast.ClassDef):
                scopes += [(f"{c.name}.{f.name}", f) for f in c.body if isinstance(f, ast.FunctionDef)]
            elif isinstance(c, ast.FunctionDef):
                scopes.append((c.name, c))
        for scope, f in scopes:
            meth = scope.rsplit(".", 1)[-1]
            for n in ast.walk(f):
                for x in _mutated_in_place(n):
                    if isinstance(x, ast.Attribute) and x.attr in _WRITERS:
                        ok = meth == _WRITERS[x.attr] and norm(x.value) == "self"
                        ctx.ob("A6", rel, scope, f"in-place update of .{x.attr} only in {_WRITERS[x.attr]}()", ok,
                               "" if ok else f"`{norm(n)[:90]}` writes the table `{norm(x)}` directly: the request bypasses the uniqueness / range / "
                                             f"overlap tests of {_WRITERS[x.attr]}(), so an illegal or duplicate grant is built instead of refused", n)
                if isinstance(n, (ast.Assign, ast.AnnAssign)):
                    for t in (n.targets if isinstance(n, ast.Assign) else [n.target]):
                        if isinstance(t, ast.Attribute) and t.attr in _WRITERS and n.value is not None:
                            empty = isinstance(n.value, ast.Dict) and not n.value.keys or \
                                (isinstance(n.value, ast.Call) and norm(n.value.func) in ("dict", "OrderedDict") and not n.value.args and not n.value.keywords)
                            ok = (meth == "__init__" and norm(t.value) == "self" and empty) or _reordering_of(n.value, norm(t))
                            ctx.ob("A6", rel, scope, f".{t.attr} bound to an empty table in __init__ or to a re-ordering of itself", ok,
                                   "" if ok else f"`{norm(n)[:90]}` replaces the table `{norm(t)}` wholesale: grants appear or vanish without passing "
                                                 f"{_WRITERS[t.attr]}()", n)


def run(ctx):
    m = ctx.mod(SOC)
    ctx.rule("A1", "commit => validated: on every path a store into self.regions / self.io_regions / self.locs is covered "
                   "by its validation (overlap check whose non-None result raises, allocator result, uniqueness and range "
                   "tests whose failure raises); decoder alignment test raises before the predicate is built", min_sites=14)
    ctx.rule("A2", "same window: overlap test and decoder read size_pow2 only; the two disjointness tests are mirror images "
                   "under r0<->r1; containment test compares both ends", min_sites=6)
    ctx.rule("A3", "bound agreement: the fixed-location upper test excludes exactly n >= n_locs, the allocator ranges over "
                   "range(n_locs); negative numbers rejected", min_sites=4)
    ctx.rule("A4", "IO resources: request looks up in `available`, removes from `available` and appends to `matched` on the "
                   "same path before returning the object; lookups read only `matched`", min_sites=7)
    ctx.rule("A5", "duplicate-name tests dominate the insertion (add_master/add_slave/add_constant/check_if_exists/"
                   "csr add_master)", min_sites=5)

    ctx.rule("A6", "who may write: the granted-so-far tables (locs, regions, io_regions, masters, slaves) are updated in "
                   "place only by the validating method of their handler (add / add_region / add_master / add_slave); "
                   "they are bound only to an empty dict in __init__ or to a re-ordering of themselves", min_sites=12)
    _who_may_write(ctx)
    ctx.rule("A7", "granted CSR pages lie inside the decoded `csr` bus region: the region spans 4 bytes per CSR word for all 2**address_width "
                   "words, for every CSR data width (the handler's n_locs is computed from the same product)", min_sites=1)
    from .c14 import csr_bus_window
    csr_bus_window(ctx, "A7")

    # ================= A1: SoCBusHandler.add_region (histories interpreted on a model bus, see _add_region_table)
    fn = m.method("SoCBusHandler", "add_region")
    ctx.analysed["functions"].add(f"{SOC}::SoCBusHandler.add_region")
    dev, n_ok, n_ref = _add_region_table(ctx, m)
    ctx.ob("A1", SOC, "SoCBusHandler.add_region", "histories:present", n_ok >= 200 and n_ref >= 50,
           f"only {n_ok} accepted / {n_ref} refused requests over the history grid (anchor changed)", fn)
    for kind, role in (("overlap", "after every accepted request the bus regions are pairwise disjoint (power-of-two windows; linker regions aside)"),
                       ("io-overlap", "after every accepted request the IO regions are pairwise disjoint"),
                       ("stored", "an accepted request leaves the region registered under its name, placed, with the requested size"),
                       ("io/cached", "a fixed region is accepted only if cached <=> outside every IO region (io_regions_check)"),
                       ("alloc", "an allocated region lies inside the address space, inside an IO region when uncached, aligned on its decoded size"),
                       ("dup", "a name already in use (region or IO region) is refused"),
                       ("type", "an object that is not a region is refused")):
        bad = [d for d in dev if d[0] == kind]
        ctx.ob("A1", SOC, "SoCBusHandler.add_region", role, not bad, "" if not bad else f"{bad[0][1]} ({len(bad)} histories)", fn)

    # ================= A1: alloc_region (interpreted on concrete memory maps, see _alloc_region_table)
    fn = m.method("SoCBusHandler", "alloc_region")
    ctx.analysed["functions"].add(f"{SOC}::SoCBusHandler.alloc_region")
    dev, n_ret = _alloc_region_table(ctx, m, fn)
    ctx.ob("A1", SOC, "SoCBusHandler.alloc_region", "return:present", n_ret > 0, "alloc_region returns no candidate on any of the memory maps", fn)
    for kind, role in (("shape", "returned candidate has the requested size and cached flag"),
                       ("unaligned", "returned candidate is aligned on its decoded (power-of-two) size"),
                       ("overlap", "returned candidate is disjoint from every existing region (power-of-two windows)"),
                       ("outside", "returned candidate lies inside the search space: an IO region when uncached, the address space otherwise")):
        bad = [d for d in dev if d[0] == kind]
        ctx.ob("A1", SOC, "SoCBusHandler.alloc_region", role, not bad, "" if not bad else f"{bad[0][1]} ({len(bad)} of the memory maps)", fn)

    # ================= A1: do_finalize (decision table by interpretation)
    dev = _finalize_table(ctx, m)
    for kind, role in (("decode", "a region with its decoder disabled is refused next to any other region"),
                       ("built", "otherwise one interconnect over all masters and all slaves is built")):
        bad = [d for d in dev if d[0] == kind]
        ctx.ob("A1", SOC, "SoCBusHandler.do_finalize", role, not bad, "" if not bad else f"{bad[0][1]} ({len(bad)} of the bus descriptions)",
               m.method("SoCBusHandler", "do_finalize"))

    # ================= A1: SoCCSRHandler.address_map (histories interpreted, see _address_map_table)
    amap, n_am = _address_map_table(ctx, m)
    fn_am = m.method("SoCCSRHandler", "address_map")
    ctx.analysed["functions"].add(f"{SOC}::SoCCSRHandler.address_map")
    ctx.ob("A1", SOC, "SoCCSRHandler.address_map", "histories:present", n_am >= 500, f"only {n_am} calls interpreted", fn_am)
    for kind, role in (("unique", "every CSR client (module, or module + memory) gets a location of its own"),
                       ("stable", "a repeated request returns the same location"),
                       ("fixed", "a location fixed beforehand is the one used"),
                       ("range", "locations are integers inside range(n_locs)"),
                       ("refused", "no request is refused while locations are free")):
        bad = [x for x in amap if x[0] == kind]
        ctx.ob("A1", SOC, "SoCCSRHandler.address_map", role, not bad, "" if not bad else f"{bad[0][1]} ({len(bad)} histories)", fn_am)
    # ================= A1/A3: SoCLocHandler.add / alloc (histories interpreted, see _loc_table)
    fn = m.method("SoCLocHandler", "add")
    ctx.analysed["functions"].add(f"{SOC}::SoCLocHandler.add")
    dev, n_ok, n_ref = _loc_table(ctx, m)
    ctx.ob("A1", SOC, "SoCLocHandler.add", "histories:present", n_ok >= 300 and n_ref >= 300,
           f"only {n_ok} accepted / {n_ref} refused requests over the history grid (anchor changed)", fn)
    for kind, role in (("unique", "locs[name] = n => no two names hold one location"),
                       ("range", "every granted location lies in range(n_locs) (negative and n >= n_locs refused)"),
                       ("dup", "a name already in use is refused unless its existing location is reused on request"),
                       ("stored", "an accepted request leaves the name registered (an automatic one at a free location)")):
        bad = [d for d in dev if d[0] == kind]
        ctx.ob("A1", SOC, "SoCLocHandler.add", role, not bad, "" if not bad else f"{bad[0][1]} ({len(bad)} histories)", fn)
    loc_bound(ctx, "A3")
    fa = m.method("SoCLocHandler", "alloc")
    dev = _alloc_table(ctx, fa)
    bad = [d for d in dev if d[0] == "free"]
    ctx.ob("A1", SOC, "SoCLocHandler.alloc", "returned number is free", not bad,
           "" if not bad else bad[0][1], fa)
    falls = [d for d in dev if d[0] == "exhaust"]
    ctx.ob("A1", SOC, "SoCLocHandler.alloc", "exhaustion raises", not falls, "" if not falls else falls[0][1], fa)

    # ================= A1/A2: decoder
    fd = m.method("SoCRegion", "decoder")
    pd = P.feasible_paths(fd)
    bad = None
    nlam = 0
    for p in pd:
        if p.end == "return" and isinstance(p.end_node.value, ast.Lambda):
            nlam += 1
            ta = [(cnorm(t), pol) for t, pol in p.tests_before(len(p.ev)) if cnorm("origin & size - 1") in cnorm(t)]
            if not ta:
                bad = "predicate returned without the alignment test"
            else:
                t, pol = ta[0]
                misaligned = pol if "!= 0" in t else (not pol if "== 0" in t else None)
                if misaligned is not False:
                    bad = f"predicate built on the misaligned branch of `{t}`"
    ctx.ob("A1", SOC, "SoCRegion.decoder", "alignment test raises before the predicate is built", bad is None and nlam >= 1,
           "" if (bad is None and nlam) else (bad or "no lambda returned"), fd)
    sz = [norm(n.value) for n in ast.walk(fd) if isinstance(n, ast.Assign) and norm(n.targets[0]) == "size"]
    ok = sz == ["self.size_pow2"]
    ctx.ob("A2", SOC, "SoCRegion.decoder", "decoder window is size_pow2", ok, "" if ok else f"size = {sz}", fd)
    # predicate: both sides use the same k = log2_int(size); origin and size shifted by the same amount
    lam = [n for n in ast.walk(fd) if isinstance(n, ast.Lambda) and isinstance(n.body, ast.Compare)]
    ok = False
    why = "no comparing lambda"
    if lam:
        c = lam[-1].body
        l, r = c.left, c.comparators[0]
        ok = isinstance(l, ast.Subscript) and isinstance(l.slice, ast.Slice) and l.slice.upper is None and \
            isinstance(r, ast.BinOp) and isinstance(r.op, ast.RShift) and norm(l.slice.lower) == norm(r.right) and \
            norm(r.left) == "origin" and norm(l.slice.lower) == "log2_int(size)" and isinstance(c.ops[0], ast.Eq)
        why = norm(c)
    ctx.ob("A2", SOC, "SoCRegion.decoder", "predicate a[k:] == origin >> k with one k = log2_int(size)", ok, "" if ok else why, fd)
    sh = [(norm(n.target), norm(n.value)) for n in ast.walk(fd) if isinstance(n, ast.AugAssign) and isinstance(n.op, ast.RShift)]
    ok = len(sh) == 2 and {s[0] for s in sh} == {"origin", "size"} and sh[0][1] == sh[1][1] and "bus.data_width // 8" in sh[0][1]
    ctx.ob("A2", SOC, "SoCRegion.decoder", "origin and size converted bytes->words by the same shift", ok, "" if ok else f"{sh}", fd)

    overlap_window(ctx, "A2")

    # ================= A4: ConstraintManager
    g = ctx.mod(GP)
    fr = g.method("ConstraintManager", "request")
    pr = P.feasible_paths(fr)
    ctx.analysed["paths"] += len(pr)
    lk = [c for c in ast.walk(fr) if isinstance(c, ast.Call) and norm(c.func) == "_lookup"]
    ok = len(lk) == 1 and lk[0].args and norm(lk[0].args[0]) == "self.available"
    ctx.ob("A4", GP, "ConstraintManager.request", "lookup searches self.available", ok,
           "" if ok else f"_lookup called on {[norm(c.args[0]) for c in lk if c.args]}", fr)
    bad = None
    nret = 0
    for p in pr:
        if p.end == "return" and p.end_node.value is not None and norm(p.end_node.value) != "None":
            nret += 1
            rm = p.index_where(lambda e: e[0] == "stmt" and any(norm(c.func) == "self.available.remove" and c.args and
                                                                norm(c.args[0]) == "resource" for c in P.calls_in(e[1])
                                                                ) and not isinstance(e[1], (ast.For, ast.While, ast.If)))
            ap = p.index_where(lambda e: e[0] == "stmt" and any(norm(c.func) == "self.matched.append"
                                                                for c in P.calls_in(e[1])) and not isinstance(e[1], (ast.For, ast.While)))
            if rm < 0:
                bad = "an object is returned without removing the resource from `available` (it can be granted twice)"
            elif ap < 0:
                bad = "an object is returned without recording it in `matched`"
            else:
                c = [c for c in P.calls_in(p.ev[ap][1]) if norm(c.func) == "self.matched.append"][0]
                if not (c.args and isinstance(c.args[0], ast.Tuple) and norm(c.args[0].elts[0]) == "resource" and
                        norm(c.args[0].elts[1]) == norm(p.end_node.value)):
                    bad = f"matched.append({norm(c.args[0]) if c.args else ''}) does not pair the resource with the returned object"
    ctx.ob("A4", GP, "ConstraintManager.request", "grant pairs available.remove with matched.append", bad is None and nret > 0,
           "" if (bad is None and nret) else (bad or "request returns nothing"), fr)
    for mname in ("lookup_request", "get_io_signals", "get_sig_constraints"):
        fm = g.method("ConstraintManager", mname)
        rd = sorted({norm(n) for n in ast.walk(fm) if isinstance(n, ast.Attribute) and norm(n) in ("self.available", "self.matched")})
        ok = rd == ["self.matched"]
        ctx.ob("A4", GP, f"ConstraintManager.{mname}", "reads only self.matched", ok, "" if ok else f"reads {rd}", fm)
    # _lookup: name and number must both match
    fl = g.func("_lookup")
    # (what matches is decided by the decision table of _lookup_wildcard)
    pl = P.feasible_paths(fl)
    ok = all(p.end != "fall" for p in pl)
    ctx.ob("A4", GP, "_lookup", "not found raises or returns None explicitly", ok, "" if ok else "falls off the end", fl)

    _lookup_wildcard(ctx)

    # ================= A5: names
    for cls, meth, test, reg in (("SoCBusHandler", "add_master", "name in self.masters.keys()", "self.masters"),
                                 ("SoCBusHandler", "add_slave", "name in self.slaves.keys()", "self.slaves"),
                                 ("SoCCSRHandler", "add_master", "name in self.masters.keys()", "self.masters"),
                                 ("SoC", "add_constant", "name in self.constants.keys()", "self.constants")):
        fn = m.method(cls, meth)
        ps = P.feasible_paths(fn)
        ctx.analysed["paths"] += len(ps)
        bad = None
        nst = 0
        for p in ps:
            si = p.index_where(lambda e: _is_store(e, reg))
            if si < 0:
                continue
            nst += 1
            # only add_constant(check_duplicate=False) may skip the test or store a name that exists
            waived = meth == "add_constant" and P.has_test(p, "check_duplicate", False, upto=si)
            if P.has_test(p, test, True, upto=si):
                if not waived:
                    bad = "a duplicate name is stored"
            elif not P.has_test(p, test, False, upto=si) and not waived:
                bad = "store reachable without the duplicate-name test"
        ctx.ob("A5", SOC, f"{cls}.{meth}", f"`{test}` dominates the insertion and rejects duplicates", bad is None and nst > 0,
               "" if (bad is None and nst) else (bad or f"no store into {reg}"), fn)
    fn = m.method("SoC", "check_if_exists")
    ps = P.feasible_paths(fn)
    ok = any(p.end == "raise" and any(norm(t) == "hasattr(self, name)" and pol for t, pol in p.tests_before(len(p.ev))) for p in ps)
    ctx.ob("A5", SOC, "SoC.check_if_exists", "existing submodule name raises", ok, "" if ok else "no raise on hasattr(self, name)", fn)


def overlap_window(ctx, rid):
    """The overlap test compares the windows the decoders really match (size_pow2), symmetrically, over all pairs; containment
    compares both ends (shared with C14: two published regions whose decode windows intersect answer at the same address)."""
    m = ctx.mod(SOC)
    # ================= A2: check_regions_overlap / check_region_is_in
    import itertools
    from .. import pyconst
    fo = m.method("SoCBusHandler", "check_regions_overlap")
    fi = m.method("SoCBusHandler", "check_region_is_in")
    me = pyconst.NS()
    shapes = [(3, 4), (4, 4), (5, 8)]           # (size, size_pow2): the decoded window is the power of two above the size
    origins = [0, 3, 4, 6, 8]

    def region(o, sh, linker=False):
        return pyconst.NS(origin=o, size=sh[0], size_pow2=sh[1], linker=linker)

    def expect(regs, check_linker):
        names = list(regs)
        for a in range(len(names)):
            for b in range(a + 1, len(names)):
                r0, r1 = regs[names[a]], regs[names[b]]
                if (r0["linker"] or r1["linker"]) and not check_linker:
                    continue
                if r0["origin"] < r1["origin"] + r1["size_pow2"] and r1["origin"] < r0["origin"] + r0["size_pow2"]:
                    return (names[a], names[b])
        return None
    bad = {"window": None, "pairs": None, "linker": None}
    n_ev = 0
    try:
        # two regions, full grid: the window arithmetic (extent = size_pow2, both orders)
        for (o0, s0), (o1, s1) in itertools.product(itertools.product(origins, shapes), repeat=2):
            regs = {"a": region(o0, s0), "b": region(o1, s1)}
            got = pyconst.call(fo, {"self": me, "regions": regs, "check_linker": False})
            n_ev += 1
            want = expect(regs, False)
            if got != ("return", want) and bad["window"] is None:
                bad["window"] = (regs, got, want)
        # three regions: every pair is looked at, the first overlapping pair (i < j) is reported
        for o in itertools.product(origins + [16], repeat=3):
            for sh in ((3, 4), (5, 8)):
                regs = {"a": region(o[0], sh), "b": region(o[1], (4, 4)), "c": region(o[2], sh)}
                got = pyconst.call(fo, {"self": me, "regions": regs, "check_linker": False})
                n_ev += 1
                want = expect(regs, False)
                if got != ("return", want) and bad["pairs"] is None:
                    bad["pairs"] = (regs, got, want)
        # linker regions are skipped unless asked for
        for cl in (False, True):
            for l0, l1 in ((True, False), (False, True), (True, True)):
                regs = {"a": region(0, (4, 4), l0), "b": region(0, (4, 4), l1), "c": region(0, (4, 4))}
                got = pyconst.call(fo, {"self": me, "regions": regs, "check_linker": cl})
                n_ev += 1
                want = expect(regs, cl)
                if got != ("return", want) and bad["linker"] is None:
                    bad["linker"] = (regs, got, want)
    except pyconst.Unknowable as ex:
        ctx.need(False, f"check_regions_overlap cannot be interpreted on constant region tables ({ex})")
    ctx.analysed["paths"] += n_ev

    def show(b):
        regs, got, want = b
        return f"regions {({k: (v['origin'], v['size'], v['size_pow2']) for k, v in regs.items()})} (origin, size, size_pow2): " \
               f"returned {got[1] if got[0] == 'return' else got[0]!r}, expected {want!r}"
    ok = bad["window"] is None
    ctx.ob(rid, SOC, "SoCBusHandler.check_regions_overlap", "extent attribute is size_pow2 (the decoded window)", ok,
           "" if ok else show(bad["window"]) + ": regions that do not overlap by .size can still share decoded addresses (or disjoint windows "
                                                 "are rejected)", fo)
    ctx.ob(rid, SOC, "SoCBusHandler.check_regions_overlap", "disjointness tests are mirror images, each adding the other extent",
           ok, "" if ok else show(bad["window"]), fo)
    ok = bad["pairs"] is None
    ctx.ob(rid, SOC, "SoCBusHandler.check_regions_overlap", "returns the pair on overlap, None otherwise", ok and bad["window"] is None,
           "" if ok and bad["window"] is None else show(bad["pairs"] or bad["window"]), fo)
    ctx.ob(rid, SOC, "SoCBusHandler.check_regions_overlap", "all pairs i<j compared", ok, "" if ok else show(bad["pairs"]), fo)
    ok = bad["linker"] is None
    ctx.ob(rid, SOC, "SoCBusHandler.check_regions_overlap", "linker regions skipped unless check_linker", ok, "" if ok else show(bad["linker"]), fo)
    badc = None
    try:
        for (o0, s0), (o1, s1) in itertools.product(itertools.product(origins, shapes), repeat=2):
            r, c = region(o0, s0), region(o1, s1)
            got = pyconst.call(fi, {"self": me, "region": r, "container": c})
            want = o0 >= o1 and o0 + s0[0] <= o1 + s1[0]
            if (got[0] != "return" or bool(got[1]) != want) and badc is None:
                badc = ((o0, s0[0]), (o1, s1[0]), got, want)
    except pyconst.Unknowable as ex:
        ctx.need(False, f"check_region_is_in cannot be interpreted ({ex})")
    ok = badc is None
    ctx.ob(rid, SOC, "SoCBusHandler.check_region_is_in", "containment compares both ends", ok,
           "" if ok else f"region (origin, size) {badc[0]} in container {badc[1]}: returned {badc[2][1]!r}, expected {badc[3]}", fi)


def _pyeval(e, env):
    """Value of a small side-effect free expression (names, constant subscripts, == != is is-not, and/or/not)."""
    if isinstance(e, ast.Constant):
        return e.value
    if isinstance(e, ast.Name):
        return env[e.id]
    if isinstance(e, ast.Subscript) and isinstance(e.slice, ast.Constant):
        return _pyeval(e.value, env)[e.slice.value]
    if isinstance(e, ast.UnaryOp) and isinstance(e.op, ast.Not):
        return not _pyeval(e.operand, env)
    if isinstance(e, ast.BoolOp):
        v = None
        for x in e.values:
            v = _pyeval(x, env)
            if isinstance(e.op, ast.And) and not v:
                return v
            if isinstance(e.op, ast.Or) and v:
                return v
        return v
    if isinstance(e, ast.Compare) and len(e.ops) == 1:
        a, b, op = _pyeval(e.left, env), _pyeval(e.comparators[0], env), e.ops[0]
        if isinstance(op, ast.Eq):
            return a == b
        if isinstance(op, ast.NotEq):
            return a != b
        if isinstance(op, ast.Is):
            return a is b
        if isinstance(op, ast.IsNot):
            return a is not b
    raise ValueError(norm(e))


def _lookup_wildcard(ctx):
    """generic_platform._lookup: a resource matches iff the names are equal and the number is the wildcard None or equal; number 0
    is a number like any other (decision table over name equality x requested number in {None, 0, 1} x resource number in {0, 1})."""
    m = ctx.mod(GP)
    fn = m.func("_lookup")
    ctx.analysed["functions"].add(f"{GP}::_lookup")
    a = [x.arg for x in fn.args.args]
    ctx.need(len(a) >= 3, "_lookup(description, name, number, ...): signature changed")
    from .. import pyconst
    bad = None
    n_ev = 0
    desc0 = [("led", 0, "pins-led0"), ("btn", 0, "pins-btn0"), ("led", 1, "pins-led1"), ("btn", 1, "pins-btn1")]
    desc = desc0
    try:
        for d in (desc0, desc0[::-1]):
            for name in ("led", "btn", "sw"):
                for number in (None, 0, 1, 2):
                    got = pyconst.call(fn, {a[0]: d, a[1]: name, a[2]: number, **({a[3]: True} if len(a) > 3 else {})})
                    hits = [r for r in d if r[0] == name and (number is None or r[1] == number)]
                    want = ("return", hits[0] if hits else None)
                    n_ev += 1
                    if got != want and bad is None:
                        bad = (name, number, got, want)
                        desc = d
    except pyconst.Unknowable as ex:
        ctx.need(False, f"_lookup: cannot be interpreted on a constant description ({ex})")
    ctx.analysed["paths"] += n_ev
    ctx.ob("A4", GP, "_lookup", "match = same name and (number is None or same number); 0 is a number, not the wildcard", bad is None,
           "" if bad is None else f"_lookup(description, {bad[0]!r}, {bad[1]}, loose) yields {bad[2][1]!r} on {[r[:2] for r in desc]}, expected {bad[3][1]!r}: an "
                                  f"explicit request for a number is served with another resource of that name (or refused) -- two clients share one "
                                  f"IO name, the rightful request is refused later", fn)


def _none_test(e, var):
    """+1: e true <=> var is not None (an overlap was found); -1: e true <=> var is None; 0: not understood."""
    sign = 1
    while isinstance(e, ast.UnaryOp) and isinstance(e.op, ast.Not):
        e, sign = e.operand, -sign
    if isinstance(e, ast.Name) and e.id == var:
        return sign
    if isinstance(e, ast.Compare) and len(e.ops) == 1 and norm(e.left) == var and norm(e.comparators[0]) == "None":
        if isinstance(e.ops[0], (ast.IsNot, ast.NotEq)):
            return sign
        if isinstance(e.ops[0], (ast.Is, ast.Eq)):
            return -sign
    return 0


def _excludes_ge(cmp, var, bound):
    """Does the test `cmp` (true => rejected) hold exactly for var >= bound?"""
    l, op, r = norm(cmp.left), cmp.ops[0], norm(cmp.comparators[0])
    if l == var and r == bound and isinstance(op, ast.GtE):
        return True
    if l == bound and r == var and isinstance(op, ast.LtE):
        return True
    if l == var and r in (f"{bound} - 1",) and isinstance(op, ast.Gt):
        return True
    if l == f"{bound} - 1" and r == var and isinstance(op, ast.Lt):
        return True
    return False
