"""C14 -- exported software maps tell the truth about the hardware.

Decided (structural, necessary): E1 every exporter that walks a CSR region advances its running address
exactly once per register, by the same stride form (alignment//8 * ceil(size/busword)), uses the address
*before* advancing it, and filters nothing; E2 the bytes-per-CSR-word factor agrees between the bus window,
the location count, the banks and the exporters; region origins are csr_base + paging*page for banks and
memories alike; E3 every parameter that changes the hardware decode reaches the export side (ordering does
not: known finding); E4 memory images: endianness table, padding, index formula; E5 multi-word accessors:
read and write compose the same addresses in the same (MSW-first) order.
Not decided: that an access at the published address hits the register (needs the elaborated SoC)."""
import ast
from ..core import AnalysisError, norm, walk_no_nested, const_fold
from .. import pathx as P

EXP = "litex/soc/integration/export.py"
SOC = "litex/soc/integration/soc.py"
DOC = "litex/soc/doc/csr.py"
COMMON = "litex/soc/integration/common.py"
CSRBUS = "litex/soc/interconnect/csr_bus.py"

EXPLANATION = ("Plain-Python analysis of the exporters: per-loop path enumeration (exactly-once advance of the running "
               "address, use-before-advance), normal-form comparison of the stride between the sibling exporters, constant "
               "folding of the bytes-per-word factor with alignment = 32, def-use of decode-relevant configuration "
               "towards the exporters, literal tables of get_mem_data, twin comparison of the generated read/write accessors.")
TECHNIQUE = ("abstract interpretation of the exporters on a model SoC description (published text read back, accessors execu"
             "ted on a model memory) + per-loop path enumeration + constant folding + parameter def-use + IR def-use through registers")

WALKERS = [
    # function, running-address variable, how the address is consumed in the loop
    ("get_csr_json", "region_origin"),
    ("_generate_csr_region_definitions_c", "origin"),
    ("_generate_csr_region_access_functions_c", "origin"),
]
# (_generate_csr_fields_access_functions_c also advances an `origin`, but publishes nothing from it: not a walker of this rule)


def _loop_paths(loop):
    fn = ast.FunctionDef(name="<loop>", args=ast.arguments(posonlyargs=[], args=[], kwonlyargs=[], kw_defaults=[], defaults=[]),
                         body=loop.body, decorator_list=[], lineno=loop.lineno)
    return P.feasible_paths(fn)


def _stride_form(value, defs):
    """normalise `alignment // 8 * N` -> ('alignment // 8', text of N with locals expanded)"""
    v = value
    if isinstance(v, ast.BinOp) and isinstance(v.op, ast.Mult):
        a, b = v.left, v.right
        for x, y in ((a, b), (b, a)):
            if norm(x) == "alignment // 8":
                n = y
                k = 0
                while isinstance(n, ast.Name) and n.id in defs and k < 4:
                    n = defs[n.id]
                    k += 1
                return ("alignment // 8", norm(n))
    return None


def _e8(ctx):
    ex = ctx.mod(EXP)
    fh = ex.func("get_csr_header")
    first = [n for n in ast.walk(fh) if isinstance(n, ast.Assign) and "next(iter(regions))" in norm(n.value) and norm(n.value).endswith(".origin")]
    lowest = [n for n in ast.walk(fh) if isinstance(n, ast.Assign) and norm(n.value).startswith("min(") and ".origin" in norm(n.value)]
    ctx.ob("E8", EXP, "get_csr_header", "base of the offsets = origin of the first region (or the lowest origin)", bool(first or lowest),
           "" if (first or lowest) else "the header's base is no longer taken from the regions (anchor changed)", fh)
    soc = ctx.mod(SOC)
    fin = soc.method("SoC", "finalize")
    adds = [n for n in ast.walk(fin) if isinstance(n, ast.Call) and norm(n.func) == "self.csr.add_region"]
    sorts = [st for st in fin.body if isinstance(st, ast.Assign) and norm(st.targets[0]) == "self.csr.regions" and
             any(isinstance(c, ast.Call) and norm(c.func) == "sorted" and
                 any(k.arg == "key" and ".origin" in norm(k.value) for k in c.keywords) for c in ast.walk(st.value))]
    ok = bool(lowest) or (bool(adds) and bool(sorts) and max(s.lineno for s in sorts) > max(a.lineno for a in adds))
    ctx.ob("E8", SOC, "SoC.finalize", "CSR regions are ordered by origin after the last add_region", ok,
           "" if ok else f"self.csr.add_region is called at L{sorted(a.lineno for a in adds)} and the regions are "
                         f"{'sorted by origin at L' + str([s.lineno for s in sorts]) if sorts else 'never sorted by origin'} afterwards: the first "
                         f"published region need not be the lowest, get_csr_header subtracts its origin from every address", fin)


def _exporters_by_value(ctx, ex):
    """get_csr_json, get_csr_csv and get_csr_header (with the region-definition and accessor generators it calls) interpreted
    exactly (lxs/pyconst.py) on a model SoC description -- two CSR regions, registers of 1..128 bits, bus words of 8 and 32 bits,
    alignment 32 and 64 -- and the *published text* read back: every register's address in the JSON / CSV / `#define CSR_*_ADDR` /
    accessor bodies must be  region origin + alignment//8 * (bus words of the registers before it), and the generated multi-word
    accessors, executed on a model memory, must compose / split the register most-significant word first at those addresses.
    Returns the names of the generator functions decided this way (they need no shape rule)."""
    import json as _json
    import re as _re
    from .. import pyconst
    from ..pyconst import NS, Native
    funcs = {f.name: f for f in ex.tree.body if isinstance(f, ast.FunctionDef)}
    classes = {c.name: c for c in ex.tree.body if isinstance(c, ast.ClassDef)}
    need = ("get_csr_json", "get_csr_csv", "get_csr_header", "_generate_csr_region_definitions_c", "_generate_csr_region_access_functions_c")
    if any(n not in funcs for n in need):
        return set()
    consts = dict(pyconst.module_consts(ex.tree))
    consts["json"] = NS(dumps=Native(lambda d, indent=None, **k: _json.dumps(d)), loads=Native(lambda t: _json.loads(t)))
    consts["generated_banner"] = Native(lambda *a, **k: "")
    consts["generated_separator"] = Native(lambda *a, **k: "")
    SIZES = {"uart": [1, 8, 9, 32, 33, 64, 17, 96, 5], "timer": [32, 1, 128, 40]}      # registers wider than 64 bits (no C accessor) sit before others
    ORIG = {"uart": 0xf0001000, "timer": 0xf0001800}

    def model(busword):
        out = {}
        for rn, sizes in SIZES.items():
            regs = []
            for i, sz in enumerate(sizes):
                # every element of region.obj occupies its words, whatever its class: statuses at odd positions, one plain CSR and one
                # object of another class among the others
                o = NS(__cls__=("CSRStatus",) if i % 2 else (("CSRStorage",), ("CSR",), ("CSRConstant",), ("CSRStorage",))[(i // 2) % 4], name=f"r{i}", size=sz)
                if i % 2:
                    o["read_only"] = True
                regs.append(o)
            out[rn] = NS(__cls__=("CSRRegion",), origin=ORIG[rn], busword=busword, obj=regs)
        return out

    def expected(busword, alignment):
        exp = {}
        for rn, sizes in SIZES.items():
            a = ORIG[rn]
            for i, sz in enumerate(sizes):
                nw = (sz + busword - 1) // busword
                exp[f"{rn}_r{i}"] = (a, nw)
                a += alignment // 8 * nw
        return exp

    def addr_of(txt, base):
        m_ = _re.fullmatch(r"\(CSR_BASE \+ (0x[0-9a-fA-F]+)L\)", txt.strip())
        if m_:
            return base + int(m_.group(1), 16)
        m_ = _re.fullmatch(r"(0x[0-9a-fA-F]+)L", txt.strip())
        return int(m_.group(1), 16) if m_ else None
    bad = {"json": None, "csv": None, "defs": None, "acc": None}
    n_ev = 0
    try:
        for busword in (8, 32):
            for alignment in (32, 64):
                exp = expected(busword, alignment)
                what = f"bus word {busword}, alignment {alignment}"
                cst = {"CONFIG_CSR_ALIGNMENT": alignment, "CONFIG_CSR_DATA_WIDTH": busword}
                mems_ = {"rom": (0x0, 0x8000, "cached"), "MAIN_RAM": (0x40000000, 0x1234000, "cached"), "csr": (0xf0000000, 0x10000, "io")}
                r = pyconst.call(funcs["get_csr_json"], {"csr_regions": model(busword), "constants": cst,
                                                         "mem_regions": {k_: NS(origin=o_, size=z_, type=t_) for k_, (o_, z_, t_) in mems_.items()}},
                                 consts=consts, funcs=funcs, classes=classes)
                n_ev += 1
                d = _json.loads(r[1]) if r[0] == "return" and isinstance(r[1], str) else {}
                want_mem = {k_.lower(): {"base": o_, "size": z_, "type": t_} for k_, (o_, z_, t_) in mems_.items()}
                if d.get("memories") != want_mem and bad["json"] is None:
                    bad["json"] = f"{what}: memories published as {d.get('memories')}, the regions are {want_mem}"
                if d.get("constants") != {k_.lower(): v_ for k_, v_ in cst.items()} and bad["json"] is None:
                    bad["json"] = f"{what}: constants published as {d.get('constants')}, given {cst}"
                regs = d.get("csr_registers", {})
                for k, (a, nw) in exp.items():
                    g = regs.get(k, {})
                    if (g.get("addr") != a or g.get("size") != nw) and bad["json"] is None:
                        bad["json"] = f"{what}: JSON publishes {k} at {g.get('addr') if not isinstance(g.get('addr'), int) else hex(g.get('addr'))} x{g.get('size')}, the hardware places it at {a:#x} x{nw}"
                if d.get("csr_bases") != ORIG and bad["json"] is None:
                    bad["json"] = f"{what}: csr_bases = {d.get('csr_bases')}"
                r = pyconst.call(funcs["get_csr_csv"], {"csr_regions": model(busword), "constants": cst, "mem_regions": {}}, consts=consts, funcs=funcs, classes=classes)
                n_ev += 1
                rows = {ln.split(",")[1]: ln.split(",") for ln in (r[1] if r[0] == "return" and isinstance(r[1], str) else "").splitlines() if ln.startswith("csr_register,")}
                for k, (a, nw) in exp.items():
                    row = rows.get(k)
                    if (row is None or len(row) < 4 or int(row[2], 16) != a or int(row[3]) != nw) and bad["csv"] is None:
                        bad["csv"] = f"{what}: CSV row for {k} is {row}, expected address {a:#x}, {nw} word(s)"
                for base_arg in (None, ORIG["uart"]):
                    for with_define in (True, False):
                        r = pyconst.call(funcs["get_csr_header"], {"regions": model(busword), "constants": cst, "csr_base": base_arg, "with_csr_base_define": with_define,
                                                                   "with_access_functions": True, "with_fields_access_functions": False},
                                         consts=consts, funcs=funcs, classes=classes)
                        n_ev += 1
                        txt = r[1] if r[0] == "return" and isinstance(r[1], str) else ""
                        base = ORIG["uart"]
                        defs = {m_.group(1).lower(): addr_of(m_.group(2), base) for m_ in _re.finditer(r"#define CSR_(\w+)_ADDR (.*)", txt)}
                        for k, (a, nw) in exp.items():
                            if defs.get(k) != a and bad["defs"] is None:
                                g = defs.get(k)
                                bad["defs"] = f"{what}, csr_base={'first region' if base_arg is None else hex(base_arg)}, base define {with_define}: CSR_{k.upper()}_ADDR = " \
                                              f"{hex(g) if isinstance(g, int) else g}, the hardware places the register at {a:#x}"
                        # accessors: execute the generated bodies on a model memory
                        for k, (a, nw) in exp.items():
                            size_bytes = nw * busword // 8
                            m_r = _re.search(r"static inline (\w+) %s_read\(void\) \{\n(.*?)\n\}" % k, txt, _re.S)
                            if size_bytes > 8:
                                if m_r is not None and bad["acc"] is None:
                                    bad["acc"] = f"{what}: an accessor is generated for the {size_bytes}-byte register {k}"
                                continue
                            stride = alignment // 8
                            addrs = [a + sub * stride for sub in range(nw)]
                            mem = {ad: (0x11 * (j + 1)) & (2**busword - 1) for j, ad in enumerate(addrs)}
                            want = 0
                            for ad in addrs:
                                want = (want << busword) | mem[ad]
                            got = None
                            stray = None
                            if m_r is not None:
                                acc = None
                                okp = True
                                for ln in m_r.group(2).splitlines():
                                    ln = ln.strip()
                                    m1 = _re.fullmatch(r"(?:\w+ r = |r \|= |return )csr_read_simple\((.*)\);", ln)
                                    if m1:
                                        ad = addr_of(m1.group(1), base)
                                        v = mem.get(ad)
                                        if v is None:
                                            okp = False
                                            stray = ad
                                            break
                                        if ln.startswith("return"):
                                            got = v
                                        elif "|=" in ln:
                                            acc |= v
                                        else:
                                            acc = v
                                        continue
                                    m2 = _re.fullmatch(r"r <<= (\d+);", ln)
                                    if m2:
                                        acc <<= int(m2.group(1))
                                        continue
                                    if ln == "return r;":
                                        got = acc
                                        continue
                                    okp = False
                                    break
                                if not okp:
                                    got = None
                            if got != want and bad["acc"] is None:
                                bad["acc"] = f"{what}: {k}_read() returns {hex(got) if isinstance(got, int) else (f'the word at {stray:#x}, which is not one of its own' if isinstance(stray, int) else 'something the reader cannot follow')} on a memory holding " \
                                             f"{[(hex(x), hex(y)) for x, y in mem.items()]}, expected {want:#x} (most significant word at the lowest address)"
                            m_w = _re.search(r"static inline void %s_write\((\w+) v\) \{\n(.*?)\n\}" % k, txt, _re.S)
                            ro = k.split("_r")[1].isdigit() and int(k.split("_r")[1]) % 2 == 1
                            if ro:
                                if m_w is not None and bad["acc"] is None:
                                    bad["acc"] = f"{what}: a write accessor is generated for the read-only register {k}"
                                continue
                            v = 0
                            for j in range(nw):
                                v = (v << busword) | ((0xa1 + j) & (2**busword - 1))
                            wrote = {}
                            okp = m_w is not None
                            for ln in (m_w.group(2).splitlines() if m_w else []):
                                m1 = _re.fullmatch(r"csr_write_simple\(v(?: >> (\d+))?, (.*)\);", ln.strip())
                                if not m1:
                                    okp = False
                                    break
                                wrote[addr_of(m1.group(2), base)] = (v >> int(m1.group(1) or 0)) & (2**busword - 1)
                            wantw = {ad: (v >> ((nw - 1 - j) * busword)) & (2**busword - 1) for j, ad in enumerate(addrs)}
                            if (not okp or wrote != wantw) and bad["acc"] is None:
                                bad["acc"] = f"{what}: {k}_write({v:#x}) stores { {hex(x) if isinstance(x, int) else x: hex(y) for x, y in wrote.items()} }, expected " \
                                             f"{ {hex(x): hex(y) for x, y in wantw.items()} }"
    except pyconst.Unknowable as ex_:
        # the generators are written in a way the interpreter does not follow: the shape rules stay in charge
        ctx.analysed["paths"] += n_ev
        return set()
    ctx.analysed["paths"] += n_ev
    fj = funcs["get_csr_json"]
    ctx.ob("E1", EXP, "get_csr_json", "published text: every register at region origin + alignment//8 * words before it (JSON)", bad["json"] is None, bad["json"] or "", fj)
    ctx.ob("E1", EXP, "get_csr_csv", "published text: every register at region origin + alignment//8 * words before it (CSV)", bad["csv"] is None, bad["csv"] or "", funcs["get_csr_csv"])
    ctx.ob("E1", EXP, "get_csr_header", "published text: every CSR_*_ADDR at region origin + alignment//8 * words before it (C header, 4 base settings)",
           bad["defs"] is None, bad["defs"] or "", funcs["get_csr_header"])
    ctx.ob("E5", EXP, "get_csr_header", "published text: generated accessors executed on a model memory read / write the register MSW first at its words",
           bad["acc"] is None, bad["acc"] or "", funcs["get_csr_header"])
    ctx.ob("E1", EXP, "<exporters>", "interpreted generator runs:present", n_ev >= 24, f"{n_ev} runs", 0)
    return {"get_csr_json", "get_csr_header", "_generate_csr_region_definitions_c", "_generate_csr_region_access_functions_c"}


def run(ctx):
    ctx.rule("E1", "every CSR-region walker iterates region.obj unfiltered and advances the running address exactly once per "
                   "register by alignment//8 * ceil(size/busword), after having used it (decided on the published text where the generators can be interpreted)", min_sites=8)
    ctx.rule("E2", "one bytes-per-CSR-word factor: bus window 2**(aw+2), location count alignment//8*2**aw//paging, bank "
                   "decode paging//4, region origin csr_base + paging*page (banks and memories), exporters alignment//8",
             min_sites=8)
    ctx.rule("E3", "every parameter that changes the hardware decode (data width, alignment, paging, address width, ordering) "
                   "reaches the export side", min_sites=5)
    ctx.rule("E4", "memory images: get_mem_data interpreted (lxs/pyconst.py) on a model file system -- 12 region sets x data width 32/64 x "
                   "both endiannesses -- and compared word by word with the image the statement describes: byte order per 32-bit sub-word, "
                   "index (base-offset)//bytes_per_data + i, zero-padded tail, sub-word k at bit 32k", min_sites=5)
    ctx.rule("E6", "CSR memory window (csr_bus.SRAM): the sub-word written at index i lands in the chunk of the memory word that the "
                   "read-side chooser returns for index i (writer's and reader's order agree); last sub-word triggers the write; "
                   "memory address = bus address above the sub-word bits", min_sites=6)
    ctx.rule("E7", "a user-fixed CSR location / interrupt number is accepted only inside range(n_locs): the published origin csr_base + "
                   "paging*n stays inside the window the CSR bridge decodes; published memory regions are checked for overlap on the windows "
                   "their decoders match (size_pow2), so that an address selects one slave only (same obligations as C13.A3 / A2)", min_sites=9)
    ctx.rule("E8", "CSR base agreement: the C header takes the origin of the *first* published CSR region as the base all offsets are "
                   "relative to, so SoC.finalize leaves the CSR regions ordered by origin after the last region has been added "
                   "(otherwise a CSR memory mapped below the first bank shifts every address in csr.h)", min_sites=2)
    ctx.rule("E5", "generated multi-word accessors: read and write use the same address expression per word and the same "
                   "MSW-first order", min_sites=4)

    ex = ctx.mod(EXP)
    # ============================================================ E1
    forms = {}
    decided = _exporters_by_value(ctx, ex)
    for fname, var in WALKERS:
        if fname in decided:
            continue            # decided on the published text itself (below): no shape rule on the loop
        fn = ex.func(fname)
        ctx.analysed["functions"].add(f"{EXP}::{fname}")
        loops = [n for n in walk_no_nested(fn) if isinstance(n, ast.For) and norm(n.iter) == "region.obj" and
                 any(isinstance(x, ast.AugAssign) and norm(x.target) == var for x in ast.walk(n))]
        ctx.ob("E1", EXP, fname, "register loop over region.obj:present", len(loops) == 1,
               f"expected one address-advancing `for csr in region.obj`, found {len(loops)}", fn)
        if len(loops) != 1:
            continue
        lp = loops[0]
        defs = {}
        for n in ast.walk(lp):
            if isinstance(n, ast.Assign) and isinstance(n.targets[0], ast.Name):
                defs[n.targets[0].id] = n.value
        paths = _loop_paths(lp)
        ctx.analysed["paths"] += len(paths)
        bad = None
        form = None
        for p in paths:
            advs = [e[1] for e in p.ev if e[0] == "stmt" and isinstance(e[1], ast.AugAssign) and norm(e[1].target) == var]
            if p.end == "raise":
                continue
            if len(advs) != 1:
                bad = f"a path through the loop body advances `{var}` {len(advs)} times ({p.show()[-120:]}): registers after it " \
                      f"are published at the wrong address"
                break
            if not isinstance(advs[0].op, ast.Add):
                bad = "the running address is not advanced by +="
                break
            f = _stride_form(advs[0].value, defs)
            if f is None:
                bad = f"stride `{norm(advs[0].value)}` is not alignment//8 * words"
                break
            form = f
        ctx.ob("E1", EXP, fname, "address advanced exactly once per register", bad is None, bad or "", lp)
        if form:
            forms[fname] = form
            ok = form[1] == "(csr.size + region.busword - 1) // region.busword"
            ctx.ob("E1", EXP, fname, "words per register = ceil(size/busword)", ok,
                   "" if ok else f"words = {form[1]}", lp)
        # use before advance: the address handed out for the register is read before the += (statement order)
        adv_idx = [k for k, st in enumerate(lp.body) if any(isinstance(n, ast.AugAssign) and norm(n.target) == var for n in ast.walk(st))]
        if fname != "_generate_csr_fields_access_functions_c" and adv_idx:
            def loads(st):
                return any(isinstance(n, ast.Name) and n.id == var and isinstance(n.ctx, ast.Load) for n in ast.walk(st))
            used_before = any(loads(st) for st in lp.body[:adv_idx[0]])
            used_after = any(loads(st) for st in lp.body[adv_idx[-1] + 1:])
            ctx.ob("E1", EXP, fname, "address used before it is advanced", used_before and not used_after,
                   "" if (used_before and not used_after) else f"`{var}` is read after the += (the next register's address is published) "
                                                               f"or never read", lp)
        # no filter: the loop body has no `continue` and the advance is not under an `if`
        conts = [n for n in ast.walk(lp) if isinstance(n, ast.Continue)]
        ctx.ob("E1", EXP, fname, "no register skipped", not conts, "" if not conts else "a `continue` skips the address advance", lp)
    ok = len(set(forms.values())) <= 1 and len(forms) == len([w for w in WALKERS if w[0] not in decided])
    ctx.ob("E1", EXP, "<walkers>", "all walkers use one stride form", ok, "" if ok else f"stride forms differ: {forms}")
    # initial value of the running address
    fj = ex.func("get_csr_json")
    if "get_csr_json" not in decided:
        ok = any(isinstance(n, ast.Assign) and norm(n.targets[0]) == "region_origin" and norm(n.value) == "region.origin" for n in ast.walk(fj))
        ctx.ob("E1", EXP, "get_csr_json", "running address starts at region.origin", ok, "" if ok else "region_origin is not initialised from region.origin", fj)
        ok = any(isinstance(n, ast.Assign) and isinstance(n.targets[0], ast.Subscript) and norm(n.targets[0]) == "d['csr_bases'][name]" and
                 norm(n.value) == "region.origin" for n in ast.walk(fj))
        ctx.ob("E1", EXP, "get_csr_json", "csr_bases[name] = region.origin", ok, "" if ok else "csr base is not region.origin", fj)
    fh = ex.func("get_csr_header")
    if "get_csr_header" not in decided:
        offs = [norm(n.value) for n in ast.walk(fh) if isinstance(n, ast.Assign) and norm(n.targets[0]) == "origin"]
        ok = len(offs) == 3 and set(offs) == {"region.origin - _csr_base"}
        ctx.ob("E1", EXP, "get_csr_header", "every section starts each region at region.origin - csr base", ok, "" if ok else f"{offs}", fh)
    # doc/csr.py (feeds SVD): one word = 4 bytes, accepted because supported_alignment == [32]
    soc = ctx.mod(SOC)
    sa = None
    for st in soc.cls("SoCCSRHandler").body:
        if isinstance(st, ast.Assign) and norm(st.targets[0]) == "supported_alignment":
            sa = const_fold(st.value)
    ok = sa == [32]
    ctx.ob("E1", SOC, "SoCCSRHandler", "supported_alignment == [32] (justifies the hard-coded +4 of doc/SVD)", ok,
           "" if ok else f"supported_alignment = {sa}: doc/csr.py and get_csr_svd advance by a literal 4 bytes per word")
    dm = ctx.mod(DOC)
    dc = dm.method("DocumentedCSRRegion", "document_csr")
    advs = [n for n in ast.walk(dc) if isinstance(n, ast.AugAssign) and norm(n.target) == "self.current_address"]
    ok = len(advs) == 2 and all(norm(a.value) == "4" and isinstance(a.op, ast.Add) for a in advs)
    ctx.ob("E1", DOC, "DocumentedCSRRegion.document_csr", "one 4-byte step per bus word", ok,
           "" if ok else f"advances: {[norm(a.value) for a in advs]}", dc)
    sv = ex.func("get_csr_svd")
    adv = [n for n in walk_no_nested(sv) if isinstance(n, ast.Assign) and norm(n.targets[0]) == "csr_address" and
           norm(n.value) in ("csr_address + 4",)]
    ok = len(adv) == 2
    ctx.ob("E1", EXP, "get_csr_svd", "one 4-byte step per emitted register", ok, "" if ok else f"{len(adv)} advance sites", sv)

    # ============================================================ E2
    csr_bus_window(ctx, "E2")
    from ..share import lift
    lift(ctx, "c06", [("W4", "SoCRegion.decoder", "")], "E13",
         "a published region answers at its published addresses only: SoCRegion.decoder compares the word address above one k with origin >> k, "
         "origin and size converted from bytes to bus words by the same amount for every bus width (C06.W4 decides the same construct)", min_sites=2)
    fb = soc.method("SoC", "add_csr_bridge")
    ok = any(isinstance(n, ast.Call) and norm(n.func) == "SoCRegion" and any(k.arg == "size" and norm(k.value) == "csr_size" for k in n.keywords)
             for n in ast.walk(fb))
    ctx.ob("E2", SOC, "SoC.add_csr_bridge", "the window size is the region size handed to the bus", ok, "" if ok else "csr_size not used", fb)
    init = soc.method("SoCCSRHandler", "__init__")
    nl = [norm(k.value) for n in ast.walk(init) if isinstance(n, ast.Call) and norm(n.func) == "SoCLocHandler.__init__"
          for k in n.keywords if k.arg == "n_locs"]
    ok = nl == ["alignment // 8 * 2 ** address_width // paging"]
    ctx.ob("E2", SOC, "SoCCSRHandler.__init__", "n_locs = alignment//8 * 2**aw // paging", ok, "" if ok else f"n_locs = {nl}", init)
    if ok:
        # constant folded with alignment = 32: bytes of the window / paging
        v = const_fold(ast.parse("alignment // 8 * 2 ** address_width // paging", mode="eval").body,
                       {"alignment": 32, "address_width": 14, "paging": 0x800})
        w = (2 ** (14 + 2)) // 0x800
        ctx.ob("E2", SOC, "SoCCSRHandler.__init__", "n_locs * paging == bus window (folded, alignment=32)", v == w, f"{v} != {w}", init)
    fin = soc.method("SoC", "finalize")
    regs = [n for n in ast.walk(fin) if isinstance(n, ast.Call) and norm(n.func) == "SoCCSRRegion"]
    ctx.ob("E2", SOC, "SoC.finalize", "CSR regions recorded:present", len(regs) == 2, f"{len(regs)} SoCCSRRegion sites", fin)
    origins = [norm(k.value) for c in regs for k in c.keywords if k.arg == "origin"]
    ok = len(origins) == 2 and origins[0] == origins[1] == "self.bus.regions['csr'].origin + self.csr.paging * mapaddr"
    ctx.ob("E2", SOC, "SoC.finalize", "origin = csr_base + paging*page for banks and memories (twin)", ok, "" if ok else f"{origins}", fin)
    bw = [norm(k.value) for c in regs for k in c.keywords if k.arg == "busword"]
    ok = bw == ["self.csr.data_width", "self.csr.data_width"]
    ctx.ob("E2", SOC, "SoC.finalize", "busword = csr data width", ok, "" if ok else f"{bw}", fin)
    cb = ctx.mod(CSRBUS)
    bank = cb.method("CSRBank", "__init__")
    ap = [norm(n.value) for n in ast.walk(bank) if isinstance(n, ast.Assign) and norm(n.targets[0]) == "aligned_paging"]
    ok = ap == ["paging // 4"]
    ctx.ob("E2", CSRBUS, "CSRBank.__init__", "bank decode: paging // 4 words per page", ok, "" if ok else f"aligned_paging = {ap}", bank)
    # the page index published (mapaddr) is the one decoded by the bank (address=mapaddr) -- CSRBankArray.scan
    scan = cb.method("CSRBankArray", "scan")
    calls = [n for n in ast.walk(scan) if isinstance(n, ast.Call) and norm(n.func) in ("CSRBank", "SRAM")]
    ok = len(calls) == 2 and all((any(k.arg == "address" and norm(k.value) == "mapaddr" for k in c.keywords) or
                                  (len(c.args) >= 2 and norm(c.args[1]) == "mapaddr")) and
                                 any(k.arg == "paging" and norm(k.value) == "self.paging" for k in c.keywords) for c in calls)
    ctx.ob("E2", CSRBUS, "CSRBankArray.scan", "bank/memory decode page = published mapaddr, same paging", ok,
           "" if ok else f"{[norm(c) for c in calls]}", scan)
    rec = [norm(n) for n in ast.walk(scan) if isinstance(n, ast.Call) and norm(n.func) in ("self.banks.append", "self.srams.append")]
    ok = len(rec) == 2 and all("mapaddr" in r for r in rec)
    ctx.ob("E2", CSRBUS, "CSRBankArray.scan", "published tuples carry mapaddr", ok, "" if ok else f"{rec}", scan)

    # ============================================================ E11 bus stride of one CSR word, for every supported CSR data width
    ctx.rule("E11", "a CSR word occupies alignment//8 bytes of the bus address space for every supported CSR data width: the bridge maps "
                    "one word of its bus-side interface to one CSR word, so that interface must be alignment bits wide (the bus adapter "
                    "in front of a narrower bridge spreads one CSR word per data_width//8 bytes, the exporters publish alignment//8)",
             min_sites=2)
    bridge_dw = None
    for n in ast.walk(fb):
        if isinstance(n, ast.Call) and norm(n.func) == "csr_bridge_cls" and n.args and isinstance(n.args[0], ast.Call) and \
                norm(n.args[0].func) == "bus_bridge_cls":
            for k in n.args[0].keywords:
                if k.arg == "data_width":
                    bridge_dw = k.value
    if isinstance(bridge_dw, ast.Name):
        nm_ = bridge_dw.id
        for n in ast.walk(fb):
            if isinstance(n, ast.Assign) and len(n.targets) == 1 and norm(n.targets[0]) == nm_:
                bridge_dw = n.value
    ctx.need(bridge_dw is not None, "add_csr_bridge: the bus-side interface of the bridge is no longer built with an explicit data_width")
    hcls = soc.cls("SoCCSRHandler")
    sup = {}
    for st in hcls.body:
        if isinstance(st, ast.Assign) and norm(st.targets[0]) in ("supported_data_width", "supported_alignment"):
            try:
                sup[norm(st.targets[0])] = list(const_fold(st.value))
            except (ValueError, TypeError):
                pass
    ctx.need(set(sup) == {"supported_data_width", "supported_alignment"}, "SoCCSRHandler: supported_data_width / supported_alignment are no longer literal lists")
    from .. import pyconst as _pc
    for cdw in sup["supported_data_width"]:
        bad = None
        for al in sup["supported_alignment"]:
            for bus_dw in (32, 64):
                env = {"self": _pc.NS(csr=_pc.NS(data_width=cdw, alignment=al), bus=_pc.NS(data_width=bus_dw))}
                try:
                    w = _pc.Interp(env).ev(bridge_dw)
                except Exception as ex:     # noqa
                    w = f"? ({ex})"
                if w != al and bad is None:
                    bad = (f"csr data width {cdw}, alignment {al}, bus {bus_dw} bits: the bridge's bus side is built {w} bits wide, register k "
                           f"answers at byte offset k*{w // 8 if isinstance(w, int) else '?'} while the exporters publish k*{al // 8}")
        ctx.ob("E11", SOC, "SoC.add_csr_bridge", f"csr data width {cdw}: one CSR word per alignment//8 bytes on the bus", bad is None, bad or "", fb)
    # ============================================================ E3
    # alignment: exported constant read by the exporters
    cfgs = [norm(n) for n in ast.walk(fb) if isinstance(n, ast.Call) and norm(n.func) == "self.add_config"]
    ok = "self.add_config('CSR_ALIGNMENT', self.csr.alignment)" in cfgs and "self.add_config('CSR_DATA_WIDTH', self.csr.data_width)" in cfgs
    ctx.ob("E3", SOC, "SoC.add_csr_bridge", "alignment and data width exported as CONFIG_ constants", ok, "" if ok else f"{cfgs}", fb)
    for fname in ("get_csr_json", "get_csr_header"):
        fn = ex.func(fname)
        ok = any(isinstance(n, ast.Assign) and norm(n.targets[0]) == "alignment" and
                 norm(n.value) == "constants.get('CONFIG_CSR_ALIGNMENT', 32)" for n in ast.walk(fn))
        ctx.ob("E3", EXP, fname, "alignment read from CONFIG_CSR_ALIGNMENT", ok, "" if ok else "alignment not taken from the SoC constants", fn)
    # data width: through region.busword (checked in E2); paging/address width: through region.origin (E2)
    # ordering: must reach the export side somehow
    mentions = [n for n in ast.walk(ex.tree) if (isinstance(n, ast.Name) and "ordering" in n.id.lower()) or
                (isinstance(n, ast.Attribute) and "ordering" in n.attr.lower()) or
                (isinstance(n, ast.Constant) and isinstance(n.value, str) and "ORDERING" in n.value.upper() and "CSR" in n.value.upper())]
    exported = any("ORDERING" in c.upper() for c in cfgs) or \
        any(isinstance(n, ast.Call) and norm(n.func) in ("self.add_config", "self.add_constant") and n.args and
            isinstance(n.args[0], ast.Constant) and "ORDERING" in str(n.args[0].value).upper() for n in ast.walk(soc.tree))
    region_has = any(isinstance(n, ast.Assign) and norm(n.targets[0]) == "self.ordering" for n in ast.walk(soc.cls("SoCCSRRegion")))
    ok = bool(mentions) and (exported or region_has)
    ctx.ob("E3", EXP, "exporters", "csr_ordering reaches the exporters", ok,
           "" if ok else "the CSR word ordering (SoCCSRHandler.ordering -> CSRBankArray) changes which address holds the most significant "
                         "word, but neither a CONFIG constant nor the region carries it and export.py never reads it: generated multi-word "
                         "accessors always compose MSW-first (wrong for csr_ordering='little')")
    # the hardware side does receive it
    ba = [n for n in ast.walk(fin) if isinstance(n, ast.Call) and norm(n.func) == "csr_bus.CSRBankArray"]
    ok = len(ba) == 1 and any(k.arg == "ordering" and norm(k.value) == "self.csr.ordering" for k in ba[0].keywords) and \
        any(k.arg == "paging" and norm(k.value) == "self.csr.paging" for k in ba[0].keywords) and \
        any(k.arg == "data_width" and norm(k.value) == "self.csr.data_width" for k in ba[0].keywords)
    ctx.ob("E3", SOC, "SoC.finalize", "bank array built with the handler's data width, paging and ordering", ok,
           "" if ok else "CSRBankArray parameters do not come from the CSR handler", fin)

    # ============================================================ E4 (by value: get_mem_data interpreted on a model file system)
    import struct as _struct
    import math as _math
    from .. import pyconst as _pc4
    cm = ctx.mod(COMMON)
    gm = cm.func("get_mem_data")
    funcs4 = {f.name: f for f in cm.tree.body if isinstance(f, ast.FunctionDef)}
    fs = {"a.bin": bytes(range(1, 11)), "b.bin": bytes([0xaa, 0xbb, 0xcc]), "c.bin": bytes(range(0x80, 0x80 + 17)), "d.bin": bytes([0x5a] * 8)}
    bad = {"order": None, "index": None, "pad": None, "sub": None, "len": None}
    n_ev = 0
    unknow = []
    for dw in (32, 64):
        for endian in ("little", "big"):
            for offset, regions in ((0, {"a.bin": "0x0", "b.bin": "0x10"}), (0x20, {"c.bin": "0x20", "d.bin": "0x40"}), (0, {"d.bin": "0x8"})):
                def mk_open(name, mode="r"):
                    pos = [0]

                    def read(n):
                        d = fs[name][pos[0]:pos[0] + n]
                        pos[0] += n
                        return d
                    return _pc4.NS(read=_pc4.Native(read), close=_pc4.Native(lambda: None))
                consts4 = {"os": _pc4.NS(path=_pc4.NS(isfile=_pc4.Native(lambda f: f in fs), getsize=_pc4.Native(lambda f: len(fs[f])))),
                           "open": _pc4.Native(mk_open), "struct": _pc4.NS(unpack=_pc4.Native(_struct.unpack)),
                           "math": _pc4.NS(ceil=_pc4.Native(_math.ceil))}
                try:
                    kind, got = _pc4.call(gm, {"filename_or_regions": dict(regions), "data_width": dw, "endianness": endian, "mem_size": None,
                                               "offset": offset}, consts=consts4, funcs=funcs4)
                except Exception as ex4:     # noqa
                    unknow.append(f"data_width={dw}, {endian}, offset={offset:#x}, regions {regions}: {type(ex4).__name__}: {ex4}")
                    n_ev += 1
                    continue
                n_ev += 1
                tag = f"data_width={dw}, {endian}, offset={offset:#x}, regions {regions}"
                if kind != "return" or not isinstance(got, list):
                    bad["len"] = bad["len"] or f"{tag}: {kind}"
                    continue
                bpd = dw // 8
                size = max(int(b_, 16) + len(fs[f_]) - offset for f_, b_ in regions.items())
                want = [0] * _math.ceil(size / bpd)
                first_of = {}
                for f_, b_ in regions.items():
                    data_ = fs[f_]
                    for i in range(0, len(data_), bpd):
                        chunk = data_[i:i + bpd] + bytes(bpd - len(data_[i:i + bpd]))
                        v = 0
                        for k in range(bpd // 4):
                            v |= int.from_bytes(chunk[4 * k:4 * k + 4], "little" if endian == "little" else "big") << (32 * k)
                        want[(int(b_, 16) - offset) // bpd + i // bpd] = v
                        first_of.setdefault(f_, (int(b_, 16) - offset) // bpd)
                if len(got) != len(want):
                    bad["len"] = bad["len"] or f"{tag}: image of {len(got)} words, expected {len(want)}"
                    continue
                if got == want:
                    continue
                k = next(i for i in range(len(want)) if got[i] != want[i])
                msg = f"{tag}: word {k} is {got[k]:#x}, expected {want[k]:#x}"
                if sorted(got) == sorted(want):
                    bad["index"] = bad["index"] or msg + " (the words are there but at other indices)"
                elif want[k] and got[k] == int.from_bytes(want[k].to_bytes(bpd, "little"), "big"):
                    bad["order"] = bad["order"] or msg + " (byte order)"
                elif k in [first_of[f_] + (len(fs[f_]) - 1) // bpd for f_ in regions] and len(fs[[f_ for f_ in regions][0]]) % bpd:
                    bad["pad"] = bad["pad"] or msg + " (short tail of a file)"
                else:
                    bad["sub"] = bad["sub"] or msg
    # a run the interpreter cannot finish on some inputs only (a store outside the image, ...) is a misplaced word, not an analysis limit
    ctx.need(len(unknow) < n_ev, f"get_mem_data cannot be interpreted on a model file system ({unknow[0] if unknow else ''})")
    if unknow:
        bad["index"] = bad["index"] or f"{unknow[0]}: the image cannot be built (a word falls outside it)"
    ctx.analysed["paths"] += n_ev
    ctx.ob("E4", COMMON, "get_mem_data", "byte order follows the stated endianness (little: first byte = LSB of each 32-bit sub-word)", bad["order"] is None,
           bad["order"] or "", gm)
    ctx.ob("E4", COMMON, "get_mem_data", "word index = (base - offset)//bytes_per_data + i", bad["index"] is None, bad["index"] or "", gm)
    ctx.ob("E4", COMMON, "get_mem_data", "image length = ceil(extent / bytes per word)", bad["len"] is None, bad["len"] or "", gm)
    ctx.ob("E4", COMMON, "get_mem_data", "short tail zero-padded to a full word", bad["pad"] is None, bad["pad"] or "", gm)
    ctx.ob("E4", COMMON, "get_mem_data", "32-bit sub-word k placed at bit 32k from bytes 4k..4k+3", bad["sub"] is None, bad["sub"] or "", gm)

    # ============================================================ E5
    rd = ex.func("_generate_csr_read_function_c")
    wr = ex.func("_generate_csr_write_function_c")

    def addr_args(fn):
        out = set()
        for n in ast.walk(fn):
            if isinstance(n, ast.Call) and norm(n.func) == "_get_csr_addr" and len(n.args) >= 2:
                out.add(norm(n.args[1]))
        return out
    ra, wa = addr_args(rd), addr_args(wr)
    ok = "reg_base + sub * stride" in ra and wa == {"reg_base + sub * stride"} and ra <= {"reg_base", "reg_base + sub * stride"}
    ctx.ob("E5", EXP, "_generate_csr_read/write_function_c", "word `sub` lives at reg_base + sub*stride in both", ok,
           "" if ok else f"read addresses {ra}, write addresses {wa}")
    sh = [norm(n.value) for n in ast.walk(wr) if isinstance(n, ast.Assign) and norm(n.targets[0]) == "shift"]
    ok = sh == ["(nwords - sub - 1) * busword"]
    ctx.ob("E5", EXP, "_generate_csr_write_function_c", "word `sub` carries bits (nwords-sub-1)*busword (MSW first)", ok, "" if ok else f"shift = {sh}", wr)
    fors = [n for n in ast.walk(rd) if isinstance(n, ast.For)]
    ok = len(fors) == 1 and norm(fors[0].iter) == "range(1, nwords)"
    body = [norm(x) for x in (fors[0].body if fors else [])]
    ok = ok and len(body) == 2 and "r <<= {busword}" in body[0] and "r |= csr_read_simple" in body[1]
    ctx.ob("E5", EXP, "_generate_csr_read_function_c", "read shifts the accumulator left by busword before OR-ing the next word (MSW first)",
           ok, "" if ok else f"{body}", rd)
    st = ex.func("_determine_ctype_and_stride_c")
    ok = any(isinstance(n, ast.Assign) and norm(n.targets[0]) == "stride" and norm(n.value) == "alignment // 8" for n in ast.walk(st))
    ctx.ob("E5", EXP, "_determine_ctype_and_stride_c", "stride = alignment // 8", ok, "" if ok else "stride changed", st)
    # the accessor's C type holds the whole register (interpreted for every size 1..9 bytes, alignment 32 / 64): a narrower
    # accumulator drops the most significant words on read and writes them as 0
    from .. import pyconst
    bad = None
    for size in range(1, 10):
        for al in (32, 64):
            try:
                got = pyconst.call(st, {"size": size, "alignment": al})
            except pyconst.Unknowable as ex_:
                ctx.need(False, f"_determine_ctype_and_stride_c cannot be interpreted ({ex_})")
            r = got[1] if got[0] == "return" else None
            ct = r[0] if isinstance(r, tuple) and len(r) == 2 else "?"
            bits = {"uint8_t": 8, "uint16_t": 16, "uint32_t": 32, "uint64_t": 64}.get(ct)
            if size > 8:
                if ct is not None and bad is None:
                    bad = f"size {size} bytes: type `{ct}` although no C integer holds it"
            elif (bits is None or bits < 8 * size) and bad is None:
                bad = f"a register of {size} bytes is accessed through `{ct}` ({bits or '?'} bits): the upper {8 * size - (bits or 0)} bits are lost"
    ctx.ob("E5", EXP, "_determine_ctype_and_stride_c", "accessor type is at least as wide as the register (sizes 1..8 bytes), none above", bad is None,
           bad or "", st)

    # ============================================================ E6
    _e6(ctx)

    # ============================================================ E7
    from .c13 import loc_bound, overlap_window
    loc_bound(ctx, "E7")
    overlap_window(ctx, "E7")
    _e8(ctx)
    _e10(ctx)
    _e12(ctx)
    # the generated multi-word accessors write word by word in ascending address order: the hardware must apply the write with the
    # word at the last address (strobes of CSRStorage / writable CSRStatus follow that word) -- shared with C12.R2
    from .c12 import last_word_strobes, atomic_backstore
    last_word_strobes(ctx, "E5")
    atomic_backstore(ctx, "E5")


def _seq(node, env, lists):
    """Order-abstract value of a list expression: [('one', text) | ('asc', L) | ('desc', L)], None if not understood."""
    if isinstance(node, ast.Name):
        if node.id in lists:
            return [("asc", node.id)]
        if node.id in env:
            return _seq(env[node.id], env, lists)
        return None
    if isinstance(node, (ast.List, ast.Tuple)):
        out = []
        for e in node.elts:
            if isinstance(e, ast.Starred):
                v = _seq(e.value, env, lists)
                if v is None:
                    return None
                out += v
            else:
                out.append(("one", norm(e)))
        return out
    if isinstance(node, ast.BinOp) and isinstance(node.op, ast.Add):
        a, b = _seq(node.left, env, lists), _seq(node.right, env, lists)
        return None if a is None or b is None else a + b
    if isinstance(node, ast.Call) and isinstance(node.func, ast.Name) and len(node.args) == 1 and not node.keywords:
        v = _seq(node.args[0], env, lists)
        if v is None:
            return None
        if node.func.id in ("list", "tuple"):
            return v
        if node.func.id == "reversed":
            return [(dict(asc="desc", desc="asc", one="one")[k], x) for k, x in reversed(v)]
    if isinstance(node, ast.Subscript) and norm(node.slice) == "::-1":
        v = _seq(node.value, env, lists)
        return None if v is None else [(dict(asc="desc", desc="asc", one="one")[k], x) for k, x in reversed(v)]
    return None


def _e6(ctx):
    m = ctx.mod(CSRBUS)
    init = m.method("SRAM", "__init__")
    ctx.analysed["functions"].add(f"{CSRBUS}::SRAM.__init__")
    # ---- reader
    ch = [n for n in ast.walk(init) if isinstance(n, ast.Call) and norm(n.func) == "chooser"]
    ctx.need(len(ch) == 1, "E6: csr_bus.SRAM no longer reads multi-word memories through one chooser() call")
    kw = {k.arg: k.value for k in ch[0].keywords}
    args = [norm(a) for a in ch[0].args]
    try:
        rev = bool(const_fold(kw["reverse"])) if "reverse" in kw else False
    except ValueError:
        ctx.need(False, "E6: chooser(reverse=...) is not a literal")
    ok = args[:3] == ["word_expanded", "word_index", "self.bus.dat_r"] and norm(kw.get("n", ast.Constant(value=None))) == "csrw_per_memw"
    ctx.ob("E6", CSRBUS, "SRAM", "read: chooser(memory word, registered sub-word index, bus.dat_r, n=sub-words)", ok,
           "" if ok else f"chooser({args}, {[(k, norm(v)) for k, v in kw.items()]})", ch[0])
    env = {}
    for n in ast.walk(init):
        if isinstance(n, ast.Assign) and len(n.targets) == 1 and isinstance(n.targets[0], ast.Name):
            env.setdefault(n.targets[0].id, []).append(n.value)
    env1 = {k: v[0] for k, v in env.items() if len(v) == 1}
    eqs = {}
    for n in ast.walk(init):
        if isinstance(n, ast.Call) and isinstance(n.func, ast.Attribute) and n.func.attr == "eq" and len(n.args) == 1:
            eqs.setdefault(norm(n.func.value), []).append(n.args[0])
    ok = [norm(x) for x in eqs.get("word_index", [])] == ["self.bus.adr[:word_bits]"] and \
        [norm(x) for x in eqs.get("word_expanded", [])] == ["port.dat_r"]
    ctx.ob("E6", CSRBUS, "SRAM", "read: sub-word index = bus.adr[:word_bits] (registered with the memory's latency), word = port.dat_r", ok,
           "" if ok else f"word_index <- {[norm(x) for x in eqs.get('word_index', [])]}, word_expanded <- {[norm(x) for x in eqs.get('word_expanded', [])]}", init)
    # ---- writer
    loops = [n for n in ast.walk(init) if isinstance(n, ast.For) and norm(n.iter) in ("range(csrw_per_memw - 1)", "range(0, csrw_per_memw - 1)")]
    ctx.need(len(loops) == 1 and isinstance(loops[0].target, ast.Name), "E6: csr_bus.SRAM write path: loop over the csrw_per_memw-1 latched sub-words not found")
    lp = loops[0]
    iv = lp.target.id
    app = [n for n in ast.walk(lp) if isinstance(n, ast.Call) and isinstance(n.func, ast.Attribute) and n.func.attr == "append" and
           isinstance(n.func.value, ast.Name) and len(n.args) == 1 and isinstance(n.args[0], ast.Name)]
    ctx.need(len(app) == 1, "E6: latched sub-words are not collected with one list.append in the loop")
    L, reg = app[0].func.value.id, app[0].args[0].id
    latch = [n for n in ast.walk(lp) if isinstance(n, ast.Call) and norm(n.func) == "If" and
             any(isinstance(a, ast.Call) and norm(a.func) == f"{reg}.eq" and norm(a.args[0]) == "self.bus.dat_w" for a in n.args[1:])]
    from .. import names as _names
    known_locals = _names.recorded(CSRBUS, "SRAM")

    def conj(e):
        if isinstance(e, ast.BinOp) and isinstance(e.op, ast.BitAnd):
            return conj(e.left) + conj(e.right)
        if isinstance(e, ast.Name) and isinstance(env1.get(e.id), (ast.BinOp, ast.Compare)):     # a named sub-condition
            return conj(env1[e.id])
        if isinstance(e, ast.Name) and e.id not in known_locals and isinstance(env1.get(e.id), ast.Call) and \
                norm(env1[e.id].func) == "Signal" and len(eqs.get(e.id, [])) == 1:              # ... as a new 1-bit comb signal
            return conj(eqs[e.id][0])
        return [norm(e)]
    ok = len(latch) == 1 and sorted(conj(latch[0].args[0])) == sorted(["sel", "self.bus.we", f"self.bus.adr[:word_bits] == {iv}"])
    ctx.ob("E6", CSRBUS, "SRAM", f"write: sub-word i is latched from bus.dat_w when selected, we and adr[:word_bits] == i", ok,
           "" if ok else f"{[norm(x.args[0]) for x in latch]}", lp)
    dw = [x for x in eqs.get("port.dat_w", []) if isinstance(x, ast.Call) and norm(x.func) == "Cat"]
    ctx.need(len(dw) == 1, "E6: port.dat_w is not driven from one Cat(...) of sub-words")
    seq = _seq(ast.List(elts=list(dw[0].args)), env1, {L})
    ctx.need(seq is not None, f"E6: cannot derive the chunk order of `{norm(dw[0])}`")
    # chunk k (from the LSB) of the written memory word; reader returns chunk n-1-j (reverse) or j for sub-word index j
    big = seq == [("one", "self.bus.dat_w"), ("desc", L)]
    little = seq == [("asc", L), ("one", "self.bus.dat_w")]
    ok = (big and rev) or (little and not rev)
    ctx.ob("E6", CSRBUS, "SRAM", "write chunk order = read chunk order", ok,
           "" if ok else f"written word = Cat{seq} (LSB first; {L}[i] is the sub-word written at index i, bus.dat_w the last one, index n-1) but the "
                         f"reader returns chunk {'n-1-j' if rev else 'j'} for index j: sub-words come back permuted", dw[0])
    we = [norm(x) for x in eqs.get("port.we", [])]
    ok = any(sorted(conj(x)) == sorted(["sel", "self.bus.we", "self.bus.adr[:word_bits] == csrw_per_memw - 1"]) for x in eqs.get("port.we", []))
    ctx.ob("E6", CSRBUS, "SRAM", "write: the memory word is written with the last sub-word (index n-1)", ok, "" if ok else f"port.we <- {we}", init)
    ad = [norm(x) for x in eqs.get("port.adr", [])]
    ok = len(ad) == 2 and all(x.startswith("self.bus.adr[word_bits:word_bits + len(port.adr)") or
                              x.startswith("Cat(self.bus.adr[word_bits:word_bits + len(port.adr)") for x in ad)
    ctx.ob("E6", CSRBUS, "SRAM", "memory address = bus.adr[word_bits:...] (sub-word bits stripped)", ok, "" if ok else f"port.adr <- {ad}", init)
    _axi_lite_port_address(ctx)


def _axi_lite_port_address(ctx, rid="E9"):
    """AXI-Lite SoCs reach the CSR bus / memories through axi_lite_to_simple: the port is addressed in bus words, the AXI-Lite
    address counts bytes.  Every value that can reach port_adr -- directly or through a register that is replayed later -- is the
    byte address of the accepted channel with the log2(bytes per word) low bits stripped, with one shift amount."""
    from ..rules_stream import fx_of
    from .. import q
    AL = "litex/soc/interconnect/axi/axi_lite.py"
    ctx.rule(rid, "axi_lite_to_simple: port address = AXI-Lite byte address >> log2(bus bytes) on every path (immediate, and latched for a "
                   "write whose data comes later); one shift amount, derived from the bus data width", min_sites=5)
    fx = fx_of(ctx, AL, func="axi_lite_to_simple")
    sh = fx.localdefs.get("adr_shift") if hasattr(fx, "localdefs") else None
    shift_txt = norm(sh) if sh is not None else None
    ok = shift_txt is not None and shift_txt.replace("bus_data_width", "axi_lite.data_width") == "log2_int(axi_lite.data_width // 8)"
    ctx.ob(rid, AL, "axi_lite_to_simple", "adr_shift = log2_int(data_width // 8)", ok, "" if ok else f"adr_shift = {shift_txt}", sh if sh is not None else 0)

    def word_address(v, depth=0):
        """None if `v` is a word address, else the reason"""
        if v in ("axi_lite.aw.addr[adr_shift:]", "axi_lite.ar.addr[adr_shift:]"):
            return None
        if v == "port_adr":
            return None if depth < 3 else "cyclic"
        regs = [a for a in fx.find(domain="sync") if a.t == v]
        if regs and depth < 3:
            for a in regs:
                r = word_address(a.v, depth + 1)
                if r is not None:
                    return f"register {v} is loaded with `{a.v}`" + (f" ({r})" if r != "not a word address" else "")
            return None
        return "not a word address"
    drivers = fx.find(domain="comb", target="port_adr")
    ctx.ob(rid, AL, "axi_lite_to_simple", "port_adr drivers:present", len(drivers) >= 3, f"{len(drivers)} drivers", 0)
    for a in drivers:
        why = word_address(a.v)
        ctx.ob(rid, AL, "axi_lite_to_simple", f"port_adr <= {a.v} @{a.state[1] if a.state else '-'} is a word address", why is None,
               "" if why is None else f"{why}: a byte address is presented where the port expects the word index -- the access lands at 4x the "
                                      f"published offset (or outside the window)", a.line)
    # the channel whose address is used is the channel that is served
    for a in drivers:
        if "aw.addr" in a.v or "ar.addr" in a.v:
            want = "do_write" if "aw.addr" in a.v else "do_read"
            G = q.gformula(fx, a, inline=False)
            from .. import boolx as B
            ok = B.entails(G, B.A(want))
            ctx.ob(rid, AL, "axi_lite_to_simple", f"{a.v} used only when {want}", ok, "" if ok else f"under {B.show(G)}", a.line)



def csr_bus_window(ctx, rid):
    """SoC.add_csr_bridge: the `csr` bus region spans 4 bytes for each of the 2**address_width CSR words, whatever the CSR data width is
    (expression evaluated by value).  Shared with C13: SoCCSRHandler grants 2**address_width * 4 // paging pages; a narrower window
    leaves granted pages outside the decoded region, where another slave can be allocated."""
    from .. import pyconst
    soc = ctx.mod(SOC)
    fb = soc.method("SoC", "add_csr_bridge")
    szs = [n.value for n in ast.walk(fb) if isinstance(n, ast.Assign) and norm(n.targets[0]) == "csr_size"]
    bad = None
    n = 0
    if len(szs) != 1:
        bad = f"{len(szs)} assignments to csr_size"
    else:
        for aw in (12, 14, 16):
            for dw in (8, 32):
                env = {"self": pyconst.NS(csr=pyconst.NS(address_width=aw, data_width=dw, alignment=32, paging=0x800))}
                try:
                    got = pyconst.Interp(env, exact=True).ev(szs[0])
                except Exception as ex:      # noqa
                    got = f"<{type(ex).__name__}>"
                n += 1
                if got != 2 ** (aw + 2) and bad is None:
                    bad = f"csr_size = {norm(szs[0])} = {got if not isinstance(got, int) else hex(got)} for address_width {aw}, data_width {dw}: the CSR handler " \
                          f"grants pages up to {2 ** (aw + 2):#x} (4 bytes per CSR word): pages above the window are published but not decoded, and the " \
                          f"range is free for another slave"
    ctx.ob(rid, SOC, "SoC.add_csr_bridge", "bus window = 2**(aw+2) bytes (4 bytes per CSR word)", bad is None, bad or "", szs[0] if szs else fb)


def _e10(ctx, rid="E10"):
    """The CSR bus has no arbiter: csr_bus.InterconnectShared ORs adr / re / we / dat_w of every master (the SoC's bridge plus
    whatever `csr.add_master` added).  The register a published address denotes is therefore reached only if every master that has no
    access in hand contributes zeros -- or the interconnect masks the line by that master's own strobe."""
    from ..rules_stream import fx_of, shared_bus_idle_zero
    from .. import boolx as B
    WB = "litex/soc/interconnect/wishbone.py"
    ctx.rule(rid, "OR-combined CSR bus: every CSR master (Wishbone2CSR registered / combinational) drives adr, re, we, dat_w to zero "
                    "while it has no access in hand -- no driver active in the idle state whatever the inputs are, clocked lines "
                    "cleared on the way back to the idle state -- unless InterconnectShared gates the line by the master's own strobe",
             min_sites=11)
    fxi = fx_of(ctx, CSRBUS, "InterconnectShared")
    fields = {}
    for a in fxi.find(domain="comb"):
        # <shared bus>.<field> <= Reduce("OR", ...), whatever the shared interface is called
        if a.v.startswith("Reduce(") and a.t.count(".") == 1 and a.t.split(".", 1)[1] in ("adr", "re", "we", "dat_w"):
            fields[a.t.split(".", 1)[1]] = a
    ok = set(fields) == {"adr", "re", "we", "dat_w"} and all(a.v.startswith("Reduce('OR'") for a in fields.values())
    ctx.ob(rid, CSRBUS, "InterconnectShared", "adr, re, we, dat_w are the OR over all masters", ok, "" if ok else f"{sorted(fields)}",
           next(iter(fields.values())).line if fields else 0)
    discharged = set()
    for f, a in fields.items():
        call = a.value
        elt = None
        if isinstance(call, ast.Call) and len(call.args) == 2 and isinstance(call.args[1], ast.ListComp):
            elt = call.args[1].elt
        if elt is None:
            continue
        txt = norm(elt)
        # a term masked by the same master's strobe: Mux(m.we, m.dat_w, 0) / m.dat_w & Replicate(m.we, n) / If-free forms are read by value
        m = norm(call.args[1].generators[0].target) if isinstance(call.args[1].generators[0].target, ast.Name) else None
        idx = f"masters[{m}]" if m and "range(len(masters))" in norm(call.args[1].generators[0].iter) else m
        if idx and isinstance(elt, ast.Call) and norm(elt.func) == "Mux" and len(elt.args) == 3 and norm(elt.args[2]) == "0" and \
                norm(elt.args[1]) == f"{idx}.{f}":
            sel = B.from_expr(elt.args[0])
            strobes = {"dat_w": [f"{idx}.we"], "adr": [f"{idx}.we", f"{idx}.re"]}.get(f, [])
            if strobes and B.entails(sel, B.Or(*[B.A(x) for x in strobes])):
                discharged.add("self.csr." + f)
    fx = fx_of(ctx, WB, "Wishbone2CSR")
    for info in fx.fsms.values():
        reg = ("register", True) in info.pyguards
        shared_bus_idle_zero(ctx, rid, fx, "Wishbone2CSR", info, ["self.csr.adr", "self.csr.re", "self.csr.we", "self.csr.dat_w"],
                             tag="registered: " if reg else "comb: ", discharged=discharged)
    # AXILite2CSR reaches the CSR bus through axi_lite_to_simple
    AL = "litex/soc/interconnect/axi/axi_lite.py"
    fxa = fx_of(ctx, AL, func="axi_lite_to_simple")
    ctx.need(len(fxa.fsms) == 1, "axi_lite_to_simple: expected one FSM")
    for info in fxa.fsms.values():
        shared_bus_idle_zero(ctx, rid, fxa, "axi_lite_to_simple", info, ["port_adr", "port_re", "port_we", "port_dat_w"],
                             tag="AXILite2CSR: ", discharged={x.replace("self.csr.", "port_") for x in discharged})


def _e12(ctx):
    """Memory regions and constants as published in mem.h / soc.h: the header generators interpreted (lxs/pyconst.py) on model
    regions / constants and the text parsed back -- <NAME>_BASE / <NAME>_SIZE and the MEM_REGIONS rows carry each region's own origin
    and size, every constant is defined with its own value and its accessor returns that value."""
    import re as _re
    from .. import pyconst
    from ..pyconst import NS, Native
    ex = ctx.mod(EXP)
    funcs = {f.name: f for f in ex.tree.body if isinstance(f, ast.FunctionDef)}
    ctx.rule("E12", "published memory regions and constants: mem.h defines <NAME>_BASE = origin and <NAME>_SIZE = size for every region "
                    "(and lists the same pairs in MEM_REGIONS), soc.h defines every constant with its own value and an accessor returning "
                    "it -- the generators interpreted on model inputs, the text parsed back", min_sites=4)
    banner = {"generated_banner": Native(lambda c: "")}
    bad_base = bad_rows = None
    for regs in ({"rom": (0x0, 0x8000), "main_ram": (0x40000000, 0x1234000), "csr": (0xf0000000, 0x10000)},
                 {"sram": (0x10000000, 0x2000)}, {"a": (0x100, 0x40), "bb": (0x1000, 0x100), "ccc": (0x0, 0x10), "d": (0x80000000, 0x80000000)}):
        model = {k: NS(origin=o, size=z) for k, (o, z) in regs.items()}
        try:
            kind, txt = pyconst.call(funcs["get_mem_header"], {"regions": model}, consts=banner, funcs=funcs)
        except Exception as ex_:     # noqa
            ctx.need(False, f"get_mem_header cannot be interpreted ({type(ex_).__name__}: {ex_})")
        ctx.need(kind == "return" and isinstance(txt, str), "get_mem_header does not return a constant text on model regions")
        defs = dict(_re.findall(r"#define (\w+) (0x[0-9a-fA-F]+)L?\b", txt))
        for k, (o, z) in regs.items():
            got = (defs.get(k.upper() + "_BASE"), defs.get(k.upper() + "_SIZE"))
            if (got[0] is None or got[1] is None or int(got[0], 16) != o or int(got[1], 16) != z) and bad_base is None:
                bad_base = f"region {k} (origin {o:#x}, size {z:#x}) is published as BASE {got[0]}, SIZE {got[1]}"
        m_ = _re.search(r'#define MEM_REGIONS "(.*)"', txt)
        rows = [r_.split() for r_ in m_.group(1).split("\\n")] if m_ else []
        want_rows = [[k.upper(), f"{o:#x}", f"{z:#x}"] for k, (o, z) in regs.items()]
        got_rows = [[r_[0], hex(int(r_[1], 16)), hex(int(r_[2], 16))] for r_ in rows if len(r_) == 3]
        if got_rows != want_rows and bad_rows is None:
            bad_rows = f"MEM_REGIONS lists {got_rows}, the regions are {want_rows}"
    fn = funcs["get_mem_header"]
    ctx.ob("E12", EXP, "get_mem_header", "<NAME>_BASE / <NAME>_SIZE = the region's own origin / size", bad_base is None, bad_base or "", fn)
    ctx.ob("E12", EXP, "get_mem_header", "MEM_REGIONS lists every region with its origin and size, in order", bad_rows is None, bad_rows or "", fn)
    consts = {"CONFIG_CLOCK_FREQUENCY": 75000000, "CONFIG_CPU_NAME": "vexriscv", "CONFIG_CSR_DATA_WIDTH": 32, "CONFIG_FLAG": None, "UART_INTERRUPT": 0}
    bad_def = bad_acc = None
    for waf in (True, False):
        try:
            kind, txt = pyconst.call(funcs["get_soc_header"], {"constants": dict(consts), "with_access_functions": waf}, consts=banner, funcs=funcs)
        except Exception as ex_:     # noqa
            ctx.need(False, f"get_soc_header cannot be interpreted ({type(ex_).__name__}: {ex_})")
        ctx.need(kind == "return" and isinstance(txt, str), "get_soc_header does not return a constant text on model constants")
        for k, v in consts.items():
            m_ = _re.search(r"^#define " + k + r"(?: (.*))?$", txt, _re.M)
            want = None if v is None else (f'"{v}"' if isinstance(v, str) else str(v))
            if (m_ is None or (m_.group(1) or None) != want) and bad_def is None:
                bad_def = f"constant {k} = {v!r} is defined as `{m_.group(0) if m_ else None}`"
            if waf and v is not None:
                a_ = _re.search(k.lower() + r"_read\(void\) \{\s*return (.*?);", txt)
                if (a_ is None or a_.group(1) != want) and bad_acc is None:
                    bad_acc = f"accessor {k.lower()}_read() returns `{a_.group(1) if a_ else None}`, the constant is {want}"
    fn = funcs["get_soc_header"]
    ctx.ob("E12", EXP, "get_soc_header", "every constant defined with its own value", bad_def is None, bad_def or "", fn)
    ctx.ob("E12", EXP, "get_soc_header", "every accessor returns the constant it is named after", bad_acc is None, bad_acc or "", fn)
