"""C15 -- interrupt events are never lost and the IRQ line means pending-and-enabled.

Decided (structural, necessary): V1 set-over-clear priority of `pending` (effective, statement-order
aware); V2 edge detector: unconditional one-cycle delayed sample and set guard equivalent to the declared
edge; V3 index agreement between clear / irq term / status+pending fields, sources sorted by duid, irq is
the OR over all terms; V4 level sources mirror their trigger, pulse status is 0; V5 SharedIRQ ORs every
manager; V6 clients (UART rx pop on clear, Timer trigger value == 0, GPIO trigger mux).
Not decided: cycle-exact latency as a history property."""
import ast
from ..core import AnalysisError, norm
from .. import boolx as B
from .. import q
from ..rules_stream import fx_of, fail_closed, prio, short

EV = "litex/soc/interconnect/csr_eventmanager.py"
UART = "litex/soc/cores/uart.py"
TIMER = "litex/soc/cores/timer.py"
GPIO = "litex/soc/cores/gpio.py"

EXPLANATION = ("FHDL IR of the event sources/manager extracted from the AST; priority of set over clear decided on "
               "effective (later-assignment-wins) guards; edge guards compared for propositional equivalence with the "
               "declared edge; index agreement of clear/irq/field wiring decided on the symbolic loop index.")
TECHNIQUE = "AST-extracted FHDL IR + effective-priority analysis + guard equivalence + index agreement"


def run(ctx):
    ctx.rule("V1", "pending: the set-to-1 driver is never masked by the clear-to-0 driver (effective priority)", min_sites=3)
    ctx.rule("V2", "edge detector: trigger_d is an unconditional sync copy of trigger; the set guard is equivalent to the "
                   "declared edge (rising: t & ~d, falling: ~t & d)", min_sites=4)
    ctx.rule("V3", "EventManager: clear of source i is pending.re & pending.r[i]; irq term i is pending.status[i] & "
                   "enable.storage[i]; status/pending fields wired by the source's own name; sources sorted by duid; irq = OR "
                   "of all terms", min_sites=8)
    ctx.rule("V4", "level source: status and pending mirror trigger; pulse source status is 0; SharedIRQ ORs every manager",
             min_sites=4)
    ctx.rule("V6", "clients: UART rx FIFO popped on ev.rx.clear, triggers from FIFO flags; Timer trigger value == 0; GPIO "
                   "trigger mux by mode/edge", min_sites=6)
    ctx.rule("PRIO", "no dead driver", min_sites=1)

    # ---- V1 / V2
    for cls in ("EventSourcePulse", "EventSourceProcess"):
        fx = fx_of(ctx, EV, cls)
        fail_closed(ctx, fx, cls)
        prio(ctx, "PRIO", fx, cls)
        pend = fx.find(domain="sync", target="self.pending")
        sets = [a for a in pend if a.v == "1"]
        clrs = [a for a in pend if a.v == "0"]
        ctx.ob("V1", EV, cls, "pending set:present", bool(sets), "pending is never set", 0)
        ctx.ob("V1", EV, cls, "pending clear:present", bool(clrs), "pending is never cleared", 0)
        others = [a for a in pend if a.v not in ("0", "1")]
        for a in others:
            ctx.ob("V1", EV, cls, f"pending <= {short(a.v, 30)}", False, "unexpected driver of pending", a.line)
        for a in sets:
            inl = q.Inliner(fx, a)
            raw = inl.gformula(a, effective=False)
            eff = inl.gformula(a, effective=True)
            ok = B.entails(raw, eff) and not B.depends_on(eff, "self.clear")
            ctx.ob("V1", EV, cls, "set has priority over clear" + ("" if not a.pyguards else f" [{a.pyguards[-1][0]}]"), ok,
                   "" if ok else f"the set of pending under {B.show(raw)} is overridden (effective {B.show(eff)}): a trigger "
                                 f"coinciding with the clear is lost", a.line)
        for a in clrs:
            G = q.Inliner(fx, a).gformula(a, effective=False)
            ok = B.entails(G, B.A("self.clear"))
            ctx.ob("V1", EV, cls, "clear only on self.clear", ok, "" if ok else f"pending cleared under {B.show(G)}", a.line)
    # a pulse source is level sensitive: pending' = trigger | (pending & ~clear) -- every cycle with the trigger high sets it
    fxp = fx_of(ctx, EV, "EventSourcePulse")
    sp = [a for a in fxp.find(domain="sync", target="self.pending") if a.v == "1"]
    F1 = B.F
    for a in sp:
        F1 = B.Or(F1, q.Inliner(fxp, a).gformula(a, effective=False))
    ok = bool(sp) and B.equivalent(F1, B.A("self.trigger"))
    ctx.ob("V2", EV, "EventSourcePulse", "pending set in every cycle the trigger is high", ok,
           "" if ok else f"pending is set under {B.show(F1)}: a trigger that is still (or again) high in the cycle after the clear is lost", sp[0].line if sp else 0)
    fx = fx_of(ctx, EV, "EventSourceProcess")
    td = fx.find(domain="sync", target="trigger_d")
    ok = len(td) == 1 and not td[0].guards and td[0].v == "self.trigger" and not td[0].pyguards
    ctx.ob("V2", EV, "EventSourceProcess", "trigger_d unconditional copy", ok,
           "" if ok else "trigger_d is not an unconditional one-cycle delayed sample of trigger", td[0].line if td else 0)
    want = {"rising": "self.trigger & ~trigger_d", "falling": "~self.trigger & trigger_d"}
    import copy as _copy
    sets_ = [a for a in fx.find(domain="sync", target="self.pending") if a.v == "1"]

    def for_edge(node, e):
        """the expression with the Python-level choice on `edge` taken for edge == e"""
        class X(ast.NodeTransformer):
            def visit_IfExp(self, n):
                self.generic_visit(n)
                t = norm(n.test)
                for x in want:
                    if t == f"edge == '{x}'":
                        return n.body if x == e else n.orelse
                    if t in (f"not edge == '{x}'", f"edge != '{x}'"):
                        return n.orelse if x == e else n.body
                return n
        return X().visit(_copy.deepcopy(node))
    for e in want:
        other = [x for x in want if x != e][0]
        # the set assignments that exist when the source is built for edge e
        mine = [a for a in sets_ if not any((c == f"edge == '{e}'" and not p) or (c == f"edge == '{other}'" and p) for c, p in a.pyguards)]
        ctx.ob("V2", EV, "EventSourceProcess", f"{e} arm present", bool(mine), f"no set arm for edge == '{e}'", 0)
        G = B.F
        for a in mine:
            g = B.T
            for c, p in a.guards:
                f_ = B.from_expr(for_edge(c, e))
                g = B.And(g, f_ if p else B.Not(f_))
            G = B.Or(G, q.Inliner(fx, a).inline(g))
        if mine:
            ok = B.equivalent(G, B.from_expr(want[e]))
            ctx.ob("V2", EV, "EventSourceProcess", f"{e} edge guard", ok,
                   "" if ok else f"edge='{e}' sets pending under {B.show(G)}, not {want[e]}", mine[0].line)

    # ---- V4
    fx = fx_of(ctx, EV, "EventSourceLevel")
    for t in ("self.status", "self.pending"):
        ds = fx.find(domain="comb", target=t)
        if not ds:
            # driven in a loop over the two mirrors: `for m in (self.status, self.pending): self.comb += m.eq(self.trigger)`
            ds = [a for a in fx.find(domain="comb") if any(t in it for _, it in a.loops)]
        ok = len(ds) == 1 and not ds[0].guards and ds[0].v == "self.trigger"
        ctx.ob("V4", EV, "EventSourceLevel", f"{t} mirrors trigger", ok, "" if ok else f"{t} is not a plain copy of trigger",
               ds[0].line if ds else 0)
    fx = fx_of(ctx, EV, "EventSourcePulse")
    ds = fx.find(domain="comb", target="self.status")
    ok = len(ds) == 1 and ds[0].v == "0"
    ctx.ob("V4", EV, "EventSourcePulse", "status is 0", ok, "" if ok else "pulse status is not constant 0")
    fx = fx_of(ctx, EV, "EventSourceProcess")
    ds = fx.find(domain="comb", target="self.status")
    ok = len(ds) == 1 and not ds[0].guards and ds[0].v == "self.trigger"
    ctx.ob("V4", EV, "EventSourceProcess", "status mirrors trigger", ok, "" if ok else "status is not the raw trigger level")
    fx = fx_of(ctx, EV, "SharedIRQ")
    ds = fx.find(domain="comb", target="self.irq")
    ok = False
    if len(ds) == 1 and not ds[0].guards:
        v = ds[0].value
        if isinstance(v, ast.Call) and norm(v.func) == "Reduce" and len(v.args) == 2 and norm(v.args[0]) == "'OR'":
            ok = q.elementwise(v.args[1]) == ("@.irq", "event_managers")
    ctx.ob("V4", EV, "SharedIRQ", "irq = OR over all managers", ok, "" if ok else f"irq <= {ds[0].v if ds else '?'}")

    # ---- V3
    fx = fx_of(ctx, EV, "EventManager")
    fail_closed(ctx, fx, "EventManager")
    sdef = fx.localdefs.get("sources")
    ok = sdef is not None and norm(sdef).startswith("sorted(") and "duid" in norm(sdef)
    ctx.ob("V3", EV, "EventManager", "sources sorted by duid", ok, "" if ok else f"sources = {norm(sdef) if sdef is not None else '?'}")
    clr = [a for a in fx.find(domain="comb") if a.t.endswith(".clear")]
    ctx.ob("V3", EV, "EventManager", "clear:present", bool(clr), "no clear wiring", 0)
    for a in clr:
        ok = a.t.startswith("sources[") and a.v == "1"
        idx = a.t[len("sources["):a.t.index("]")] if ok else "?"
        G = a.eff()
        ok = ok and B.equivalent(G, B.from_expr(f"self.pending.re & self.pending.r[{idx}]"))
        ctx.ob("V3", EV, "EventManager", "clear[i] = pending.re & pending.r[i]", ok,
               "" if ok else f"{a.t} <= {a.v} under {B.show(G)}: clearing one event can clear another / never clears", a.line)
    # what `pending.re & pending.r[i]` means is decided in CSRStatus: r latched under the write strobe, re = that strobe delayed
    from .c12 import status_write_latch, storage_word_slices
    status_write_latch(ctx, "V3")
    from .c12 import word_loop_order, bank_decode
    word_loop_order(ctx, "V3", classes=("CSRStatus",))
    bank_decode(ctx, "V3")
    # V7: an acknowledge clears exactly the bits written: the shared CSR bus ORs all masters (C14.E10 decides the same construct)
    from .c14 import _e10
    _e10(ctx, "V7")
    # ... and `enable.storage[i]` is the bit software wrote for source i only if bus word w of the enable register is bits
    # [w*busword : ...] of its storage (more sources than the CSR bus is wide)
    storage_word_slices(ctx, "V3")
    names = {}
    for reg, attr in (("status", "status"), ("pending", "pending")):
        ds = [a for a in fx.find(domain="comb") if a.t.startswith(f"getattr(self.{reg}.fields,")]
        ctx.ob("V3", EV, "EventManager", f"{reg} field wiring:present", bool(ds), f"{reg} fields are not wired", 0)
        for a in ds:
            nm = a.t[len(f"getattr(self.{reg}.fields, "):-1]
            names[reg] = nm
            ok = a.v.startswith("sources[") and a.v.endswith("." + attr) and not a.guards
            idx = a.v[len("sources["):a.v.index("]")] if ok else "?"
            if ok and f"sources[{idx}].name" not in nm:
                # the name looked up in a list computed once: names = [get_source_name(source, i) for i, source in enumerate(sources)]
                from ..names import canon_consts as _cc
                tn = ast.parse(nm, mode="eval").body
                el = None
                if isinstance(tn, ast.Subscript) and isinstance(tn.value, ast.Name) and norm(tn.slice) == idx:
                    el = q.index_comprehension(fx.localdefs.get(tn.value.id), idx)
                nm = norm(el) if el is not None else norm(_cc(ast.Expression(body=fx.expand(a.target))).body)
            ok = ok and (f"sources[{idx}].name" in nm or f"get_source_name(sources[{idx}], {idx})" in nm)
            ctx.ob("V3", EV, "EventManager", f"{reg} field of source i <- source i .{attr}", ok,
                   "" if ok else f"{a.t} <= {a.v}", a.line)
    irq = fx.find(domain="comb", target="self.irq")
    ok = False
    why = ""
    if len(irq) == 1 and not irq[0].guards:
        v = irq[0].value
        if isinstance(v, ast.Call) and norm(v.func) == "Reduce" and len(v.args) == 2 and norm(v.args[0]) == "'OR'":
            se = q.star_elements(v.args[1])
            if se and len(se) == 1:
                elt, i, it = se[0]
                terms = B.from_expr(elt)
                need = B.from_expr(f"self.pending.status[{i}] & self.enable.storage[{i}]")
                ok = B.equivalent(terms, need) and it in ("range(len(sources))", "range(n)")
                why = f"term {norm(elt)} over {it}"
    ctx.ob("V3", EV, "EventManager", "irq = OR_i pending.status[i] & enable.storage[i]", ok,
           "" if ok else f"irq <= {irq[0].v if irq else '?'} ({why})", irq[0].line if irq else 0)
    # the pending register must be writable from the bus (read_only=False) so that .re/.r exist
    pin = [i for i in fx.insts if i.name == "self.pending"]
    ok = bool(pin) and pin[0].arg(kw="read_only") is not None and norm(pin[0].arg(kw="read_only")) == "False"
    ctx.ob("V3", EV, "EventManager", "pending register is write-one-to-clear capable", ok, "" if ok else "pending CSRStatus lacks read_only=False")
    # enable field offsets follow the source index
    en = [i for i in fx.insts if i.name == "self.enable"]
    ok = bool(en) and "offset=i" in norm(en[0].call).replace(" ", "")
    ctx.ob("V3", EV, "EventManager", "enable field offset = source index", ok, "" if ok else "enable fields are not placed at offset i")

    # ---- V6 clients
    fxu = fx_of(ctx, UART, "UART")
    inl = q.Inliner(fxu)
    f = inl.formula_of_path("self.rx_fifo.source.ready")
    ok = f is not None and B.entails(B.A("self.ev.rx.clear"), f)
    ctx.ob("V6", UART, "UART", "rx FIFO popped on ev.rx.clear", ok,
           "" if ok else f"rx_fifo.source.ready = {B.show(f) if f else '?'} ignores ev.rx.clear: the rx event can never be re-armed")
    for t, v in (("self.ev.tx.trigger", "self.tx_fifo.sink.ready"), ("self.ev.rx.trigger", "self.rx_fifo.source.valid")):
        ds = fxu.find(domain="comb", target=t)
        ok = len(ds) == 1 and ds[0].v == v and not ds[0].guards
        ctx.ob("V6", UART, "UART", f"{t} <- {v}", ok, "" if ok else f"{t} <= {ds[0].v if ds else '?'}", ds[0].line if ds else 0)
    evs = {i.name: i for i in fxu.insts}
    for nm in ("self.ev.tx", "self.ev.rx"):
        i = evs.get(nm)
        ok = i is not None and i.cls == "EventSourceProcess" and i.arg(kw="edge") is not None and norm(i.arg(kw="edge")) == "'rising'"
        ctx.ob("V6", UART, "UART", f"{nm} is a rising-edge process source", ok, "" if ok else f"{nm}: {i}")
    fxt = fx_of(ctx, TIMER, "Timer")
    ds = fxt.find(domain="comb", target="self.ev.zero.trigger")
    ok = len(ds) == 1 and ds[0].v == "value == 0" and not ds[0].guards
    ctx.ob("V6", TIMER, "Timer", "ev.zero.trigger <- value == 0", ok, "" if ok else f"trigger <= {ds[0].v if ds else '?'}")
    i = {x.name: x for x in fxt.insts}.get("self.ev.zero")
    ok = i is not None and i.cls == "EventSourceProcess" and norm(i.arg(kw="edge") or ast.Constant(value="")) == "'rising'"
    ctx.ob("V6", TIMER, "Timer", "ev.zero is a rising-edge process source", ok, "" if ok else f"{i}")
    fxg = FXadd(ctx)
    trg = fxg.find(domain="comb", target="esp.trigger")
    ctx.ob("V6", GPIO, "_GPIOIRQ", "trigger mux:present", len(trg) == 2, "expected a change-mode and an edge-mode driver", 0)
    for a in trg:
        G = a.eff()
        if B.entails(G, B.A("self._mode.storage[n]")):
            ok = B.equivalent(B.from_expr(a.value), B.from_expr("in_pads[n] ^ in_pads_n_d"))
            ctx.ob("V6", GPIO, "_GPIOIRQ", "change mode: pad ^ delayed pad", ok, "" if ok else f"trigger <= {a.v}", a.line)
        else:
            ok = B.equivalent(B.from_expr(a.value), B.from_expr("in_pads[n] ^ self._edge.storage[n]"))
            ctx.ob("V6", GPIO, "_GPIOIRQ", "edge mode: pad ^ edge select", ok, "" if ok else f"trigger <= {a.v}", a.line)
    d = fxg.find(domain="sync", target="in_pads_n_d")
    ok = len(d) == 1 and not d[0].guards and d[0].v == "in_pads[n]"
    ctx.ob("V6", GPIO, "_GPIOIRQ", "delayed pad sample unconditional", ok, "" if ok else "in_pads_n_d is not an unconditional copy")


def FXadd(ctx):
    from ..fx import FX
    return FX(ctx, GPIO, cls="_GPIOIRQ", entries=("add_irq",))
