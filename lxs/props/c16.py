"""C16 -- packet framing: headers round-trip and packets are never interleaved or torn.

Decided (structural, necessary): S2/S3/S4/S7 on Packetizer/Depacketizer; P1 Header.encode/decode are
twins (same sorted iteration, same bit window, same field accessor, byte swap on opposite sides under
the same flag); P2 PacketFIFO fork atomicity, pop-on-last, valid from the param FIFO; P3 Status /
Arbiter / Dispatcher wiring (request <- ongoing, grant index agreement, selector latched on first,
default arm drains).  Not decided: byte layout of unaligned residues."""
import ast
from ..core import AnalysisError, norm
from ..fx import FX
from .. import boolx as B
from .. import q
from ..rules_stream import (PACKET, fx_of, s2_sampling, s3_counter, s4_hold, fsm_sanity, prio, s5_omit, s6_fork,
                            fail_closed, short, _lit_set, fsm_txn_state)

EXPLANATION = ("FHDL IR extracted from packet.py; FSM graphs of Packetizer/Depacketizer checked for trap states in "
               "both aligned/unaligned configurations; hold-until-ready and sampling guards by propositional "
               "entailment; Header.encode/decode compared as twins on their normalised IR; PacketFIFO/Arbiter/"
               "Dispatcher wiring by support and index-agreement rules.")
TECHNIQUE = "AST-extracted FHDL IR + guard entailment + FSM graph + encode/decode twin comparison"

COMMON = "litex/gen/common.py"


def arbiter_requests(ctx, rid, fxa=None):
    """packet.Arbiter: request[i] is a *combinational* copy of Status(masters[i]).ongoing (shared with C04: a registered request
    lets the grant move away from a master that has just started to offer a beat -- the output changes under valid & ~ready)."""
    if fxa is None:
        fxa = fx_of(ctx, PACKET, "Arbiter")
    reqs = [a for a in fxa.find(domain="comb") if a.t.startswith("self.rr.request[")]
    ctx.ob(rid, PACKET, "Arbiter", "request:present", bool(reqs), "rr.request is no longer driven", 0)
    for a in reqs:
        idx = a.t[len("self.rr.request["):-1]
        st = [i for i in fxa.insts if i.cls == "Status" and i.call is not None and i.call.args and
              norm(i.call.args[0]) == f"masters[{idx}]"]
        ok = a.v.endswith(".ongoing") and bool(st) and a.v.split(".")[0] == st[0].name
        if not ok and a.v.endswith(".ongoing"):
            # statuses = [Status(m) for m in masters]; request[i] <- statuses[i].ongoing
            call = q.elem_call(fxa, a.v[:-len(".ongoing")])
            ok = call is not None and norm(call.func) == "Status" and len(call.args) == 1 and norm(call.args[0]) == f"masters[{idx}]"
        ctx.ob(rid, PACKET, "Arbiter", "request[i] <- Status(masters[i]).ongoing", ok,
               "" if ok else f"request[{idx}] <= {a.v}; Status instances: {[norm(i.call.args[0]) for i in fxa.insts if i.cls == 'Status' and i.call and i.call.args]}", a.line)


def run(ctx):
    ctx.rule("S2", "sink fields sampled into state only on valid tokens (Packetizer/Depacketizer)", min_sites=5)
    ctx.rule("S3", "count / fsm_from_idle move only on the handshake of their state", min_sites=8)
    ctx.rule("S4", "FSM exits entail ~valid|ready for the valid asserted in the state", min_sites=8)
    ctx.rule("S7", "FSM no-trap / targets defined in aligned and unaligned configurations", min_sites=2)
    ctx.rule("P1", "Header.encode and Header.decode are twins: sorted iteration, same [start:end] window, same "
                   "get_field call, reverse_bytes under the same flag on opposite sides", min_sites=8)
    ctx.rule("P2", "PacketFIFO: fork atomicity; param popped with the last beat; payload popped per beat; source.valid "
                   "from the param FIFO; last from the payload FIFO", min_sites=12)
    ctx.rule("P3", "Status/Arbiter/Dispatcher: request <- ongoing of the same master; connect gated by grant == same "
                   "index; selector latched only on first; default arm drains", min_sites=14)
    ctx.rule("P4", "per-packet FSM registers (word counter, from-idle marker) are re-initialised in IDLE / on every exit of IDLE: "
                   "nothing is inherited from the previous packet; a packet ends only with the hand-over of its last beat", min_sites=10)
    ctx.rule("PRIO", "no dead driver", min_sites=4)

    from ..rules_stream import packetfifo_geometry
    packetfifo_geometry(ctx, "P2")

    # ---- Packetizer / Depacketizer
    for cls in ("Packetizer", "Depacketizer"):
        fx = fx_of(ctx, PACKET, cls)
        fail_closed(ctx, fx, cls)
        ctx.need(len(fx.fsms) == 1, f"{cls}: expected one FSM")
        info = list(fx.fsms.values())[0]
        s2_sampling(ctx, "S2", fx, cls)
        s4_hold(ctx, "S4", fx, cls, info, [("self.source.valid", "self.source.ready")])
        fsm_sanity(ctx, "S7", fx, cls)
        fsm_txn_state(ctx, "P4", fx, cls)
        if cls == "Packetizer":
            # the final beat is emitted from the stored `last` with sink.ready low: the accepted-beat load cannot clear it
            cl = [a for a in fx.find(domain="sync", target="sink_d.last") if a.v == "0"]
            ok = len(cl) == 1 and q.EQ(cl[0], B.from_expr("self.source.valid & self.source.ready & self.source.last"))
            ctx.ob("P4", PACKET, cls, "stored last flag cleared when the packet's last beat is handed over", ok,
                   "" if ok else f"{[(a.v, a.gtext()) for a in cl]}: the next packet starts with last already set (terminated on its first "
                                 f"data beat, its word never accepted)", cl[0].line if cl else 0)
        # a packet ends only with the hand-over of its last beat: every way back to IDLE from a data state needs valid & ready & last on
        # the source (a `last` that is already up while no beat is offered must not end the packet: the header would be sent again)
        back = [t for t in fx.trans if t.dst == "IDLE" and t.src != "IDLE" and "DATA" in str(t.src)]
        ctx.ob("P4", PACKET, cls, "data states return to IDLE:present", bool(back), "no transition from a data state back to IDLE", 0)
        for t in back:
            G = q.Inliner(fx, t).gformula(t)
            need = q.Inliner(fx, t).inline(B.from_expr("self.source.valid & self.source.ready & self.source.last"))
            ok = B.entails(G, need)
            ctx.ob("P4", PACKET, cls, f"{t.src} -> IDLE only with the last beat handed over", ok,
                   "" if ok else f"{t.src} -> IDLE under {short(B.show(G), 160)}: does not need source.valid & source.ready & source.last (e.g. "
                                 f"{B.counterexample(G, need)}): the packet is cut where no beat is transferred", t.node)
        # an end-of-packet the element raises by itself is presented: with nothing offered on the sink (all sink lines low), whatever
        # still makes source.last true in a state makes source.valid true as well -- otherwise the stored last beat (the flush of the
        # realignment residue) waits for the *next* packet's first word and is pushed out by it
        lasts = [a for a in fx.find(domain="comb", target="self.source.last") if a.state]
        for a in lasts:
            vs = [v for v in fx.find(domain="comb", target="self.source.valid") if v.state == a.state and q.compatible(v.pyguards, a.pyguards)]
            if not vs:
                continue
            inl_ = q.Inliner(fx, a)
            FL = B.And(inl_.gformula(a), inl_.inline(B.from_expr(a.value)))
            FV = B.Or(*[B.And(inl_.gformula(v), inl_.inline(B.from_expr(v.value))) for v in vs])
            idle = {t_: B.F for t_ in B.atoms(B.And(FL, FV)) if t_.startswith(("self.sink.", "sink."))}
            FL0, FV0 = B.subst(FL, idle), B.subst(FV, idle)
            ok = B.entails(FL0, FV0)
            ctx.ob("P4", PACKET, cls, f"{a.state[1]}: a stored end-of-packet is offered without waiting for the sink", ok,
                   "" if ok else f"with the sink idle source.last is {short(B.show(FL0), 80)} but source.valid is {short(B.show(FV0), 80)}: the final "
                                 f"beat is withheld until another word arrives (and is lost with the last packet)", a.line)
        prio(ctx, "PRIO", fx, cls)
        # S3: `count` steps (value count + 1) only on a transferred word of the state
        hs = "self.source.valid & self.source.ready" if cls == "Packetizer" else "self.sink.valid & self.sink.ready"
        steps = [a for a in fx.find(domain="sync", target="count") if a.v != "1"]
        ctx.ob("S3", PACKET, cls, "count step:present", bool(steps), "count is never incremented", 0)
        for a in steps:
            inl = q.Inliner(fx, a)
            G = inl.gformula(a)
            H = inl.inline(B.from_expr(hs))
            ok = B.entails(G, H)
            ctx.ob("S3", PACKET, cls, f"count <= {a.v} @{a.state[1] if a.state else '-'}", ok,
                   "" if ok else f"count steps under {short(B.show(G))} without the word handshake {hs}", a.line)
        for a in fx.find(domain="sync", target="fsm_from_idle"):
            inl = q.Inliner(fx, a)
            G = inl.gformula(a)
            need = B.A("self.sink.valid") if cls == "Depacketizer" else inl.inline(B.from_expr(hs))
            ok = B.entails(G, need)
            ctx.ob("S3", PACKET, cls, f"fsm_from_idle <= {a.v} @{a.state[1] if a.state else '-'}", ok,
                   "" if ok else f"fsm_from_idle changes under {short(B.show(G))} without a transferred word", a.line)
        # shift strobes only with a transferred word
        for strobe in (("sr_load", "sr_shift") if cls == "Packetizer" else ("sr_shift", "sr_shift_leftover")):
            sets = [a for a in fx.find(domain="comb", target=strobe) if a.v == "1"]
            ctx.ob("S3", PACKET, cls, f"{strobe}:present", bool(sets), f"{strobe} never asserted", 0)
            for a in sets:
                inl = q.Inliner(fx, a)
                G = inl.gformula(a)
                need = inl.inline(B.from_expr(hs)) if cls == "Packetizer" else B.A("self.sink.valid")
                ok = B.entails(G, need)
                ctx.ob("S3", PACKET, cls, f"{strobe} @{a.state[1] if a.state else '-'}", ok,
                       "" if ok else f"{strobe} asserted under {short(B.show(G))} without a transferred word", a.line)

    # ---- P1 (by value): where the Packetizer finds the header's last bytes.  The header register is loaded whole in IDLE and shifted
    # by one word per accepted HEADER-SEND beat except the last, i.e. max(header_words - 2, 0) times; the bytes that do not fill a
    # word (offset header_words * data_width at load) are therefore read at min(header_words, 2) * data_width in the first
    # UNALIGNED-DATA-COPY beat.  The slice bound of that driver is evaluated for unaligned layouts of 1..5 header words.
    from .. import pyconst as _pc0
    fxp_ = fx_of(ctx, PACKET, "Packetizer")
    first = [a for a in fxp_.find(domain="comb") if a.state and a.state[1] == "UNALIGNED-DATA-COPY" and a.t.startswith("self.source.data[")
             and any("fsm_from_idle" in (c if isinstance(c, str) else norm(c)) and p_ for c, p_ in a.guards)]
    ctx.ob("P1", PACKET, "Packetizer", "first unaligned beat: header residue driver:present", len(first) == 1, f"{len(first)} drivers", 0)
    for a in first:
        v = fxp_.expand(a.value, depth=6, keep=("sr",))
        low = v.slice.lower if isinstance(v, ast.Subscript) and isinstance(v.slice, ast.Slice) and norm(v.value) == "sr" else None
        bad_ = None
        n_cfg = 0
        if low is None:
            bad_ = f"the residue is read as `{norm(v)[:80]}`, not as a slice of the header register"
        else:
            for dw_ in (16, 32, 64):
                bpc = dw_ // 8
                for hw_ in (1, 2, 3, 5):
                    for lo_ in sorted({1, bpc - 1}):
                        hl = hw_ * bpc + lo_
                        env_ = {"data_width": dw_, "bytes_per_clk": bpc, "header_words": hw_, "header_leftover": lo_, "aligned": False,
                                "sr": list(range(hl * 8)), "header": _pc0.NS(length=hl),
                                "self": _pc0.NS(sink=_pc0.NS(data=[0] * dw_), source=_pc0.NS(data=[0] * dw_)),
                                "sink": _pc0.NS(data=[0] * dw_), "source": _pc0.NS(data=[0] * dw_)}
                        try:
                            got = _pc0.Interp(env_, exact=True).ev(low)
                        except Exception as ex_:      # noqa
                            got = f"<{type(ex_).__name__}>"
                        n_cfg += 1
                        want = min(hw_, 2) * dw_
                        if got != want and bad_ is None:
                            bad_ = f"header of {hl} bytes on a {dw_}-bit stream ({hw_} whole words + {lo_} bytes): the residue is read at bit {got} of " \
                                   f"the header register, after {max(hw_ - 2, 0)} shift(s) it sits at bit {want}: the first payload beat carries other " \
                                   f"header bytes than the header's last ones"
        ctx.ob("P1", PACKET, "Packetizer", "first unaligned beat reads the header residue where the shifts left it (1, 2, 3, 5 header words)", bad_ is None and (low is None or n_cfg >= 18),
               bad_ or f"{n_cfg} layouts", a.line)

    # ---- P1 header twin
    fx = FX(ctx, PACKET, cls="Header", entries=("encode", "decode"), no_inline={"get_field"})
    enc = fx.flatten_value(fx.entry_returns.get("encode"), "ret:encode")
    dec = fx.flatten_value(fx.entry_returns.get("decode"), "ret:decode")
    ctx.need(enc and dec, "Header.encode/decode return no statements (anchor changed)")

    def window(e):
        for n in ast.walk(e):
            if isinstance(n, ast.Subscript) and isinstance(n.value, ast.Name) and n.value.id == "signal":
                return n
        return None

    def strip_rev(e):
        if isinstance(e, ast.Call) and isinstance(e.func, ast.Name) and e.func.id == "reverse_bytes" and len(e.args) == 1:
            return e.args[0], True
        return e, False

    def arms(e):
        """[(swap_flag or None, expr)] -- unfold `x if self.swap_field_bytes else y`."""
        if isinstance(e, ast.IfExp) and norm(e.test) == "self.swap_field_bytes":
            return [(True, e.body), (False, e.orelse)]
        return [(None, e)]

    def swap_of(a):
        for c, p in a.pyguards:
            if c == "self.swap_field_bytes":
                return p
        return None

    facts = {"encode": {}, "decode": {}}
    loops = {}
    for name, recs in (("encode", enc), ("decode", dec)):
        for a in recs:
            loops.setdefault(name, set()).add(tuple(it for _, it in a.loops))
            for swp_t, t in arms(fx.expand(a.target)):
                for swp_v, v in arms(fx.expand(a.value)):
                    swp = swap_of(a)
                    for s in (swp_t, swp_v):
                        if s is not None:
                            swp = s
                    sig_side, fld_side = (t, v) if name == "encode" else (v, t)
                    sig_side, rev_sig = strip_rev(sig_side)
                    fld_side, rev_fld = strip_rev(fld_side)
                    w = window(sig_side)
                    for sw in ([swp] if swp is not None else [True, False]):
                        facts[name][sw] = dict(window=norm(w) if w is not None else None, field=norm(fld_side),
                                               rev=(rev_sig or rev_fld), rev_on="signal" if rev_sig else ("field" if rev_fld else None),
                                               line=a.line)
    for name in ("encode", "decode"):
        its = loops.get(name, set())
        ok = len(its) == 1 and all(len(i) == 1 and i[0].startswith("sorted(") and "self.fields" in i[0] for i in its)
        ctx.ob("P1", PACKET, f"Header.{name}", "iterates sorted(self.fields.items())", ok,
               "" if ok else f"iteration {its} is not the sorted field list: encode/decode order may differ")
    for sw in (True, False):
        e, d = facts["encode"].get(sw), facts["decode"].get(sw)
        ctx.ob("P1", PACKET, "Header", f"both arms present (swap={sw})", bool(e and d),
               "" if (e and d) else "encode or decode has no arm for this swap setting")
        if not (e and d):
            continue
        ok = e["window"] is not None and e["window"] == d["window"]
        ctx.ob("P1", PACKET, "Header", f"same bit window (swap={sw})", ok,
               "" if ok else f"encode writes {e['window']} but decode reads {d['window']}", d["line"])
        ok = e["field"] == d["field"]
        ctx.ob("P1", PACKET, "Header", f"same field accessor (swap={sw})", ok,
               "" if ok else f"encode uses {e['field']} but decode {d['field']}", d["line"])
        ok = (e["rev"] == sw) and (d["rev"] == sw)
        ctx.ob("P1", PACKET, "Header", f"byte swap iff flag (swap={sw})", ok,
               "" if ok else f"swap={sw}: encode reverse_bytes={e['rev']}, decode reverse_bytes={d['rev']}", d["line"])
    e = facts["encode"].get(True)
    if e and e["window"]:
        w = ast.parse(e["window"], mode="eval").body
        lo, hi = norm(w.slice.lower), norm(w.slice.upper)
        ok = lo == "self.fields[k].byte * 8 + self.fields[k].offset" and hi == lo + " + self.fields[k].width"
        ctx.ob("P1", PACKET, "Header", "window = [byte*8+offset : +width]", ok,
               "" if ok else f"window is [{lo}:{hi}]", e["line"])

    # ---- P1 (by value): the byte-swap helper both sides apply, interpreted (lxs/pyconst.py) on bit vectors of every width a header
    # field can have: a permutation of the field's bits, the identity up to one byte, bytes mirrored for whole-byte widths, and
    # undone by a second application (decode applies to the window what encode applied to the field)
    from .. import pyconst as _pc
    cm = ctx.mod(COMMON)
    rb = [f_ for f_ in cm.tree.body if isinstance(f_, ast.FunctionDef) and f_.name == "reverse_bytes"]
    ctx.need(len(rb) == 1, "reverse_bytes is no longer defined in litex/gen/common.py (anchor changed)")
    ctx.analysed["functions"].add(f"{COMMON}::reverse_bytes")
    cat = _pc.Native(lambda *a: [b_ for x_ in a for b_ in x_])
    rb_funcs = {f_.name: f_ for f_ in cm.tree.body if isinstance(f_, ast.FunctionDef)}
    bad = {"perm": None, "small": None, "bytes": None, "inv": None}

    def swap(bits):
        r_ = _pc.call(rb[0], {"s": list(bits)}, consts={"Cat": cat}, funcs=rb_funcs)
        return r_[1] if r_[0] == "return" and isinstance(r_[1], list) else None
    n_w = 0
    try:
        for w_ in range(1, 73):
            bits = list(range(w_))
            once = swap(bits)
            n_w += 1
            if once is None or sorted(once) != bits:
                bad["perm"] = bad["perm"] or f"a {w_}-bit field is swapped to bits {once}: " + \
                    ("bits of the field are lost or repeated, both the wire layout and the decoded field are wrong" if once is not None else "not a bit vector")
                continue
            if w_ <= 8 and once != bits:
                bad["small"] = bad["small"] or f"a {w_}-bit field (one byte or less) is reordered to {once}"
            if w_ % 8 == 0:
                want = [b_ for j in reversed(range(w_ // 8)) for b_ in range(8 * j, 8 * j + 8)]
                if once != want:
                    bad["bytes"] = bad["bytes"] or f"{w_}-bit field: result {once[:16]}.., expected bytes mirrored {want[:16]}.."
            twice = swap(once)
            if twice != bits:
                bad["inv" if (w_ > 8 and w_ % 8) else "bytes"] = bad["inv" if (w_ > 8 and w_ % 8) else "bytes"] or \
                    f"a {w_}-bit field swapped by encode and swapped again by decode comes back as bits {twice}"
    except _pc.Unknowable as ex_:
        ctx.need(False, f"reverse_bytes cannot be interpreted ({ex_})")
    ctx.ob("P1", COMMON, "reverse_bytes", "widths 1..72:present", n_w == 72, f"{n_w} widths", rb[0])
    ctx.ob("P1", COMMON, "reverse_bytes", "byte swap is a permutation of the field's bits (widths 1..72)", bad["perm"] is None, bad["perm"] or "", rb[0])
    ctx.ob("P1", COMMON, "reverse_bytes", "fields of one byte or less are left as they are", bad["small"] is None, bad["small"] or "", rb[0])
    ctx.ob("P1", COMMON, "reverse_bytes", "whole-byte widths: bytes mirrored, bit order kept, second swap restores", bad["bytes"] is None, bad["bytes"] or "", rb[0])
    ctx.ob("P1", COMMON, "reverse_bytes", "widths above one byte that are not whole bytes: second swap restores", bad["inv"] is None, bad["inv"] or "", rb[0])

    # ---- P2 PacketFIFO
    fxp = fx_of(ctx, PACKET, "PacketFIFO")
    fail_closed(ctx, fxp, "PacketFIFO")
    s6_fork(ctx, "P2", fxp, "PacketFIFO", "self.sink", ["self.param_fifo.sink", "self.payload_fifo.sink"])
    inl = q.Inliner(fxp)
    f = inl.formula_of_path("self.param_fifo.sink.valid")
    ok = f is not None and B.entails(f, B.A("self.sink.last"))
    ctx.ob("P2", PACKET, "PacketFIFO", "param pushed only with last", ok, "" if ok else "param push is not qualified by sink.last")
    f = inl.formula_of_path("self.param_fifo.source.ready")
    need = B.from_expr("self.source.valid & self.source.last & self.source.ready")
    ok = f is not None and B.equivalent(f, need)
    ctx.ob("P2", PACKET, "PacketFIFO", "param popped on last beat handshake", ok,
           "" if ok else f"param_fifo.source.ready = {B.show(f) if f else '?'}; must be source.valid & source.last & source.ready")
    f = inl.formula_of_path("self.payload_fifo.source.ready")
    need = B.from_expr("self.source.valid & self.source.ready")
    ok = f is not None and B.equivalent(f, need)
    ctx.ob("P2", PACKET, "PacketFIFO", "payload popped on beat handshake", ok,
           "" if ok else f"payload_fifo.source.ready = {B.show(f) if f else '?'}")
    omits = {}
    keeps = {}
    for c in fxp.conns:
        k = c["conn"]
        key = (norm(k.src), norm(k.dst))
        try:
            omits[key] = set(_lit_set(k.omit)) if k.omit is not None else None
        except ValueError:
            omits[key] = "?"
        keeps[key] = norm(k.keep) if k.keep is not None else None
    po = omits.get(("self.param_fifo.source", "self.source"))
    yo = omits.get(("self.payload_fifo.source", "self.source"))
    ok = isinstance(po, set) and isinstance(yo, set) and "valid" not in po and "valid" in yo
    ctx.ob("P2", PACKET, "PacketFIFO", "source.valid from the param FIFO (complete packets only)", ok,
           "" if ok else f"omit sets param={po} payload={yo}: source.valid must come from the param FIFO only")
    ok = isinstance(po, set) and isinstance(yo, set) and "last" in po and "last" not in yo
    ctx.ob("P2", PACKET, "PacketFIFO", "source.last from the payload FIFO", ok,
           "" if ok else f"omit sets param={po} payload={yo}")
    ok = isinstance(po, set) and isinstance(yo, set) and "ready" in po and "ready" in yo
    ctx.ob("P2", PACKET, "PacketFIFO", "ready of both FIFOs driven explicitly", ok, "" if ok else f"omit sets param={po} payload={yo}")
    kp = keeps.get(("self.sink", "self.payload_fifo.sink"))
    ok = kp is not None and "'last'" in kp
    ctx.ob("P2", PACKET, "PacketFIFO", "payload FIFO keeps last", ok, "" if ok else f"keep set {kp} loses the packet delimiter")
    s5_omit(ctx, "P2", fxp, "PacketFIFO", allow={("PacketFIFO", "dummy")})

    # ---- P3 Status / Arbiter / Dispatcher
    fxs = fx_of(ctx, PACKET, "Status")
    fail_closed(ctx, fxs, "Status")
    inl = q.Inliner(fxs)
    f = inl.formula_of_path("self.last")
    ok = f is not None and B.equivalent(f, B.from_expr("endpoint.valid & endpoint.last & endpoint.ready"))
    ctx.ob("P3", PACKET, "Status", "last = valid & last & ready", ok, "" if ok else f"last = {B.show(f) if f else '?'}")
    f = inl.formula_of_path("self.ongoing")
    ok = f is not None and B.equivalent(f, B.from_expr("(endpoint.valid | ongoing) & ~(endpoint.valid & endpoint.last & endpoint.ready)"))
    ctx.ob("P3", PACKET, "Status", "ongoing = (valid | ongoing_r) & ~last", ok, "" if ok else f"ongoing = {B.show(f) if f else '?'}")
    regs = fxs.find(domain="sync", target="ongoing")
    ok = len(regs) == 1 and not regs[0].guards and regs[0].v == "self.ongoing"
    ctx.ob("P3", PACKET, "Status", "ongoing_r is an unconditional copy of ongoing", ok, "" if ok else "ongoing register is gated or missing")
    for a in fxs.find(domain="sync", target="self.first"):
        G = q.gformula(fxs, a)
        if a.v == "1":
            ok = B.equivalent(G, B.from_expr("endpoint.valid & endpoint.last & endpoint.ready"))
            ctx.ob("P3", PACKET, "Status", "first set on last handshake (priority)", ok, "" if ok else f"first set under {B.show(G)}", a.line)
        else:
            ok = B.equivalent(G, B.from_expr("endpoint.valid & endpoint.ready & ~endpoint.last"))
            ctx.ob("P3", PACKET, "Status", "first cleared on a non-last handshake", ok, "" if ok else f"first cleared under {B.show(G)}", a.line)
    prio(ctx, "PRIO", fxs, "Status")

    fxa = fx_of(ctx, PACKET, "Arbiter")
    fail_closed(ctx, fxa, "Arbiter")
    arbiter_requests(ctx, "P3", fxa)
    n = 0
    for c in fxa.conns:
        k = c["conn"]
        if not c["guards"]:
            continue
        src = norm(k.src)
        G = B.guard_formula(c["guards"])
        if src.startswith("masters["):
            idx = src[len("masters["):-1]
            ok = B.equivalent(G, B.A(f"self.rr.grant == {idx}")) and norm(k.dst) == "slave"
            ctx.ob("P3", PACKET, "Arbiter", "masters[i] connected under grant == i", ok,
                   "" if ok else f"{src}.connect({norm(k.dst)}) under {B.show(G)}", c["node"])
            n += 1
    ctx.ob("P3", PACKET, "Arbiter", "grant-gated connect:present", n > 0, "no grant-gated master connect found", 0)

    fxd = fx_of(ctx, PACKET, "Dispatcher")
    fail_closed(ctx, fxd, "Dispatcher")
    lat = fxd.find(domain="sync", target="sel_ongoing")
    ctx.ob("P3", PACKET, "Dispatcher", "latch:present", bool(lat), "selector latch vanished", 0)
    for a in lat:
        G = q.gformula(fxd, a)
        ok = B.entails(G, B.A("status.first")) and a.v == "self.sel"
        ctx.ob("P3", PACKET, "Dispatcher", "selector latched only on first", ok,
               "" if ok else f"sel_ongoing <= {a.v} under {B.show(G)}: destination can change mid-packet", a.line)
    for a in fxd.find(domain="comb", target="sel"):
        G = q.gformula(fxd, a)
        want = "self.sel" if B.entails(G, B.A("status.first")) else "sel_ongoing"
        ok = a.v == want and (B.entails(G, B.A("status.first")) or B.entails(G, B.Not(B.A("status.first"))))
        ctx.ob("P3", PACKET, "Dispatcher", f"sel <= {want}", ok, "" if ok else f"sel <= {a.v} under {B.show(G)}", a.line)
    # the latch and the effective selector hold copies of self.sel (binary or one-hot, whichever was asked for): as wide as self.sel
    dcls = ctx.mod(PACKET).classes["Dispatcher"]
    for reg in ("sel_ongoing", "sel"):
        ok, txt = q.holds_copy_of(fxd, dcls, reg, "self.sel")
        ctx.ob("P3", PACKET, "Dispatcher", f"{reg} is as wide as self.sel", ok,
               "" if ok else f"{reg} = {txt} holds a copy of self.sel, which is declared differently (one bit per slave when one_hot): the latched "
                             f"destination is truncated, the rest of a packet goes to another slave or is drained", fxd.decl[reg][1] if reg in fxd.decl else 0)
    st = [i for i in fxd.insts if i.cls == "Status" and i.call is not None and i.call.args]
    ok = bool(st) and norm(st[0].call.args[0]) == "master"
    ctx.ob("P3", PACKET, "Dispatcher", "Status tracks the master stream", ok, "" if ok else "Status is not built on master")
    n = 0
    for c in fxd.conns:
        k = c["conn"]
        dst = norm(k.dst)
        if dst.startswith("slaves[") and c["guards"]:
            idx = dst[len("slaves["):-1]
            G = B.guard_formula(c["guards"])
            ats = B.atoms(G)
            ok = len(ats) == 1 and ats[0].startswith("sel == ") and idx in ats[0] and norm(k.src) == "master" and \
                B.equivalent(G, B.A(ats[0]))
            ctx.ob("P3", PACKET, "Dispatcher", "master connected to slaves[i] under sel == idx(i)", ok,
                   "" if ok else f"master.connect({dst}) under {B.show(G)}", c["node"])
            n += 1
    ctx.ob("P3", PACKET, "Dispatcher", "sel-gated connect:present", n > 0, "no selector-gated connect found", 0)
    dflt = [a for a in fxd.find(domain="comb", target="master.ready") if a.v == "1"]
    ok = bool(dflt) and all(p is False for a in dflt for _, p in a.guards) and all(a.guards for a in dflt)
    ctx.ob("P3", PACKET, "Dispatcher", "default arm drains (master.ready = 1)", ok,
           "" if ok else "no default arm that drains packets routed to no slave")
    prio(ctx, "PRIO", fxd, "Dispatcher")


def run_thorough(ctx):
    pass
