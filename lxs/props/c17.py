"""C17 -- 8b/10b coding is invertible, DC-balanced and comma-safe (claimed, narrow).

Decided (structural, necessary): K1 every state update of encoder / decoder / stream wrappers happens under
the clock enable (a state update during a stall shifts data against the valid pipeline); K2 the running
disparity chain (word i+1 takes word i's disparity, word 0 the registered disparity of the last word);
K3 literal tables: valid ones-count set {4,5,6}; 5b/6b and 3b/4b table shape (entry count, width, disparity
in {0, +-2}, entries and flipped complements pairwise distinct), flip lists = unbalanced lists + the D.7 /
D.x.3 patches, K.28 and alternate-7 patches hit unused slots.
Not decided: invertibility, run length, comma freedom (value properties of the logic)."""
import ast
from ..core import AnalysisError, norm, const_fold, cnorm
from .. import boolx as B
from .. import q
from ..rules_stream import fx_of, fail_closed, prio, short

F = "litex/soc/cores/code_8b10b.py"

EXPLANATION = ("FHDL IR of the 8b/10b encoder/decoder classes extracted from the AST: every sync assignment's guard must "
               "entail the clock enable; wiring of the disparity chain on the symbolic pair index; literal evaluation of the "
               "code tables and of their patch statements against arithmetic invariants computed by the checker.")
TECHNIQUE = "AST-extracted FHDL IR + guard entailment (clock enable) + literal table invariants"


def _disp(w, n):
    ones = bin(w & ((1 << n) - 1)).count("1")
    return ones - (n - ones)


def run(ctx):
    ctx.rule("K1", "every state update is under the clock enable: SingleEncoder is wrapped by CEInserter; Encoder/Decoder sync "
                   "assignments entail self.ce; decoder memory read enable <- ce; stream wrappers drive every ce from pipe_ce",
             min_sites=21)
    ctx.rule("K2", "disparity chain: encoders[0].disp_in <- registered encoders[-1].disp_out (under ce); e2.disp_in <- "
                   "e1.disp_out over consecutive pairs; data/k/outputs wired index-wise", min_sites=6)
    ctx.rule("K3", "literal tables: ones-count validity set {4,5,6}; table shapes; flips = unbalanced + patches; complements "
                   "distinct; K.28 / alternate-7 patches on unused slots", min_sites=21)
    ctx.rule("K4", "alternate 3b/4b code selection: alt7 flags = y == 7 & (x in {17,18,20} at RD- | x in {11,13,14} at RD+ | k); "
                   "0111 / 1000 emitted exactly under them and flip the running disparity", min_sites=5)
    ctx.rule("K5", "stream wrappers keep the lanes apart: lane i of the wide stream word (8 data bits, its own k flag, 10 code bits) "
                   "is wired to word i of the coder and back -- index and slice bounds agree with the lane of the other side",
             min_sites=6)
    ctx.rule("K6", "pipeline alignment: every def-use path from a code word's own inputs (d, k / input) to the outputs computed from "
                   "it crosses exactly one register stage -- a flag read from the input port in the output stage belongs to the NEXT "
                   "symbol (K flip applied one symbol late); the incoming disparity is used in the output stage only", min_sites=8)
    ctx.rule("K7", "the decode tables invert the encode tables: the module-level table construction (reverse_table / reverse_table_flip and "
                   "the patch statements) is evaluated by the checker's interpreter and every code word the 5b/6b and 3b/4b encoders can "
                   "emit -- primary, complemented when the entry may flip, K.28 and the alternate x.7 codes -- decodes to its index; "
                   "the K.x.y 4b tables decode both disparities", min_sites=6)
    ctx.rule("PRIO", "no dead driver", min_sites=1)
    _k7(ctx)

    m = ctx.mod(F)
    _k5(ctx)
    _k6(ctx)
    # ================================================================ K1
    fx = fx_of(ctx, F, "SingleEncoder")
    fail_closed(ctx, fx, "SingleEncoder")
    prio(ctx, "PRIO", fx, "SingleEncoder")
    ok = any(d.startswith("CEInserter(") for d in fx.decorators)
    ctx.ob("K1", F, "SingleEncoder", "class wrapped by @CEInserter()", ok,
           "" if ok else f"decorators {fx.decorators}: the two pipeline stages of every encoder advance during stalls")
    for cls in ("Encoder", "Decoder"):
        fx = fx_of(ctx, F, cls)
        fail_closed(ctx, fx, cls)
        sy = fx.find(domain="sync")
        ctx.ob("K1", F, cls, "sync assignments:present", len(sy) >= 3, f"{len(sy)} sync assignments", 0)
        for a in sy:
            G = a.eff()
            ok = B.entails(G, B.A("self.ce"))
            ctx.ob("K1", F, cls, f"{short(a.t, 40)} updated only under ce", ok,
                   "" if ok else f"`{a.t} <= {short(a.v, 40)}` under {B.show(G)}: state advances while the stream is stalled", a.line)
    fx = fx_of(ctx, F, "Decoder")
    pd = fx.decl.get("port_6b5b")
    ok = pd is not None and pd[1] is not None and any(k.arg == "has_re" and norm(k.value) == "True" for k in pd[1].keywords)
    ctx.ob("K1", F, "Decoder", "table memory port has a read enable", ok, "" if ok else "port_6b5b lacks has_re=True")
    re_ = fx.find(domain="comb", target="port_6b5b.re")
    ok = len(re_) == 1 and re_[0].v == "self.ce" and not re_[0].guards
    ctx.ob("K1", F, "Decoder", "memory read enable <- ce", ok, "" if ok else f"{[a.v for a in re_]}")
    fx = fx_of(ctx, F, "Encoder")
    ce = [a for a in fx.find(domain="comb") if a.t.endswith(".ce")]
    ok = len(ce) == 1 and ce[0].v == "self.ce" and any(it == "encoders" for _, it in ce[0].loops)
    ctx.ob("K1", F, "Encoder", "every SingleEncoder's ce <- self.ce", ok, "" if ok else f"{[(a.t, a.v, a.loops) for a in ce]}")
    fx = fx_of(ctx, F, "StreamEncoder")
    ce = fx.find(domain="comb", target="self.encoder.ce")
    ok = len(ce) == 1 and ce[0].v == "self.pipe_ce"
    ctx.ob("K1", F, "StreamEncoder", "encoder.ce <- pipe_ce", ok, "" if ok else f"{[a.v for a in ce]}")
    fx = fx_of(ctx, F, "StreamDecoder")
    ce = [a for a in fx.find(domain="comb") if a.t.endswith(".ce")]
    import re as _re1
    ok = len(ce) == 1 and ce[0].v == "self.pipe_ce" and bool(_re1.fullmatch(r"decoders\[\w+\]\.ce", ce[0].t)) and \
        any(it in ("range(nwords)", "decoders", "enumerate(decoders)") for _, it in ce[0].loops) and not ce[0].guards
    ctx.ob("K1", F, "StreamDecoder", "every decoder's ce <- pipe_ce", ok, "" if ok else f"{[(a.t, a.v) for a in ce]}")
    # latency declared for the valid pipeline = register depth of the wrapped coder (2 stages + output register / 1)
    for cls, base in (("StreamEncoder", "stream.PipelinedActor"), ("StreamDecoder", "stream.PipelinedActor")):
        c = m.cls(cls)
        ok = any(norm(b) == base for b in c.bases)
        ctx.ob("K1", F, cls, "built on PipelinedActor (valid pipeline gated by pipe_ce)", ok, "" if ok else f"bases {[norm(b) for b in c.bases]}")

    # ================================================================ K2
    fx = fx_of(ctx, F, "Encoder")
    d0 = [a for a in fx.find() if a.t == "encoders[0].disp_in"]
    ok = len(d0) == 1 and d0[0].domain.startswith("sync") and d0[0].v == "encoders[-1].disp_out"
    ctx.ob("K2", F, "Encoder", "word 0 starts from the registered disparity of the last word", ok, "" if ok else f"{[(a.domain, a.v) for a in d0]}")
    ch = [a for a in fx.find(domain="comb") if a.t.endswith(".disp_in")]
    ok = len(ch) == 1 and not ch[0].guards
    if ok:
        a = ch[0]
        its = [it for _, it in a.loops]
        idx = a.t[len("encoders[1:]["):a.t.index("]", len("encoders[1:]["))] if a.t.startswith("encoders[1:][") else None
        ok = its == ["zip(encoders, encoders[1:])"] and idx is not None and a.v == f"encoders[{idx}].disp_out"
    ctx.ob("K2", F, "Encoder", "word i+1 takes word i's output disparity (consecutive pairs)", ok, "" if ok else f"{[(a.t, a.v, a.loops) for a in ch]}")
    for t, v in (("encoders[{k}].d", "self.d[{k}]"), ("encoders[{k}].k", "self.k[{k}]"), ("self.output[{k}]", "encoders[{k}].output"),
                 ("self.disparity[{k}]", "encoders[{k}].disp_out")):
        hit = [a for a in fx.find() if a.loops and a.t.replace(a.loops[-1][0], "") is not None and
               a.t == t.format(k=_idx(a)) and a.v == v.format(k=_idx(a))]
        ctx.ob("K2", F, "Encoder", f"{t.format(k='i')} <- {v.format(k='i')} (same word index)", len(hit) == 1,
               f"{[(a.t, a.v) for a in fx.find() if t.split('[')[0] in a.t][:3]}")

    # ================================================================ K3
    fx = fx_of(ctx, F, "Decoder")
    inv = fx.find(domain="comb", target="self.invalid")
    ok = len(inv) == 1
    vals = set()
    if ok:
        # decision table over the possible counts 0..10 of a 10-bit word (any spelling: != chains, range tests, ...)
        tab = q.eval_over(q.Inliner(fx, inv[0]).inline(B.from_expr(inv[0].value)), "ones", range(11))
        vals = {v for v, t in (tab or {}).items() if not t}
        ok = tab is not None and not inv[0].guards and vals == {4, 5, 6}
    ctx.ob("K3", F, "Decoder", "invalid <=> ones-count not in {4,5,6}", ok, "" if ok else f"{[a.v for a in inv]} (set {sorted(vals)})")
    on = fx.find(domain="sync", target="ones")
    ok = len(on) == 1 and isinstance(on[0].value, ast.Call) and norm(on[0].value.func) == "Reduce" and len(on[0].value.args) == 2 and \
        norm(on[0].value.args[0]) == "'ADD'"
    if ok:
        els = q.star_elements(on[0].value.args[1])
        ok = bool(els) and len(els) == 1 and els[0][2] == "range(10)" and norm(els[0][0]) == f"self.input[{els[0][1]}]"
    ctx.ob("K3", F, "Decoder", "ones = sum of the ten input bits", ok, "" if ok else f"{[a.v for a in on]}")
    # the count is taken with every word the decoder takes: same enable as the decoded outputs (k is cleared under it), whatever
    # the word looks like -- otherwise `invalid` describes an earlier word
    kz = [a for a in fx.find(domain="sync", target="self.k") if a.v == "0"]
    ok = len(on) == 1 and len(kz) == 1 and q.EQ(on[0], B.A("self.ce")) and B.equivalent(B.guard_formula(kz[0].guards), B.A("self.ce"))
    ctx.ob("K3", F, "Decoder", "ones-count registered for every accepted word (enable = ce, as the decoded outputs)", ok,
           "" if ok else f"ones <= under {[a.gtext() for a in on]}; k <= 0 under {[a.gtext() for a in kz]}")
    try:
        t56 = const_fold(m.const("table_5b6b"))
        t34 = const_fold(m.const("table_3b4b"))
    except ValueError as e:
        raise AnalysisError(f"{F}: code tables are no longer literals: {e}")
    ok = len(t56) == 32 and all(isinstance(x, int) and 0 <= x < 64 for x in t56) and len(set(t56)) == 32
    ctx.ob("K3", F, "table_5b6b", "32 distinct 6-bit entries", ok, "" if ok else f"{len(t56)} entries")
    # control flag of the decoder: decision table of self.k (q.concrete_value on the IR) over every code word the encoder can emit,
    # built from the literal 5b/6b and 3b/4b tables in both polarities: k = 1 exactly for K28.y (6b 001111 / 110000) and for
    # K.x.7, x in {23, 27, 29, 30}, which always use the alternate 0111 / 1000; k = 0 for every data word, including D.x.A7
    if ok and len(t34) == 8:
        ks = fx.find(domain="sync", target="self.k")

        def pol(w, n):
            return {w, ~w & (2**n - 1)} if _disp(w, n) else {w}
        want = {}
        for x in range(32):
            for w6 in pol(t56[x], 6):
                for y in range(8):
                    for w4 in pol(t34[y], 4):
                        want.setdefault((w6, w4), 0)
                if x in (23, 27, 29, 30):
                    want[(w6, 0b0111)] = 1
                    want[(w6, 0b1000)] = 1
        for x, w4 in ((17, 0b0111), (18, 0b0111), (20, 0b0111), (11, 0b1000), (13, 0b1000), (14, 0b1000)):
            want[(t56[x], w4)] = 0
        for w4 in range(16):
            want[(0b001111, w4)] = 1
            want[(0b110000, w4)] = 1
        badk = None
        for (w6, w4), k_ in sorted(want.items()):
            env = {"input_msb_first[4:]": w6, "input_msb_first[:4]": w4, "code6b": w6, "code4b": w4, "self.ce": 1}
            try:
                got = q.concrete_value(fx, ks, env, default=0)
            except q.NotConcrete as ex:
                badk = f"self.k depends on `{ex}`, which the code word does not fix"
                break
            if got != k_:
                badk = f"code word {w6:06b} {w4:04b} is decoded with k = {got}, the encoder emits it for a {'control' if k_ else 'data'} symbol"
                break
        ctx.ob("K3", F, "Decoder", "control flag: k = 1 exactly for the K28.y and K.x.7 code words among all words the encoder emits", badk is None,
               badk or "", ks[0].line if ks else 0)
    ds = {_disp(x, 6) for x in t56}
    ok = ds <= {0, 2} or ds <= {0, -2}
    ctx.ob("K3", F, "table_5b6b", "disparity of every entry is 0 or 2 of one sign (one RD column)", ok,
           "" if ok else f"{[(i, bin(x), _disp(x, 6)) for i, x in enumerate(t56) if _disp(x, 6) not in (0, 2, -2)] or sorted(ds)}")
    ok = len(t34) == 8 and all(isinstance(x, int) and 0 <= x < 16 for x in t34) and len(set(t34)) == 8
    ctx.ob("K3", F, "table_3b4b", "8 distinct 4-bit entries", ok, "" if ok else f"{t34}")
    ds = {_disp(x, 4) for x in t34}
    ok = ds <= {0, 2} or ds <= {0, -2}
    ctx.ob("K3", F, "table_3b4b", "disparity of every entry is 0 or 2 of one sign", ok, "" if ok else f"{[(bin(x), _disp(x, 4)) for x in t34]}")
    # derived tables and patches: the *values* the module-level statements leave in the tables (constant propagation over the
    # module body with the helper functions interpreted, lxs/pyconst.py) against the values the construction prescribes:
    # flips = unbalanced entries + the D.7 / D.x.3 patches; decoder tables = inverse of the code words and of their flipped
    # complements + the K.28 / alternate-7 / control patches on unused slots
    from .. import pyconst
    funcs = {n.name: n for n in m.tree.body if isinstance(n, ast.FunctionDef)}
    it = pyconst.Interp(funcs=funcs)
    try:
        it.run([st for st in m.tree.body if not isinstance(st, (ast.FunctionDef, ast.ClassDef, ast.Import, ast.ImportFrom))])
    except Exception as ex:
        raise AnalysisError(f"{F}: module-level table code cannot be interpreted: {ex}")
    tabs = {k: v for k, v in it.env.items() if v is not pyconst.UNKNOWN}

    def rev(words, flips, nbits):
        out = [None] * (1 << nbits)
        for idx, (w, fl) in enumerate(zip(words, flips)):
            out[w] = idx
            if fl:
                out[~w & ((1 << nbits) - 1)] = idx
        return [0 if x is None else x for x in out]
    unb56 = [bool(_disp(c, 6)) for c in t56]
    flip56 = list(unb56)
    flip56[7] = True
    unb34 = [bool(_disp(c, 4)) for c in t34]
    flip34 = list(unb34)
    flip34[3] = True
    t65 = rev(t56, flip56, 6)
    t65[0b001111] = t65[0b110000] = 0b11100
    t43 = rev(t34, flip34, 4)
    t43[0b0111] = t43[0b1000] = 0b0111
    tkn = rev(t34, [False] * 8, 4)
    tkn[0b0001], tkn[0b1000] = 0, 7
    tkp = rev([~x & 15 for x in t34], [False] * 8, 4)
    tkp[0b1110], tkp[0b0111] = 0, 7
    want_tabs = {"table_5b6b_unbalanced": unb56, "table_5b6b_flip": flip56, "table_3b4b_unbalanced": unb34, "table_3b4b_flip": flip34,
                 "table_6b5b": t65, "table_4b3b": t43, "table_4b3b_kn": tkn, "table_4b3b_kp": tkp}
    for k, want in want_tabs.items():
        got = tabs.get(k)
        ok = got is not None and [int(x) if not isinstance(x, bool) else x for x in got] == want and \
            (not isinstance(want[0], bool) or all(bool(a) == b for a, b in zip(got, want)))
        diff = [(i_, a, b) for i_, (a, b) in enumerate(zip(got, want)) if a != b][:4] if isinstance(got, list) and len(got) == len(want) else got
        ctx.ob("K3", F, k, "final table value = construction from the code tables + documented patches", ok,
               "" if ok else f"{k} differs at (index, is, should be) {diff}: " +
               ("a code word is (not) complemented at the wrong running disparity" if "flip" in k or "unbalanced" in k else
                "a received code word decodes to the wrong symbol / a patch overwrites a used slot"))
    used6 = set(t56) | {(~w) & 63 for w, f in zip(t56, flip56) if f}
    ok = len(used6) == 32 + sum(flip56)
    ctx.ob("K3", F, "table_5b6b", "entries and flipped complements pairwise distinct (decoder table well defined)", ok,
           "" if ok else "a 6-bit code word would decode to two symbols")
    ok = not ({0b001111, 0b110000} & used6)
    ctx.ob("K3", F, "table_6b5b", "K.28 patches (001111, 110000 -> 28) on unused slots", ok, "" if ok else f"used {sorted({0b001111, 0b110000} & used6)}")
    used4 = set(t34) | {(~w) & 15 for w, f in zip(t34, flip34) if f}
    ok = len(used4) == 8 + sum(flip34)
    ctx.ob("K3", F, "table_3b4b", "entries and flipped complements pairwise distinct", ok, "" if ok else "a 4-bit code word would decode to two symbols")
    ok = not ({0b0111, 0b1000} & used4)
    ctx.ob("K3", F, "table_4b3b", "alternate D.x.7 patches (0111, 1000 -> 7) on unused slots", ok, "" if ok else f"used {sorted({7, 8} & used4)}")
    # disparity helper: ones - zeros, for every 6-bit and 4-bit word
    df = m.func("disparity")
    badd = None
    try:
        for nb in (4, 6):
            for w in range(1 << nb):
                got = pyconst.call(df, {"word": w, "nbits": nb}, funcs=funcs)
                if got != ("return", _disp(w, nb)) and badd is None:
                    badd = (w, nb, got)
    except pyconst.Unknowable as ex:
        raise AnalysisError(f"{F}: disparity() cannot be interpreted: {ex}")
    ok = badd is None
    ctx.ob("K3", F, "disparity", "disparity = ones - zeros", ok, "" if ok else f"disparity({bin(badd[0])}, {badd[1]}) = {badd[2]}")
    # encoder special cases reference the same literals
    fx = fx_of(ctx, F, "SingleEncoder")
    k28 = [a for a in fx.find(domain="sync", target="code6b") if a.v == "48"]
    ok = len(k28) == 1 and q.EQ(k28[0], B.from_expr("self.k & (self.d[:5] == 28)"))
    ctx.ob("K3", F, "SingleEncoder", "K.28 encodes to 110000 (the slot patched in the decoder table)", ok, "" if ok else f"{[(a.v, a.gtext()) for a in k28]}")
    o4 = {a.v for a in fx.find(domain="comb", target="output_4b") if a.v in ("7", "8")}
    ctx.ob("K3", F, "SingleEncoder", "alternate D.x.7 emits 0111 / 1000 (the slots patched in the decoder table)", o4 == {"7", "8"}, f"{o4}")
    # ---- K4 alternate-7 selection (IEEE 802.3 36.2.4.5 / Widmer-Franaszek): D.x.A7 when RD- and x in {17,18,20}, when RD+ and x in
    #      {11,13,14}; K.x.7 always uses it
    for flag, xs in (("alt7_rd0", (17, 18, 20)), ("alt7_rd1", (11, 13, 14))):
        ds = fx.find(domain="sync", target=flag)
        sets = [a for a in ds if a.v != "0"]
        # next value of the flag (later assignments win; no "hold" term may survive: the flag is recomputed every cycle)
        F1 = q.value_formula(fx, ds) if ds else B.F
        want = B.from_expr("(self.d[5:] == 7) & ((self.d[:5] == %d) | (self.d[:5] == %d) | (self.d[:5] == %d) | self.k)" % xs)
        ok = bool(ds) and B.equivalent(F1, want)
        ctx.ob("K4", F, "SingleEncoder", f"{flag} = y == 7 & (x in {set(xs)} | k), cleared otherwise", ok,
               "" if ok else f"{flag} is set under {B.show(F1)}; expected {B.show(want)}: a D.x.7 / K.x.7 symbol takes the primary 3b/4b code "
                             f"at this running disparity (five equal bits in a row / a control symbol that decodes as data); e.g. "
                             f"{B.counterexample(F1, want) or B.counterexample(want, F1)}", (sets or ds or [None])[0].line if (sets or ds) else 0)
    arms = {a.v: a for a in fx.find(domain="comb", target="output_4b") if a.v in ("7", "8")}
    if set(arms) == {"7", "8"}:
        g7, g8 = arms["7"].eff(), arms["8"].eff()
        ok = B.equivalent(g7, B.from_expr("~disp_inter & alt7_rd0")) and B.equivalent(g8, B.from_expr("disp_inter & alt7_rd1"))
        ctx.ob("K4", F, "SingleEncoder", "0111 at RD- with alt7_rd0, 1000 at RD+ with alt7_rd1", ok,
               "" if ok else f"0111 under {B.show(g7)}, 1000 under {B.show(g8)}", arms["7"].line)
        for v in ("7", "8"):
            dd = [a for a in fx.find(domain="comb", target="self.disp_out") if q.EQ(a, arms[v].eff())]
            ok = len(dd) == 1 and dd[0].v == "~disp_inter"
            ctx.ob("K4", F, "SingleEncoder", f"alternate code {'0111' if v == '7' else '1000'} flips the running disparity", ok,
                   "" if ok else f"{[(a.v, a.gtext()) for a in dd]}", arms[v].line)


def _lane(text, iv):
    """(base path, lane width w) when `text` is base[i] (w = 1) or base[w*i : w*(i+1)] in the loop variable iv, else None"""
    from .. import lin
    try:
        e = ast.parse(text, mode="eval").body
    except SyntaxError:
        return None
    if not isinstance(e, ast.Subscript):
        return None
    base = norm(e.value)
    if not isinstance(e.slice, ast.Slice):
        return (base, 1) if norm(e.slice) == iv else None
    if e.slice.lower is None or e.slice.upper is None or e.slice.step is not None:
        return None
    lo, hi = lin.linform(e.slice.lower), lin.linform(e.slice.upper)
    w = lo.get(iv) if set(lo) <= {iv} else None
    if not isinstance(w, int) or w <= 0:
        return None
    return (base, w) if lin.sub(hi, lo) == {1: w} and not lin.sub(lo, {iv: w}) else None


def _k6(ctx):
    fx = fx_of(ctx, F, "SingleEncoder")
    for out in ("self.output", "self.disp_out"):
        dep = q.stage_depths(fx, out, ["self.d", "self.k", "self.disp_in"])
        for inp, want in (("self.d", {1}), ("self.k", {1}), ("self.disp_in", {0})):
            got = dep.get(inp, set())
            ok = got == want
            ctx.ob("K6", F, "SingleEncoder", f"{out} <- {inp}: register depth {sorted(want)}", ok,
                   "" if ok else f"{inp} reaches {out} through {sorted(got)} register stage(s): the symbol's own {inp.split('.')[-1]} and "
                                 f"the table look-ups registered from it are not in the same pipeline stage")
    fx = fx_of(ctx, F, "Decoder")
    for out in ("self.d", "self.k", "self.invalid"):
        dep = q.stage_depths(fx, out, ["self.input"], mem_ports=["port_6b5b"])
        got = dep.get("self.input", set())
        ok = got == {1}
        ctx.ob("K6", F, "Decoder", f"{out} <- self.input: register depth [1]", ok,
               "" if ok else f"self.input reaches {out} through {sorted(got)} register stage(s): the outputs of one code word are not aligned")


def _k5(ctx):
    want = {"StreamEncoder": [("self.encoder.k", 1, "self.sink.k", 1), ("self.encoder.d", 1, "self.sink.d", 8),
                              ("self.source.data", 10, "self.encoder.output", 1)],
            "StreamDecoder": [("decoders.input", 0, "self.sink.data", 10), ("self.source.k", 1, "decoders.k", 0),
                              ("self.source.d", 8, "decoders.d", 0)]}
    for cls, rows in want.items():
        fx = fx_of(ctx, F, cls)
        def _lane_index(a):
            """the lane index variable of a per-lane statement: `i in range(n)` or `(i, x) in enumerate(xs)`"""
            var, it = a.loops[-1]
            if it.startswith("enumerate(") and var.startswith("("):
                return var.strip("()").split(",")[0].strip()
            return var
        lanes = [a for a in fx.find(domain="comb") if a.loops and any(it.startswith(("range(", "enumerate(")) for _, it in a.loops)]
        for tb, tw, vb, vw in rows:
            def side(text, iv, base, w):
                if w == 0:
                    # a port of the i-th coder: decoders[i].input
                    obj, attr = base.split(".")
                    return text == f"{obj}[{iv}].{attr}"
                ln = _lane(text, iv)
                return ln == (base, w)
            hit = []
            for a in lanes:
                iv = _lane_index(a)
                if (side(a.t, iv, tb, tw) or (tw and (_lane(a.t, iv) or ("", 0))[0] == tb) or (not tw and a.t.startswith(tb.split(".")[0] + "[") and
                                                                                         a.t.endswith("." + tb.split(".")[1]))):
                    hit.append((a, iv))
            ok = len(hit) == 1 and side(hit[0][0].t, hit[0][1], tb, tw) and side(hit[0][0].v, hit[0][1], vb, vw) and not hit[0][0].guards
            ctx.ob("K5", F, cls, f"lane i: {tb} <- {vb}", ok,
                   "" if ok else f"{[(a.t, a.v) for a, _ in hit] or 'no per-lane driver'}: word i of the coder is not wired to lane i of the stream (its own "
                                 f"{vw or 1}-bit slice / flag): lanes are mixed up or share one bit", hit[0][0].line if hit else 0)


def _idx(a):
    for v, it in a.loops:
        if it.startswith("zip("):
            # the shared zip index is the subscript used in the target
            t = a.t
            if "[" in t:
                return t[t.index("[") + 1:t.index("]")]
    return "?"


def _k7(ctx):
    from .. import pyconst
    m = ctx.mod(F)
    it = pyconst.Interp({}, exact=True, funcs={f.name: f for f in m.tree.body if isinstance(f, ast.FunctionDef)})
    try:
        it.run([st for st in m.tree.body if isinstance(st, (ast.Assign, ast.AugAssign, ast.For, ast.If))])
    except pyconst.Raised as ex:
        # the module's own consistency check (two code words claim one decode slot) fires: the tables are not invertible
        ctx.ob("K7", F, "<tables>", "all eight tables are compile-time constants of the expected size", False,
               f"the module-level table construction raises ({ex}): two code words collide in a decode table")
        return
    except Exception as ex:     # noqa
        ctx.need(False, f"{F}: the module-level table construction cannot be interpreted ({type(ex).__name__}: {ex})")
    T = {k: it.env.get(k) for k in ("table_5b6b", "table_5b6b_flip", "table_6b5b", "table_3b4b", "table_3b4b_flip", "table_4b3b",
                                    "table_4b3b_kn", "table_4b3b_kp")}
    sizes = {"table_5b6b": 32, "table_5b6b_flip": 32, "table_6b5b": 64, "table_3b4b": 8, "table_3b4b_flip": 8, "table_4b3b": 16,
             "table_4b3b_kn": 16, "table_4b3b_kp": 16}
    okt = all(isinstance(T[k], list) and len(T[k]) == n and all(isinstance(x, (int, bool)) for x in T[k]) for k, n in sizes.items())
    ctx.ob("K7", F, "<tables>", "all eight tables are compile-time constants of the expected size", okt,
           "" if okt else f"{ {k: (len(v) if isinstance(v, list) else v) for k, v in T.items()} }")
    if not okt:
        return
    bad = None
    for x in range(32):
        c = T["table_5b6b"][x]
        if T["table_6b5b"][c] != x:
            bad = bad or f"D.{x}: 6b code {c:06b} decodes to {T['table_6b5b'][c]}"
        if T["table_5b6b_flip"][x] and T["table_6b5b"][~c & 63] != x:
            bad = bad or f"D.{x}: complemented 6b code {~c & 63:06b} decodes to {T['table_6b5b'][~c & 63]}"
    ctx.ob("K7", F, "table_6b5b", "every 5b/6b code word (and its complement when it may flip) decodes to its index", bad is None, bad or "")
    ok = T["table_6b5b"][0b001111] == 28 and T["table_6b5b"][0b110000] == 28
    ctx.ob("K7", F, "table_6b5b", "K.28 (001111 / 110000) decodes to 28", ok, "" if ok else f"{T['table_6b5b'][0b001111]}, {T['table_6b5b'][0b110000]}")
    bad = None
    for y in range(8):
        c = T["table_3b4b"][y]
        if T["table_4b3b"][c] != y:
            bad = bad or f"D.x.{y}: 4b code {c:04b} decodes to {T['table_4b3b'][c]}"
        if T["table_3b4b_flip"][y] and T["table_4b3b"][~c & 15] != y:
            bad = bad or f"D.x.{y}: complemented 4b code {~c & 15:04b} decodes to {T['table_4b3b'][~c & 15]}"
    ctx.ob("K7", F, "table_4b3b", "every 3b/4b code word (and its complement when it may flip) decodes to its index", bad is None, bad or "")
    ok = T["table_4b3b"][0b0111] == 7 and T["table_4b3b"][0b1000] == 7
    ctx.ob("K7", F, "table_4b3b", "alternate D.x.A7 (0111 / 1000) decodes to 7", ok, "" if ok else f"{T['table_4b3b'][0b0111]}, {T['table_4b3b'][0b1000]}")
    bad = None
    for y in range(7):
        c = T["table_3b4b"][y]
        if T["table_4b3b_kn"][c] != y:
            bad = bad or f"K.x.{y}: 4b code {c:04b} decodes to {T['table_4b3b_kn'][c]} in table_4b3b_kn"
        if T["table_4b3b_kp"][~c & 15] != y:
            bad = bad or f"K.x.{y}: 4b code {~c & 15:04b} decodes to {T['table_4b3b_kp'][~c & 15]} in table_4b3b_kp"
    if T["table_4b3b_kn"][0b1000] != 7 or T["table_4b3b_kp"][0b0111] != 7:
        bad = bad or f"K.x.7: kn[1000] = {T['table_4b3b_kn'][0b1000]}, kp[0111] = {T['table_4b3b_kp'][0b0111]}"
    ctx.ob("K7", F, "table_4b3b_kn/kp", "control symbols: both disparities of every K.x.y 4b code decode to y", bad is None, bad or "")
