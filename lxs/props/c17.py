"""C17 -- 8b/10b coding is invertible, DC-balanced and comma-safe (claimed, narrow).

Decided (structural, necessary): K1 every state update of encoder / decoder / stream wrappers happens under
the clock enable (a state update during a stall shifts data against the valid pipeline); K2 the running
disparity chain (word i+1 takes word i's disparity, word 0 the registered disparity of the last word);
K3 literal tables: valid ones-count set {4,5,6}; 5b/6b and 3b/4b table shape (entry count, width, disparity
in {0, +-2}, entries and flipped complements pairwise distinct), flip lists = unbalanced lists + the D.7 /
D.x.3 patches, K.28 and alternate-7 patches hit unused slots.
Not decided: invertibility, run length, comma freedom (value properties of the logic)."""
import ast
from ..core import AnalysisError, norm, const_fold, cnorm
from .. import boolx as B
from .. import q
from ..rules_stream import fx_of, fail_closed, prio, short

F = "litex/soc/cores/code_8b10b.py"

EXPLANATION = ("FHDL IR of the 8b/10b encoder/decoder classes extracted from the AST: every sync assignment's guard must "
               "entail the clock enable; wiring of the disparity chain on the symbolic pair index; literal evaluation of the "
               "code tables and of their patch statements against arithmetic invariants computed by the checker.")
TECHNIQUE = "AST-extracted FHDL IR + guard entailment (clock enable) + literal table invariants"


def _disp(w, n):
    ones = bin(w & ((1 << n) - 1)).count("1")
    return ones - (n - ones)


def run(ctx):
    ctx.rule("K1", "every state update is under the clock enable: SingleEncoder is wrapped by CEInserter; Encoder/Decoder sync "
                   "assignments entail self.ce; decoder memory read enable <- ce; stream wrappers drive every ce from pipe_ce",
             min_sites=21)
    ctx.rule("K2", "disparity chain: encoders[0].disp_in <- registered encoders[-1].disp_out (under ce); e2.disp_in <- "
                   "e1.disp_out over consecutive pairs; data/k/outputs wired index-wise", min_sites=6)
    ctx.rule("K3", "literal tables: ones-count validity set {4,5,6}; table shapes; flips = unbalanced + patches; complements "
                   "distinct; K.28 / alternate-7 patches on unused slots", min_sites=23)
    ctx.rule("K4", "alternate 3b/4b code selection: alt7 flags = y == 7 & (x in {17,18,20} at RD- | x in {11,13,14} at RD+ | k); "
                   "0111 / 1000 emitted exactly under them and flip the running disparity", min_sites=5)
    ctx.rule("PRIO", "no dead driver", min_sites=1)

    m = ctx.mod(F)
    # ================================================================ K1
    fx = fx_of(ctx, F, "SingleEncoder")
    fail_closed(ctx, fx, "SingleEncoder")
    prio(ctx, "PRIO", fx, "SingleEncoder")
    ok = any(d.startswith("CEInserter(") for d in fx.decorators)
    ctx.ob("K1", F, "SingleEncoder", "class wrapped by @CEInserter()", ok,
           "" if ok else f"decorators {fx.decorators}: the two pipeline stages of every encoder advance during stalls")
    for cls in ("Encoder", "Decoder"):
        fx = fx_of(ctx, F, cls)
        fail_closed(ctx, fx, cls)
        sy = fx.find(domain="sync")
        ctx.ob("K1", F, cls, "sync assignments:present", len(sy) >= 3, f"{len(sy)} sync assignments", 0)
        for a in sy:
            G = a.eff()
            ok = B.entails(G, B.A("self.ce"))
            ctx.ob("K1", F, cls, f"{short(a.t, 40)} updated only under ce", ok,
                   "" if ok else f"`{a.t} <= {short(a.v, 40)}` under {B.show(G)}: state advances while the stream is stalled", a.line)
    fx = fx_of(ctx, F, "Decoder")
    pd = fx.decl.get("port_6b5b")
    ok = pd is not None and pd[1] is not None and any(k.arg == "has_re" and norm(k.value) == "True" for k in pd[1].keywords)
    ctx.ob("K1", F, "Decoder", "table memory port has a read enable", ok, "" if ok else "port_6b5b lacks has_re=True")
    re_ = fx.find(domain="comb", target="port_6b5b.re")
    ok = len(re_) == 1 and re_[0].v == "self.ce" and not re_[0].guards
    ctx.ob("K1", F, "Decoder", "memory read enable <- ce", ok, "" if ok else f"{[a.v for a in re_]}")
    fx = fx_of(ctx, F, "Encoder")
    ce = [a for a in fx.find(domain="comb") if a.t.endswith(".ce")]
    ok = len(ce) == 1 and ce[0].v == "self.ce" and any(it == "encoders" for _, it in ce[0].loops)
    ctx.ob("K1", F, "Encoder", "every SingleEncoder's ce <- self.ce", ok, "" if ok else f"{[(a.t, a.v, a.loops) for a in ce]}")
    fx = fx_of(ctx, F, "StreamEncoder")
    ce = fx.find(domain="comb", target="self.encoder.ce")
    ok = len(ce) == 1 and ce[0].v == "self.pipe_ce"
    ctx.ob("K1", F, "StreamEncoder", "encoder.ce <- pipe_ce", ok, "" if ok else f"{[a.v for a in ce]}")
    fx = fx_of(ctx, F, "StreamDecoder")
    ce = [a for a in fx.find(domain="comb") if a.t.endswith(".ce")]
    ok = len(ce) == 1 and ce[0].v == "self.pipe_ce" and ce[0].t == "decoders[i].ce" and any(it == "range(nwords)" for _, it in ce[0].loops)
    ctx.ob("K1", F, "StreamDecoder", "every decoder's ce <- pipe_ce", ok, "" if ok else f"{[(a.t, a.v) for a in ce]}")
    # latency declared for the valid pipeline = register depth of the wrapped coder (2 stages + output register / 1)
    for cls, base in (("StreamEncoder", "stream.PipelinedActor"), ("StreamDecoder", "stream.PipelinedActor")):
        c = m.cls(cls)
        ok = any(norm(b) == base for b in c.bases)
        ctx.ob("K1", F, cls, "built on PipelinedActor (valid pipeline gated by pipe_ce)", ok, "" if ok else f"bases {[norm(b) for b in c.bases]}")

    # ================================================================ K2
    fx = fx_of(ctx, F, "Encoder")
    d0 = [a for a in fx.find() if a.t == "encoders[0].disp_in"]
    ok = len(d0) == 1 and d0[0].domain.startswith("sync") and d0[0].v == "encoders[-1].disp_out"
    ctx.ob("K2", F, "Encoder", "word 0 starts from the registered disparity of the last word", ok, "" if ok else f"{[(a.domain, a.v) for a in d0]}")
    ch = [a for a in fx.find(domain="comb") if a.t.endswith(".disp_in")]
    ok = len(ch) == 1 and not ch[0].guards
    if ok:
        a = ch[0]
        its = [it for _, it in a.loops]
        idx = a.t[len("encoders[1:]["):a.t.index("]", len("encoders[1:]["))] if a.t.startswith("encoders[1:][") else None
        ok = its == ["zip(encoders, encoders[1:])"] and idx is not None and a.v == f"encoders[{idx}].disp_out"
    ctx.ob("K2", F, "Encoder", "word i+1 takes word i's output disparity (consecutive pairs)", ok, "" if ok else f"{[(a.t, a.v, a.loops) for a in ch]}")
    for t, v in (("encoders[{k}].d", "self.d[{k}]"), ("encoders[{k}].k", "self.k[{k}]"), ("self.output[{k}]", "encoders[{k}].output"),
                 ("self.disparity[{k}]", "encoders[{k}].disp_out")):
        hit = [a for a in fx.find() if a.loops and a.t.replace(a.loops[-1][0], "") is not None and
               a.t == t.format(k=_idx(a)) and a.v == v.format(k=_idx(a))]
        ctx.ob("K2", F, "Encoder", f"{t.format(k='i')} <- {v.format(k='i')} (same word index)", len(hit) == 1,
               f"{[(a.t, a.v) for a in fx.find() if t.split('[')[0] in a.t][:3]}")

    # ================================================================ K3
    fx = fx_of(ctx, F, "Decoder")
    inv = fx.find(domain="comb", target="self.invalid")
    ok = len(inv) == 1
    vals = set()
    if ok:
        f = B.from_expr(inv[0].value)
        ats = B.atoms(f)
        for at in ats:
            if at.startswith("ones == "):
                vals.add(int(at.split("== ")[1]))
        ok = vals == {4, 5, 6} and B.equivalent(f, B.And(*[B.Not(B.A(f"ones == {v}")) for v in (4, 5, 6)]))
    ctx.ob("K3", F, "Decoder", "invalid <=> ones-count not in {4,5,6}", ok, "" if ok else f"{[a.v for a in inv]} (set {sorted(vals)})")
    on = fx.find(domain="sync", target="ones")
    ok = len(on) == 1 and on[0].v == "Reduce('ADD', [self.input[i] for i in range(10)])"
    ctx.ob("K3", F, "Decoder", "ones = sum of the ten input bits", ok, "" if ok else f"{[a.v for a in on]}")
    try:
        t56 = const_fold(m.const("table_5b6b"))
        t34 = const_fold(m.const("table_3b4b"))
    except ValueError as e:
        raise AnalysisError(f"{F}: code tables are no longer literals: {e}")
    ok = len(t56) == 32 and all(isinstance(x, int) and 0 <= x < 64 for x in t56) and len(set(t56)) == 32
    ctx.ob("K3", F, "table_5b6b", "32 distinct 6-bit entries", ok, "" if ok else f"{len(t56)} entries")
    ds = {_disp(x, 6) for x in t56}
    ok = ds <= {0, 2} or ds <= {0, -2}
    ctx.ob("K3", F, "table_5b6b", "disparity of every entry is 0 or 2 of one sign (one RD column)", ok,
           "" if ok else f"{[(i, bin(x), _disp(x, 6)) for i, x in enumerate(t56) if _disp(x, 6) not in (0, 2, -2)] or sorted(ds)}")
    ok = len(t34) == 8 and all(isinstance(x, int) and 0 <= x < 16 for x in t34) and len(set(t34)) == 8
    ctx.ob("K3", F, "table_3b4b", "8 distinct 4-bit entries", ok, "" if ok else f"{t34}")
    ds = {_disp(x, 4) for x in t34}
    ok = ds <= {0, 2} or ds <= {0, -2}
    ctx.ob("K3", F, "table_3b4b", "disparity of every entry is 0 or 2 of one sign", ok, "" if ok else f"{[(bin(x), _disp(x, 4)) for x in t34]}")
    # derived lists (normal forms of the defining expressions) and patches
    want_defs = {"table_5b6b_unbalanced": "[bool(disparity(c, 6)) for c in table_5b6b]", "table_5b6b_flip": "list(table_5b6b_unbalanced)",
                 "table_3b4b_unbalanced": "[bool(disparity(c, 4)) for c in table_3b4b]", "table_3b4b_flip": "list(table_3b4b_unbalanced)",
                 "table_6b5b": "reverse_table_flip(table_5b6b, table_5b6b_flip, 6)", "table_4b3b": "reverse_table_flip(table_3b4b, table_3b4b_flip, 4)",
                 "table_4b3b_kn": "reverse_table(table_3b4b, 4)", "table_4b3b_kp": "reverse_table([~x & 15 for x in table_3b4b], 4)"}
    for k, v in want_defs.items():
        got = norm(m.const(k))
        ctx.ob("K3", F, k, f"defined as {short(v, 50)}", cnorm(m.const(k)) == cnorm(v), f"{k} = {got}")
    patches = {}
    for st in m.tree.body:
        if isinstance(st, ast.Assign) and isinstance(st.targets[0], ast.Subscript) and isinstance(st.targets[0].value, ast.Name):
            try:
                patches.setdefault(st.targets[0].value.id, {})[const_fold(st.targets[0].slice)] = const_fold(st.value)
            except ValueError:
                raise AnalysisError(f"{F}:{st.lineno}: table patch is not a literal")
    ok = patches.get("table_5b6b_flip") == {7: True} and patches.get("table_3b4b_flip") == {3: True}
    ctx.ob("K3", F, "<patches>", "flip patches: 5b6b[7] (D.7), 3b4b[3] (D.x.3)", ok,
           "" if ok else f"{patches.get('table_5b6b_flip')} / {patches.get('table_3b4b_flip')}")
    flip56 = [bool(_disp(c, 6)) for c in t56]
    flip56[7] = True
    used6 = set(t56) | {(~w) & 63 for w, f in zip(t56, flip56) if f}
    ok = len(used6) == 32 + sum(flip56)
    ctx.ob("K3", F, "table_5b6b", "entries and flipped complements pairwise distinct (decoder table well defined)", ok,
           "" if ok else "a 6-bit code word would decode to two symbols")
    p6 = patches.get("table_6b5b", {})
    ok = p6 == {0b001111: 0b11100, 0b110000: 0b11100} and not (set(p6) & used6)
    ctx.ob("K3", F, "table_6b5b", "K.28 patches (001111, 110000 -> 28) on unused slots", ok, "" if ok else f"{p6}; used {sorted(set(p6) & used6)}")
    flip34 = [bool(_disp(c, 4)) for c in t34]
    flip34[3] = True
    used4 = set(t34) | {(~w) & 15 for w, f in zip(t34, flip34) if f}
    ok = len(used4) == 8 + sum(flip34)
    ctx.ob("K3", F, "table_3b4b", "entries and flipped complements pairwise distinct", ok, "" if ok else "a 4-bit code word would decode to two symbols")
    p4 = patches.get("table_4b3b", {})
    ok = p4 == {0b0111: 0b0111, 0b1000: 0b0111} and not (set(p4) & used4)
    ctx.ob("K3", F, "table_4b3b", "alternate D.x.7 patches (0111, 1000 -> 7) on unused slots", ok, "" if ok else f"{p4}")
    ok = patches.get("table_4b3b_kn") == {0b0001: 0, 0b1000: 7} and patches.get("table_4b3b_kp") == {0b1110: 0, 0b0111: 7}
    ctx.ob("K3", F, "table_4b3b_k*", "control-symbol 4b/3b patches", ok, "" if ok else f"{patches.get('table_4b3b_kn')} / {patches.get('table_4b3b_kp')}")
    # disparity helper: n1 - n0
    df = m.func("disparity")
    ret = [norm(n.value) for n in ast.walk(df) if isinstance(n, ast.Return)]
    ok = ret == ["n1 - n0"] and any(isinstance(n, ast.If) and cnorm(n.test) == cnorm("word & 1 << i") for n in ast.walk(df))
    ctx.ob("K3", F, "disparity", "disparity = ones - zeros", ok, "" if ok else f"returns {ret}")
    # encoder special cases reference the same literals
    fx = fx_of(ctx, F, "SingleEncoder")
    k28 = [a for a in fx.find(domain="sync", target="code6b") if a.v == "48"]
    ok = len(k28) == 1 and q.EQ(k28[0], B.from_expr("self.k & (self.d[:5] == 28)"))
    ctx.ob("K3", F, "SingleEncoder", "K.28 encodes to 110000 (the slot patched in the decoder table)", ok, "" if ok else f"{[(a.v, a.gtext()) for a in k28]}")
    o4 = {a.v for a in fx.find(domain="comb", target="output_4b") if a.v in ("7", "8")}
    ctx.ob("K3", F, "SingleEncoder", "alternate D.x.7 emits 0111 / 1000 (the slots patched in the decoder table)", o4 == {"7", "8"}, f"{o4}")
    # ---- K4 alternate-7 selection (IEEE 802.3 36.2.4.5 / Widmer-Franaszek): D.x.A7 when RD- and x in {17,18,20}, when RD+ and x in
    #      {11,13,14}; K.x.7 always uses it
    for flag, xs in (("alt7_rd0", (17, 18, 20)), ("alt7_rd1", (11, 13, 14))):
        ds = fx.find(domain="sync", target=flag)
        sets = [a for a in ds if a.v == "1"]
        clr = [a for a in ds if a.v == "0"]
        F1 = B.F
        for a in sets:
            F1 = B.Or(F1, B.guard_formula(a.guards))
        want = B.from_expr("(self.d[5:] == 7) & ((self.d[:5] == %d) | (self.d[:5] == %d) | (self.d[:5] == %d) | self.k)" % xs)
        ok = len(clr) == 1 and not clr[0].guards and all(fx.assigns.index(a) > fx.assigns.index(clr[0]) for a in sets) and \
            len(ds) == len(sets) + 1 and B.equivalent(F1, want)
        ctx.ob("K4", F, "SingleEncoder", f"{flag} = y == 7 & (x in {set(xs)} | k), cleared otherwise", ok,
               "" if ok else f"{flag} is set under {B.show(F1)}; expected {B.show(want)}: a D.x.7 / K.x.7 symbol takes the primary 3b/4b code "
                             f"at this running disparity (five equal bits in a row / a control symbol that decodes as data); e.g. "
                             f"{B.counterexample(F1, want) or B.counterexample(want, F1)}", (sets or ds or [None])[0].line if (sets or ds) else 0)
    arms = {a.v: a for a in fx.find(domain="comb", target="output_4b") if a.v in ("7", "8")}
    if set(arms) == {"7", "8"}:
        g7, g8 = arms["7"].eff(), arms["8"].eff()
        ok = B.equivalent(g7, B.from_expr("~disp_inter & alt7_rd0")) and B.equivalent(g8, B.from_expr("disp_inter & alt7_rd1"))
        ctx.ob("K4", F, "SingleEncoder", "0111 at RD- with alt7_rd0, 1000 at RD+ with alt7_rd1", ok,
               "" if ok else f"0111 under {B.show(g7)}, 1000 under {B.show(g8)}", arms["7"].line)
        for v in ("7", "8"):
            dd = [a for a in fx.find(domain="comb", target="self.disp_out") if q.EQ(a, arms[v].eff())]
            ok = len(dd) == 1 and dd[0].v == "~disp_inter"
            ctx.ob("K4", F, "SingleEncoder", f"alternate code {'0111' if v == '7' else '1000'} flips the running disparity", ok,
                   "" if ok else f"{[(a.v, a.gtext()) for a in dd]}", arms[v].line)


def _idx(a):
    for v, it in a.loops:
        if it.startswith("zip("):
            # the shared zip index is the subscript used in the target
            t = a.t
            if "[" in t:
                return t[t.index("[") + 1:t.index("]")]
    return "?"
