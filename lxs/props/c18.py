"""C18 -- ECC corrects every single-bit error and flags every double-bit error (claimed, narrow).

Decided (structural, necessary): H1 the 1-based code positions are turned into 0-based bit indices by the
same `- 1` at all five sites (place_data, extract_data, compute_syndrome, place_syndrome, decoder flip
`1 << (i-1)` over i = 1 .. 2**len(syndrome)-1); H2 twins: place/extract use the same data-position
function on the same length, compute/place the same syndrome-position function, cover sets are
compute_cover_positions(len, 2**i); the overall parity is bit 0 of the output and dropped by i[1:]; parity
covers the whole input; H3 the `~enable => syndrome = 0` override is the last driver of the syndrome;
ded under syndrome != 0 & ~parity, sec under syndrome != 0 & parity.
Not decided: the Hamming geometry itself (that the position functions define a SECDED code)."""
import ast
from ..core import AnalysisError, norm
from .. import boolx as B
from .. import q
from ..rules_stream import fx_of, fail_closed, prio, short

F = "litex/soc/cores/ecc.py"

EXPLANATION = ("FHDL IR of ECCEncoder / ECCDecoder with the SECDED helper methods inlined at their call sites: subscripts of the "
               "code word are compared in normal form (position function, argument, offset); effective priority of the syndrome "
               "drivers; guard equivalence for sec/ded.")
TECHNIQUE = "AST-extracted FHDL IR (helper methods inlined) + normal-form index comparison + priority + guard equivalence"


def _sub(text):
    """'cw[fn(len(cw))[i] - 1]' -> (base 'cw', position fn text, index var, offset)"""
    n = ast.parse(text, mode="eval").body
    if not isinstance(n, ast.Subscript):
        return None
    base = norm(n.value)
    s = n.slice
    off = 0
    if isinstance(s, ast.BinOp) and isinstance(s.op, ast.Sub) and isinstance(s.right, ast.Constant):
        off = -s.right.value
        s = s.left
    elif isinstance(s, ast.BinOp) and isinstance(s.op, ast.Add) and isinstance(s.right, ast.Constant):
        off = s.right.value
        s = s.left
    if isinstance(s, ast.Subscript):
        return base, norm(s.value), norm(s.slice), off
    return base, norm(s), None, off


def run(ctx):
    ctx.rule("H1", "every use of a 1-based code position as a bit index subtracts 1; the flip cases range over 1 .. 2**m - 1",
             min_sites=7)
    ctx.rule("H2", "twins: place/extract_data share compute_data_positions(len(codeword)); compute/place_syndrome share "
                   "compute_syndrome_positions(len(codeword)); cover = compute_cover_positions(len, 2**i); parity is bit 0 and "
                   "dropped by i[1:]; parity covers the whole word", min_sites=12)
    ctx.rule("H3", "disable override is the last syndrome driver; ded = syndrome != 0 & ~parity; sec = syndrome != 0 & parity; "
                   "uncorrected default arm", min_sites=5)

    enc = fx_of(ctx, F, "ECCEncoder")
    dec = fx_of(ctx, F, "ECCDecoder")
    fail_closed(ctx, enc, "ECCEncoder")
    fail_closed(ctx, dec, "ECCDecoder")

    # ---- place_data (encoder) / extract_data (decoder)
    pdat = [a for a in enc.find(domain="comb") if a.t.startswith("codeword_d[")]
    ok = len(pdat) == 1
    pinfo = _sub(pdat[0].t) if ok else None
    ok = ok and pinfo is not None and pinfo[3] == -1 and pdat[0].v == f"self.i[{pinfo[2]}]"
    ctx.ob("H1", F, "SECDED.place_data", "codeword[d - 1] <- data[i]", ok, "" if ok else f"{[(a.t, a.v) for a in pdat]}", pdat[0].line if pdat else 0)
    xdat = [a for a in dec.find(domain="comb") if a.t.startswith("self.o[")]
    ok = len(xdat) == 1
    xinfo = _sub(xdat[0].v) if ok else None
    ok = ok and xinfo is not None and xinfo[3] == -1 and xdat[0].t == f"self.o[{xinfo[2]}]"
    ctx.ob("H1", F, "SECDED.extract_data", "data[i] <- codeword[d - 1]", ok, "" if ok else f"{[(a.t, a.v) for a in xdat]}", xdat[0].line if xdat else 0)
    ok = pinfo is not None and xinfo is not None and pinfo[1] == f"compute_data_positions(len({pinfo[0]}))" and \
        xinfo[1] == f"compute_data_positions(len({xinfo[0]}))"
    ctx.ob("H2", F, "SECDED.place/extract_data", "same data-position function on the code word's own length", ok,
           "" if ok else f"place {pinfo} / extract {xinfo}")
    ok = xinfo is not None and xinfo[0] == "codeword_c"
    ctx.ob("H2", F, "ECCDecoder", "data extracted from the corrected code word", ok, "" if ok else f"{xinfo}")

    # ---- compute_syndrome (both) / place_syndrome (encoder)
    for fx, cls, cw in ((enc, "ECCEncoder", "codeword_d"), (dec, "ECCDecoder", "codeword")):
        xr = [a for a in fx.find(domain="comb", target="new_pn")]
        ok = len(xr) == 1
        info = None
        if ok:
            v = xr[0].value
            ok = isinstance(v, ast.BinOp) and isinstance(v.op, ast.BitXor) and norm(v.left) == "pn"
            info = _sub(norm(v.right)) if ok else None
            ok = ok and info is not None and info[3] == -1 and info[0] == cw
        ctx.ob("H1", F, f"SECDED.compute_syndrome@{cls}", "parity chain XORs codeword[c - 1]", ok, "" if ok else f"{[a.v for a in xr]}", xr[0].line if xr else 0)
        ok = info is not None and info[1] == f"compute_cover_positions(len({cw}), 2 ** i)"
        ctx.ob("H2", F, f"SECDED.compute_syndrome@{cls}", "cover set = compute_cover_positions(len(codeword), 2**i)", ok, "" if ok else f"{info}")
        sy = [a for a in fx.find(domain="comb") if a.t == "syndrome[i]"]
        ok = len(sy) == 1 and sy[0].v == "new_pn" and any(it == f"enumerate(compute_syndrome_positions(len({cw})))" for _, it in sy[0].loops)
        ctx.ob("H2", F, f"SECDED.compute_syndrome@{cls}", "syndrome bit i = parity of cover set i (over the syndrome positions)", ok,
               "" if ok else f"{[(a.t, a.v, a.loops) for a in sy]}")
    ps = [a for a in enc.find(domain="comb") if a.t.startswith("codeword_d_p[")]
    ok = len(ps) == 1
    sinfo = _sub(ps[0].t) if ok else None
    ok = ok and sinfo is not None and sinfo[3] == -1 and ps[0].v == f"syndrome[{sinfo[2]}]"
    ctx.ob("H1", F, "SECDED.place_syndrome", "codeword[p - 1] <- syndrome[i]", ok, "" if ok else f"{[(a.t, a.v) for a in ps]}", ps[0].line if ps else 0)
    ok = sinfo is not None and sinfo[1] == f"compute_syndrome_positions(len({sinfo[0]}))"
    ctx.ob("H2", F, "SECDED.place_syndrome", "same syndrome-position function as compute_syndrome", ok, "" if ok else f"{sinfo}")
    base = [a for a in enc.find(domain="comb", target="codeword_d_p")]
    ok = len(base) == 1 and base[0].v == "codeword_d" and ps and enc.assigns.index(base[0]) < enc.assigns.index(ps[0])
    ctx.ob("H2", F, "ECCEncoder", "check bits overwrite the copied data word (copy first, then place)", ok, "" if ok else "copy/place order changed")

    # ---- decoder flip
    fl = [a for a in dec.find(domain="comb", target="codeword_c") if a.v != "codeword"]
    ok = len(fl) == 1 and fl[0].v == "codeword ^ 1 << i - 1" and q.EQ(fl[0], B.A("syndrome == i"))
    ctx.ob("H1", F, "ECCDecoder", "syndrome i flips bit i - 1", ok, "" if ok else f"{[(a.v, a.gtext()) for a in fl]}", fl[0].line if fl else 0)
    ok = len(fl) == 1 and any(it == "range(1, 2 ** len(syndrome))" for _, it in fl[0].loops)
    ctx.ob("H1", F, "ECCDecoder", "flip cases for every syndrome 1 .. 2**m - 1", ok, "" if ok else f"{fl[0].loops if fl else '?'}")
    df = [a for a in dec.find(domain="comb", target="codeword_c") if a.v == "codeword"]
    ok = len(df) == 1 and all(p is False for _, p in df[0].guards)
    ctx.ob("H3", F, "ECCDecoder", "default arm passes the code word unchanged", ok, "" if ok else f"{[(a.v, a.gtext()) for a in df]}")

    # ---- parity
    po = enc.find(domain="comb", target="self.o")
    ok = len(po) == 1 and po[0].v == "Cat(parity, codeword_d_p)"
    ctx.ob("H2", F, "ECCEncoder", "output = Cat(parity, codeword): parity is bit 0", ok, "" if ok else f"{[a.v for a in po]}")
    cw = dec.find(domain="comb", target="codeword")
    ok = len(cw) == 1 and cw[0].v == "self.i[1:]"
    ctx.ob("H2", F, "ECCDecoder", "code word = input without bit 0", ok, "" if ok else f"{[a.v for a in cw]}")
    for fx, cls, word in ((enc, "ECCEncoder", "codeword_d_p"), (dec, "ECCDecoder", "self.i")):
        pa = fx.find(domain="comb", target="parity")
        ok = len(pa) == 1 and pa[0].v == f"Reduce('XOR', [{word}[i] for i in range(len({word}))])"
        ctx.ob("H2", F, cls, f"parity = XOR over every bit of {word}", ok, "" if ok else f"{[a.v for a in pa]}")

    # ---- H3
    sy = [a for a in dec.find(domain="comb") if a.t in ("syndrome", "syndrome[i]")]
    ov = [a for a in sy if a.t == "syndrome" and a.v == "0"]
    ok = len(ov) == 1 and q.EQ(ov[0], B.Not(B.A("self.enable"))) and \
        dec.assigns.index(ov[0]) == max(dec.assigns.index(a) for a in sy)
    ctx.ob("H3", F, "ECCDecoder", "~enable => syndrome = 0 is the last driver of the syndrome", ok,
           "" if ok else f"{[(a.t, a.v, a.gtext()) for a in sy]}: with checking disabled the data would still be 'corrected'", ov[0].line if ov else 0)
    for t, want in (("self.ded", "(syndrome != 0) & ~parity"), ("self.sec", "(syndrome != 0) & parity")):
        d = dec.find(domain="comb", target=t)
        ok = len(d) == 1 and d[0].v == "1" and q.EQ(d[0], B.from_expr(want))
        ctx.ob("H3", F, "ECCDecoder", f"{t} = {want}", ok, "" if ok else f"{[(a.v, a.gtext()) for a in d]}", d[0].line if d else 0)
    # flip case must read the (possibly zeroed) syndrome, i.e. the Case comes after the override
    ok = bool(fl) and bool(ov) and dec.assigns.index(fl[0]) > dec.assigns.index(ov[0])
    ctx.ob("H3", F, "ECCDecoder", "correction uses the syndrome signal (same signal the override drives)", ok and "syndrome ==" in fl[0].gtext() if fl else False,
           "" if ok else "flip selector changed")
