"""C18 -- ECC corrects every single-bit error and flags every double-bit error (claimed, narrow).

Decided (structural, necessary): H1 the 1-based code positions are turned into 0-based bit indices by the
same `- 1` at all five sites (place_data, extract_data, compute_syndrome, place_syndrome, decoder flip
`1 << (i-1)` over i = 1 .. 2**len(syndrome)-1); H2 twins: place/extract use the same data-position
function on the same length, compute/place the same syndrome-position function, cover sets are
compute_cover_positions(len, 2**i); the overall parity is bit 0 of the output and dropped by i[1:]; parity
covers the whole input; H3 the `~enable => syndrome = 0` override is the last driver of the syndrome;
ded under syndrome != 0 & ~parity, sec under syndrome != 0 & parity.
H4 the Hamming geometry: compute_m_n / compute_syndrome_positions / compute_data_positions / compute_cover_positions are interpreted
exactly (lxs/pyconst.py, an own closed interpreter -- nothing of the repository runs) for every data width 1..72 and 128, 256 and
compared with the definition of the extended Hamming code (m minimal with 2**m >= m+k+1; check bits at the powers of two <= n; data
at the other positions; check bit p covers the positions whose index has bit p set)."""
import ast
from ..core import AnalysisError, norm, cnorm
from .. import boolx as B
from .. import q
from ..rules_stream import fx_of, fail_closed, prio, short

F = "litex/soc/cores/ecc.py"

EXPLANATION = ("FHDL IR of ECCEncoder / ECCDecoder with the SECDED helper methods inlined at their call sites: subscripts of the "
               "code word are compared in normal form (position function, argument, offset); effective priority of the syndrome "
               "drivers; guard equivalence for sec/ded.")
TECHNIQUE = "AST-extracted FHDL IR (helper methods inlined) + normal-form index comparison + priority + guard equivalence"


def _sub(text):
    """'cw[fn(len(cw))[i] - 1]' -> (base 'cw', position fn text, index var, offset)"""
    n = ast.parse(text, mode="eval").body
    if not isinstance(n, ast.Subscript):
        return None
    base = norm(n.value)
    s = n.slice
    off = 0
    if isinstance(s, ast.BinOp) and isinstance(s.op, ast.Sub) and isinstance(s.right, ast.Constant):
        off = -s.right.value
        s = s.left
    elif isinstance(s, ast.BinOp) and isinstance(s.op, ast.Add) and isinstance(s.right, ast.Constant):
        off = s.right.value
        s = s.left
    if isinstance(s, ast.Subscript):
        return base, norm(s.value), norm(s.slice), off
    return base, norm(s), None, off


def _h4(ctx):
    from .. import pyconst
    m_ = ctx.mod(F)
    funcs = {n.name: n for n in m_.tree.body if isinstance(n, ast.FunctionDef)}
    for need in ("compute_m_n", "compute_syndrome_positions", "compute_data_positions", "compute_cover_positions"):
        ctx.need(need in funcs, f"{F}: helper {need} vanished")
    consts = pyconst.module_consts(m_.tree)

    def ev(fn, **args):
        r = pyconst.call(funcs[fn], args, consts=consts, funcs=funcs)
        if r[0] != "return":
            raise pyconst.Unknowable(f"{fn}{args} raises")
        return r[1]
    n_ev = 0
    for k in list(range(1, 73)) + [128, 256]:
        m = 1
        while 2 ** m < m + k + 1:
            m += 1
        n = m + k
        try:
            got = ev("compute_m_n", k=k)
            ok = tuple(got) == (m, n) if isinstance(got, (tuple, list)) else False
            ctx.ob("H4", F, "compute_m_n", f"k={k}: (m, n) = ({m}, {n})", ok,
                   "" if ok else f"compute_m_n({k}) = {got}, the extended Hamming code needs m = {m} check bits (2**m >= m + k + 1) and n = {n}: "
                                 f"with fewer check bits two single-bit errors share a syndrome / a data bit sits on a check position", funcs["compute_m_n"])
            sp = ev("compute_syndrome_positions", m=n)
            want = [1 << i for i in range(n.bit_length()) if (1 << i) <= n]
            ok = list(sp) == want
            ctx.ob("H4", F, "compute_syndrome_positions", f"n={n}: powers of two <= n", ok,
                   "" if ok else f"compute_syndrome_positions({n}) = {sp}, expected {want}", funcs["compute_syndrome_positions"])
            dp = ev("compute_data_positions", m=n)
            wantd = [i for i in range(1, n + 1) if i & (i - 1)]
            ok = list(dp) == wantd and len(wantd) == k
            ctx.ob("H4", F, "compute_data_positions", f"n={n}: the {k} positions that are not powers of two", ok,
                   "" if ok else f"compute_data_positions({n}) = {list(dp)[:12]}.. ({len(dp)} positions), expected {wantd[:12]}.. ({len(wantd)})",
                   funcs["compute_data_positions"])
            bad = None
            for p in want:
                cp = ev("compute_cover_positions", m=n, p=p)
                wantc = [i for i in range(1, n + 1) if i & p]
                if sorted(cp) != wantc:
                    bad = (p, list(cp)[:10], wantc[:10])
                    break
            ctx.ob("H4", F, "compute_cover_positions", f"n={n}: check bit p covers the positions with bit p set", bad is None,
                   "" if bad is None else f"compute_cover_positions({n}, {bad[0]}) = {bad[1]}.., expected {bad[2]}..", funcs["compute_cover_positions"])
            n_ev += 4
        except pyconst.Unknowable as ex:
            ctx.need(False, f"ECC helper cannot be interpreted for k={k}: {ex}")
    ctx.analysed["paths"] += n_ev


def run(ctx):
    ctx.rule("H1", "every use of a 1-based code position as a bit index subtracts 1; the flip cases range over 1 .. 2**m - 1",
             min_sites=7)
    ctx.rule("H2", "twins: place/extract_data share compute_data_positions(len(codeword)); compute/place_syndrome share "
                   "compute_syndrome_positions(len(codeword)); cover = compute_cover_positions(len, 2**i); parity is bit 0 and "
                   "dropped by i[1:]; parity covers the whole word", min_sites=12)
    ctx.rule("H3", "disable override is the last syndrome driver; ded = syndrome != 0 & ~parity; sec = syndrome != 0 & parity; "
                   "uncorrected default arm", min_sites=5)

    ctx.rule("H4", "Hamming geometry: m is the least number of check bits with 2**m >= m + k + 1, n = m + k; check bits sit at the "
                   "powers of two <= n, data bits at the remaining positions 1..n (exactly k of them); check bit p covers exactly the "
                   "positions with bit p set -- for every data width 1..72, 128, 256", min_sites=296)
    _h4(ctx)

    enc = fx_of(ctx, F, "ECCEncoder")
    dec = fx_of(ctx, F, "ECCDecoder")
    fail_closed(ctx, enc, "ECCEncoder")
    fail_closed(ctx, dec, "ECCDecoder")

    # ---- place_data (encoder) / extract_data (decoder)
    pdat = [a for a in enc.find(domain="comb") if a.t.startswith("codeword_d[")]
    ok = len(pdat) == 1
    pinfo = _sub(pdat[0].t) if ok else None
    ok = ok and pinfo is not None and pinfo[3] == -1 and pdat[0].v == f"self.i[{pinfo[2]}]"
    ctx.ob("H1", F, "SECDED.place_data", "codeword[d - 1] <- data[i]", ok, "" if ok else f"{[(a.t, a.v) for a in pdat]}", pdat[0].line if pdat else 0)
    xdat = [a for a in dec.find(domain="comb") if a.t.startswith("self.o[")]
    ok = len(xdat) == 1
    xinfo = _sub(xdat[0].v) if ok else None
    ok = ok and xinfo is not None and xinfo[3] == -1 and xdat[0].t == f"self.o[{xinfo[2]}]"
    ctx.ob("H1", F, "SECDED.extract_data", "data[i] <- codeword[d - 1]", ok, "" if ok else f"{[(a.t, a.v) for a in xdat]}", xdat[0].line if xdat else 0)
    ok = pinfo is not None and xinfo is not None and pinfo[1] == f"compute_data_positions(len({pinfo[0]}))" and \
        xinfo[1] == f"compute_data_positions(len({xinfo[0]}))"
    ctx.ob("H2", F, "SECDED.place/extract_data", "same data-position function on the code word's own length", ok,
           "" if ok else f"place {pinfo} / extract {xinfo}")
    ok = xinfo is not None and xinfo[0] == "codeword_c"
    ctx.ob("H2", F, "ECCDecoder", "data extracted from the corrected code word", ok, "" if ok else f"{xinfo}")

    # ---- compute_syndrome (both) / place_syndrome (encoder)
    for fx, cls, cw in ((enc, "ECCEncoder", "codeword_d"), (dec, "ECCDecoder", "codeword")):
        xr = [a for a in fx.find(domain="comb", target="new_pn")]
        ok = len(xr) == 1
        info = None
        if ok:
            v = xr[0].value
            ok = isinstance(v, ast.BinOp) and isinstance(v.op, ast.BitXor) and norm(v.left) == "pn"
            info = _sub(norm(v.right)) if ok else None
            ok = ok and info is not None and info[3] == -1 and info[0] == cw
        ctx.ob("H1", F, f"SECDED.compute_syndrome@{cls}", "parity chain XORs codeword[c - 1]", ok, "" if ok else f"{[a.v for a in xr]}", xr[0].line if xr else 0)
        # the index of the syndrome bit: whatever the loop over the syndrome positions calls it
        iv = "i"
        if xr and xr[0].loops:
            iv = xr[0].loops[0][0].strip("()").split(",")[0].strip()
        cover = info[1] if info is not None else None
        if info is not None and info[2] is None and xr and any(v_ == info[1] for v_, _ in xr[0].loops):
            # `for c in compute_cover_positions(...)`: the element is the loop variable itself, the set is the loop's iterable
            it_txt = [it for v_, it in xr[0].loops if v_ == info[1]][-1]
            try:
                cover = norm(fx.expand(ast.parse(it_txt, mode="eval").body))
            except SyntaxError:
                cover = it_txt
            cover = cover.replace("len(codeword)", f"len({cw})")
        ok = info is not None and cover == f"compute_cover_positions(len({cw}), 2 ** {iv})"
        ctx.ob("H2", F, f"SECDED.compute_syndrome@{cls}", "cover set = compute_cover_positions(len(codeword), 2**i)", ok, "" if ok else f"{info}")
        sy = [a for a in fx.find(domain="comb") if a.t == f"syndrome[{iv}]"]
        ok = len(sy) == 1 and sy[0].v == "new_pn" and any(it in (f"enumerate(compute_syndrome_positions(len({cw})))",
                                                                 f"range(len(compute_syndrome_positions(len({cw}))))") for _, it in sy[0].loops)
        ctx.ob("H2", F, f"SECDED.compute_syndrome@{cls}", "syndrome bit i = parity of cover set i (over the syndrome positions)", ok,
               "" if ok else f"{[(a.t, a.v, a.loops) for a in sy]}")
    ps = [a for a in enc.find(domain="comb") if a.t.startswith("codeword_d_p[")]
    ok = len(ps) == 1
    sinfo = _sub(ps[0].t) if ok else None
    ok = ok and sinfo is not None and sinfo[3] == -1 and ps[0].v == f"syndrome[{sinfo[2]}]"
    ctx.ob("H1", F, "SECDED.place_syndrome", "codeword[p - 1] <- syndrome[i]", ok, "" if ok else f"{[(a.t, a.v) for a in ps]}", ps[0].line if ps else 0)
    ok = sinfo is not None and sinfo[1] == f"compute_syndrome_positions(len({sinfo[0]}))"
    ctx.ob("H2", F, "SECDED.place_syndrome", "same syndrome-position function as compute_syndrome", ok, "" if ok else f"{sinfo}")
    base = [a for a in enc.find(domain="comb", target="codeword_d_p")]
    ok = len(base) == 1 and base[0].v == "codeword_d" and ps and enc.assigns.index(base[0]) < enc.assigns.index(ps[0])
    ctx.ob("H2", F, "ECCEncoder", "check bits overwrite the copied data word (copy first, then place)", ok, "" if ok else "copy/place order changed")

    # ---- decoder flip
    fl = [a for a in dec.find(domain="comb", target="codeword_c") if a.v != "codeword"]
    fv = fl[0].loops[-1][0] if len(fl) == 1 and fl[0].loops else "i"        # the flip loop's variable, whatever it is called
    ok = len(fl) == 1 and fl[0].v == f"codeword ^ 2 ** ({fv} - 1)" and q.EQ(fl[0], B.A(f"syndrome == {fv}"))
    ctx.ob("H1", F, "ECCDecoder", "syndrome i flips bit i - 1", ok, "" if ok else f"{[(a.v, a.gtext()) for a in fl]}", fl[0].line if fl else 0)
    sd = dec.decl.get("syndrome")
    sw = norm(sd[1].args[0]) if sd and sd[0] == "Signal" and sd[1].args else None       # Signal(m): 2**len(syndrome) == 2**m
    ok = len(fl) == 1 and any(cnorm(it) in {cnorm("range(1, 2 ** len(syndrome))")} | ({cnorm(f"range(1, 2 ** ({sw}))")} if sw else set())
                              for _, it in fl[0].loops)
    ctx.ob("H1", F, "ECCDecoder", "flip cases for every syndrome 1 .. 2**m - 1", ok, "" if ok else f"{fl[0].loops if fl else '?'}")
    df = [a for a in dec.find(domain="comb", target="codeword_c") if a.v == "codeword"]
    ok = len(df) == 1 and all(p is False for _, p in df[0].guards)
    ctx.ob("H3", F, "ECCDecoder", "default arm passes the code word unchanged", ok, "" if ok else f"{[(a.v, a.gtext()) for a in df]}")

    # ---- parity
    po = enc.find(domain="comb", target="self.o")
    ok = len(po) == 1 and po[0].v == "Cat(parity, codeword_d_p)"
    ctx.ob("H2", F, "ECCEncoder", "output = Cat(parity, codeword): parity is bit 0", ok, "" if ok else f"{[a.v for a in po]}")
    cw = dec.find(domain="comb", target="codeword")
    ok = len(cw) == 1 and cw[0].v == "self.i[1:]"
    ctx.ob("H2", F, "ECCDecoder", "code word = input without bit 0", ok, "" if ok else f"{[a.v for a in cw]}")
    for fx, cls, word in ((enc, "ECCEncoder", "codeword_d_p"), (dec, "ECCDecoder", "self.i")):
        pa = fx.find(domain="comb", target="parity")
        ok = len(pa) == 1 and isinstance(pa[0].value, ast.Call) and norm(pa[0].value.func) == "Reduce" and len(pa[0].value.args) == 2 and \
            norm(pa[0].value.args[0]) == "'XOR'"
        if ok:
            ew = q.elementwise(pa[0].value.args[1])
            se = q.star_elements(pa[0].value.args[1])
            ok = ew == (f"{word}[@]", f"range(len({word}))") or \
                (bool(se) and len(se) == 1 and se[0][2] == f"range(len({word}))" and norm(se[0][0]) == f"{word}[{se[0][1]}]")
        ctx.ob("H2", F, cls, f"parity = XOR over every bit of {word}", ok, "" if ok else f"{[a.v for a in pa]}")

    # ---- H3
    sy = [a for a in dec.find(domain="comb") if a.t in ("syndrome", "syndrome[i]")]
    ov = [a for a in sy if a.t == "syndrome" and a.v == "0"]
    ok = len(ov) == 1 and q.EQ(ov[0], B.Not(B.A("self.enable"))) and \
        dec.assigns.index(ov[0]) == max(dec.assigns.index(a) for a in sy)
    ctx.ob("H3", F, "ECCDecoder", "~enable => syndrome = 0 is the last driver of the syndrome", ok,
           "" if ok else f"{[(a.t, a.v, a.gtext()) for a in sy]}: with checking disabled the data would still be 'corrected'", ov[0].line if ov else 0)
    for t, want in (("self.ded", "(syndrome != 0) & ~parity"), ("self.sec", "(syndrome != 0) & parity")):
        d = dec.find(domain="comb", target=t)
        ok = len(d) == 1 and d[0].v == "1" and q.EQ(d[0], B.from_expr(want))
        ctx.ob("H3", F, "ECCDecoder", f"{t} = {want}", ok, "" if ok else f"{[(a.v, a.gtext()) for a in d]}", d[0].line if d else 0)
    # flip case must read the (possibly zeroed) syndrome, i.e. the Case comes after the override
    ok = bool(fl) and bool(ov) and dec.assigns.index(fl[0]) > dec.assigns.index(ov[0])
    ctx.ob("H3", F, "ECCDecoder", "correction uses the syndrome signal (same signal the override drives)", ok and "syndrome ==" in fl[0].gtext() if fl else False,
           "" if ok else "flip selector changed")
