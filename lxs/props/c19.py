"""C19 -- serial peripherals and timers produce exact waveforms and always finish (claimed, narrow).

Decided (structural, necessary): Q1 no trap state / reset reachable in every peripheral FSM; Q2 UART 8N1
constants (idle 1, start 0, stop 1), terminal count 9 in TX and RX, both shift right LSB first, TX emits
data[0], counters and shifts only on the baud tick, accumulator enabled only in RUN, RX start needs a
falling edge on the synchronised pad; Q3 SPI master: bit counter on clk_fall in RUN, MOSI on fall, MISO on
rise, chip select from xfer_enable / cs_mode, done only in IDLE; I2C: effective command priority in IDLE
START > RESTART > WRITE > READ > STOP; Q4 Timer: decrement under en & value != 0, reload on zero, load when
disabled, latch on update; Watchdog: feed has priority, decrement saturates.
Not decided: all waveform timing (bit period, sampling point, divider arithmetic)."""
import ast
from ..core import AnalysisError, norm, const_fold, cnorm
from .. import boolx as B
from .. import q
from ..fx import FX
from ..rules_stream import fx_of, fail_closed, prio, fsm_sanity, short, fsm_txn_state

UART = "litex/soc/cores/uart.py"
SPIM = "litex/soc/cores/spi/spi_master.py"
SPIS = "litex/soc/cores/spi/spi_slave.py"
I2C = "litex/soc/cores/i2c.py"
TIMER = "litex/soc/cores/timer.py"
WDT = "litex/soc/cores/watchdog.py"
MISC = "litex/gen/genlib/misc.py"
ECP5 = "litex/soc/cores/clock/lattice_ecp5.py"
XIL = "litex/soc/cores/clock/xilinx_common.py"

EXPLANATION = ("FHDL IR of the UART PHYs, SPI master/slave, I2C bit machine, Timer and Watchdog extracted from the AST: FSM "
               "graphs checked for trap states; guard entailment for bit counters and shift registers (tick strobes, clock "
               "edges); literal frame constants; effective (later-statement-wins) priority of the I2C command transitions.")
TECHNIQUE = "AST-extracted FHDL IR + FSM graph + guard entailment + literal frame constants + effective priority"

FSMS = [(UART, "RS232PHYTX", ("__init__",)), (UART, "RS232PHYRX", ("__init__",)), (UART, "Stream2Wishbone", ("__init__",)),
        (SPIM, "SPIMaster", ("__init__",)), (SPIS, "SPISlave", ("__init__",)), (I2C, "I2CMasterMachine", ("__init__",)),
        (ECP5, "ECP5DynamicDelay", ("__init__",)), (XIL, "XilinxClocking", ("expose_dps",))]


def _eff_trans(fx, info, src):
    """effective guards of the transitions out of `src` (a later NextState overrides an earlier one)."""
    ts = [t for t in fx.trans if t.fsm == info.id and t.src == src]
    out = []
    for i, t in enumerate(ts):
        g = t.eff()
        for u in ts[i + 1:]:
            g = B.And(g, B.Not(B.guard_formula(u.guards)))
        out.append((t, g))
    return out


def run(ctx):
    ctx.rule("Q1", "every peripheral FSM: targets defined, reset reachable from every state", min_sites=8)
    ctx.rule("Q2", "UART 8N1: frame constants, terminal count 9 on both sides, right shift / LSB first, tick-gated counters, "
                   "accumulator enabled only in RUN, RX start on a falling edge of the synchronised pad; TX and RX share the tuning word", min_sites=25)
    ctx.rule("Q3", "SPI: count on clk_fall in RUN, MOSI shifted on fall, MISO on rise, cs from xfer_enable/cs_mode, done only in "
                   "IDLE; I2C: effective priority START > RESTART > WRITE > READ > STOP; bit counter 8 data bits + ack", min_sites=30)
    ctx.rule("Q4", "Timer: decrement under en & value != 0, reload at zero, load when disabled, latch on update; Watchdog: feed "
                   "has priority, decrement saturates at 0, expiry flagged only while enabled; reset delay needs the effective enable", min_sites=13)
    ctx.rule("Q5", "per-frame FSM registers (bit counters, lengths) are re-initialised in the idle state, in a state every frame "
                   "crosses first, or on every exit of idle that leads to the counting state", min_sites=10)
    ctx.rule("Q6", "I2C pads: SCL and SDA are open drain (o = 0, oe = ~level); SDA follows the machine only in cycles in which the "
                   "sampled SCL has reached the level the machine commands (a slave stretching the clock holds SCL low: SDA must not "
                   "move then, or START / STOP conditions vanish from the wire); otherwise SDA keeps its previous drive", min_sites=6)
    ctx.rule("Q7", "PWM: the period counter restarts at 0 and counts up only while enabled, not reset and below period - 1; the output "
                   "is the registered `enable & (counter < width)` (high for `width` cycles of every `period`); the CSRs reach enable / "
                   "width / period through a MultiReg (two stages outside the sys domain)", min_sites=5)
    ctx.rule("PRIO", "no dead driver", min_sites=10)
    _q7(ctx)

    # ================================================================ Q1
    for rel, cls, entries in FSMS:
        fx = FX(ctx, rel, cls=cls, entries=entries) if entries != ("__init__",) else fx_of(ctx, rel, cls)
        fail_closed(ctx, fx, cls)
        ctx.need(len(fx.fsms) >= 1, f"{cls}: FSM vanished")
        for fid, info in fx.fsms.items():
            problems, nconf = q.fsm_check(fx, info)
            ctx.analysed["paths"] += nconf
            ctx.ob("Q1", rel, cls, f"fsm:{info.alias or info.name}", not problems, "; ".join(d for _, d in problems[:3]), info.node)
        prio(ctx, "PRIO", fx, cls)
        fsm_txn_state(ctx, "Q5", fx, cls, persistent={"self.scl_o": "pin level register, holds the bus state between commands",
                                                     "self.sda_o": "pin level register, holds the bus state between commands",
                                                     "address": "shift register: every command shifts in all address bytes (counted by "
                                                                "addr_bytes_count, which is re-initialised) before it is used",
                                                     "data": "shift register: all data bytes are shifted in (data_bytes_count) before use"})

    # ================================================================ Q2 UART
    um = ctx.mod(UART)
    # transmitter and receiver run from the same tuning word -- the programmed one when the baud rate is dynamic (path rule)
    from .. import pathx as P
    phy = um.method("RS232PHY", "__init__")
    nph = 0
    badp = None
    for p in P.feasible_paths(phy):
        if p.end == "raise":
            continue
        pos = {"tx": -1, "rx": -1}
        last_def, last_val, dyn = -1, None, None
        for j, e in enumerate(p.ev):
            if e[0] == "test" and norm(e[1]) == "with_dynamic_baudrate":
                dyn = e[2]
            if e[0] != "stmt" or isinstance(e[1], (ast.If, ast.For, ast.While)):
                continue
            st = e[1]
            if isinstance(st, ast.Assign) and any(norm(t) == "tuning_word" for t in st.targets):
                last_def, last_val = j, norm(st.value)
            for c in P.calls_in(st):
                f = norm(c.func)
                if f in ("RS232PHYTX", "RS232PHYRX") and len(c.args) >= 2 and norm(c.args[1]) == "tuning_word":
                    k = "tx" if f.endswith("TX") else "rx"
                    pos[k] = j
                    pos[k + "_def"] = last_def
        nph += 1
        ok = pos["tx"] >= 0 and pos["rx"] >= 0 and pos.get("tx_def") == pos.get("rx_def") == last_def and last_def >= 0 and \
            (dyn is not True or last_val == "self._tuning_word.storage")
        if not ok and badp is None:
            badp = (pos, last_val, dyn)
    ctx.ob("Q2", UART, "RS232PHY", "TX and RX are built from the same (final) tuning word on every path", badp is None and nph >= 2,
           "" if badp is None else f"on the path with_dynamic_baudrate={badp[2]} the constructions see different definitions of tuning_word "
                                   f"({badp[0]}; final value {badp[1]}): one direction keeps the build-time baud rate when software reprograms it", phy)
    tw = [norm(n.value) for n in ast.walk(phy) if isinstance(n, ast.Assign) and norm(n.targets[0]) == "tuning_word"]
    ok = len(tw) == 2 and cnorm(tw[0]) == cnorm("int(baudrate / clk_freq * 2 ** 32)")
    ctx.ob("Q2", UART, "RS232PHY", "tuning word = baudrate / clk_freq * 2**32", ok, "" if ok else f"{tw}", phy)
    consts = {k: const_fold(um.const(k)) for k in ("RS232_IDLE", "RS232_START", "RS232_STOP")}
    ok = consts == {"RS232_IDLE": 1, "RS232_START": 0, "RS232_STOP": 1}
    ctx.ob("Q2", UART, "<constants>", "idle 1, start 0, stop 1", ok, "" if ok else f"{consts}")
    tx = fx_of(ctx, UART, "RS232PHYTX")
    rx = fx_of(ctx, UART, "RS232PHYRX")
    tick = "self.clk_phase_accum.tick"
    for fx, cls in ((tx, "RS232PHYTX"), (rx, "RS232PHYRX")):
        info = list(fx.fsms.values())[0]
        ex = [t for t in fx.trans if t.src == "RUN"]
        ok = len(ex) == 1 and ex[0].dst == "IDLE"
        term = None
        if ok:
            G = ex[0].eff()
            ats = [a for a in B.atoms(G) if a.startswith("count == ")]
            ok = len(ats) == 1 and B.entails(G, B.A(tick))
            if ok:
                try:
                    term = const_fold(ast.parse(ats[0].split("== ", 1)[1], mode="eval").body)
                except (ValueError, SyntaxError):
                    term = None
            ok = ok and term == 9
        ctx.ob("Q2", UART, cls, "frame ends at bit count 9 (start + 8 data + stop) on a tick", ok,
               "" if ok else f"RUN exits under {[t.gtext() for t in ex]} (terminal count {term})", ex[0].line if ex else 0)
        for reg in ("count", "data"):
            for a in fx.find(domain="sync", target=reg):
                if a.state and a.state[1] == "RUN":
                    ok = q.IMP(a, B.A(tick))
                    ctx.ob("Q2", UART, cls, f"{reg} moves only on the baud tick", ok, "" if ok else f"{reg} <= {a.v} under {a.gtext()}", a.line)
        en = fx.find(domain="comb", target="self.clk_phase_accum.enable")
        ok = len(en) == 1 and en[0].state is not None and en[0].state[1] == "RUN" and en[0].v == "1"
        ctx.ob("Q2", UART, cls, "phase accumulator enabled only in RUN", ok, "" if ok else f"{[(a.state, a.v) for a in en]}")
        cz = [a for a in fx.find(domain="sync", target="count") if a.state and a.state[1] == "IDLE"]
        ok = len(cz) == 1 and cz[0].v == "0"
        ctx.ob("Q2", UART, cls, "count cleared in IDLE", ok, "" if ok else f"{[a.v for a in cz]}")
    sh_tx = [a for a in tx.find(domain="sync", target="data") if a.state and a.state[1] == "RUN"]
    ok = len(sh_tx) == 1 and sh_tx[0].v == "Cat(data[1:], RS232_STOP)"
    ctx.ob("Q2", UART, "RS232PHYTX", "TX shifts right, refilling with stop bits", ok, "" if ok else f"{[a.v for a in sh_tx]}")
    out = [a for a in tx.find(domain="sync", target="pads.tx")]
    by = {(a.state[1], a.v): a for a in out if a.state}
    ok = ("RUN", "data[0]") in by and ("IDLE", "RS232_IDLE") in by and ("IDLE", "RS232_START") in by and len(out) == 3
    ctx.ob("Q2", UART, "RS232PHYTX", "line: idle level, start bit on valid, then data[0] (LSB first)", ok, "" if ok else f"{sorted(by)}")
    if ("IDLE", "RS232_START") in by:
        a = by[("IDLE", "RS232_START")]
        ok = q.EQ(a, B.A("self.sink.valid")) and tx.assigns.index(a) > tx.assigns.index(by[("IDLE", "RS232_IDLE")])
        ctx.ob("Q2", UART, "RS232PHYTX", "start bit overrides the idle level when a byte is offered", ok, "" if ok else f"{a.gtext()} / order")
    ld = [a for a in tx.find(domain="sync", target="data") if a.state and a.state[1] == "IDLE"]
    ok = len(ld) == 1 and ld[0].v == "self.sink.data" and q.EQ(ld[0], B.A("self.sink.valid"))
    ctx.ob("Q2", UART, "RS232PHYTX", "byte loaded when offered in IDLE", ok, "" if ok else f"{[(a.v, a.gtext()) for a in ld]}")
    rd = [a for a in tx.find(domain="comb", target="self.sink.ready")]
    txe = [t for t in tx.trans if t.src == "RUN"]
    ok = len(rd) == 1 and rd[0].state[1] == "RUN" and len(txe) == 1 and q.EQ(rd[0], txe[0].eff())
    ctx.ob("Q2", UART, "RS232PHYTX", "byte consumed exactly at the end of its frame", ok, "" if ok else f"{[(a.state, a.gtext()) for a in rd]}")
    sh_rx = [a for a in rx.find(domain="sync", target="data") if a.state and a.state[1] == "RUN"]
    ok = len(sh_rx) == 1 and sh_rx[0].v == "Cat(data[1:], rx)"
    ctx.ob("Q2", UART, "RS232PHYRX", "RX shifts right (LSB arrives first), same direction as TX", ok, "" if ok else f"{[a.v for a in sh_rx]}")
    st = [t for t in rx.trans if t.src == "IDLE"]
    ok = len(st) == 1 and st[0].dst == "RUN" and q.EQ(st[0], B.from_expr("(rx == RS232_START) & (rx_d == RS232_IDLE)"))
    ctx.ob("Q2", UART, "RS232PHYRX", "start = falling edge: rx == START & rx_d == IDLE", ok, "" if ok else f"{[t.gtext() for t in st]}")
    rxd = rx.find(domain="sync", target="rx_d")
    ok = len(rxd) == 1 and rxd[0].v == "rx" and not rxd[0].guards
    ctx.ob("Q2", UART, "RS232PHYRX", "rx_d = unconditional delayed sample of rx", ok, "" if ok else f"{[(a.v, a.gtext()) for a in rxd]}")
    mr = [i for i in rx.insts if i.cls == "MultiReg" and i.call is not None]
    ok = len(mr) == 1 and [norm(x) for x in mr[0].call.args] == ["pads.rx", "rx"]
    ctx.ob("Q2", UART, "RS232PHYRX", "pad synchronised before use", ok, "" if ok else f"{mr}")
    vd = rx.find(domain="comb", target="self.source.valid")
    rxe = [t for t in rx.trans if t.src == "RUN"]
    ok = len(vd) == 1 and vd[0].v == "rx == RS232_STOP" and len(rxe) == 1 and q.EQ(vd[0], rxe[0].eff())
    ctx.ob("Q2", UART, "RS232PHYRX", "byte delivered only with a valid stop bit at the end of the frame", ok, "" if ok else f"{[(a.v, a.gtext()) for a in vd]}")
    acc = fx_of(ctx, UART, "RS232ClkPhaseAccum")
    aa = acc.find(domain="sync")
    ok = len(aa) == 2 and all(a.t == "Cat(phase, self.tick)" for a in aa) and any(a.v == "phase + tuning_word" and q.EQ(a, B.A("self.enable")) for a in aa)
    ctx.ob("Q2", UART, "RS232ClkPhaseAccum", "tick = carry of phase + tuning_word while enabled, reload otherwise", ok, "" if ok else f"{[(a.t, a.v, a.gtext()) for a in aa]}")
    rl = [a for a in aa if a.v != "phase + tuning_word"]
    ok = len(rl) == 1 and "2 ** 31" in rl[0].v and "mode == 'tx'" in rl[0].v
    ctx.ob("Q2", UART, "RS232ClkPhaseAccum", "RX starts half a bit in (2**31), TX at tuning_word", ok, "" if ok else f"{[a.v for a in rl]}")

    # ================================================================ Q3 SPI master
    sp = fx_of(ctx, SPIM, "SPIMaster")
    cn = [a for a in sp.find(domain="sync", target="count") if a.v == "count + 1"]
    ok = len(cn) == 1 and cn[0].state[1] == "RUN" and q.EQ(cn[0], B.A("clk_fall"))
    ctx.ob("Q3", SPIM, "SPIMaster", "bit counter steps on clk_fall in RUN", ok, "" if ok else f"{[(a.state, a.gtext()) for a in cn]}")
    ex = [t for t in sp.trans if t.src == "RUN"]
    ok = len(ex) == 1 and ex[0].dst == "STOP" and q.EQ(ex[0], B.from_expr("clk_fall & (count == self.length - 1)"))
    ctx.ob("Q3", SPIM, "SPIMaster", "RUN ends after `length` clock pulses", ok, "" if ok else f"{[t.gtext() for t in ex]}")
    cz = [a for a in sp.find(domain="sync", target="count") if a.v == "0"]
    ok = any(a.state[1] == "START" and not a.guards for a in cz) and all(a.state[1] in ("START", "IDLE") for a in cz)
    ctx.ob("Q3", SPIM, "SPIMaster", "count cleared in START", ok, "" if ok else f"{[(a.state) for a in cz]}")
    ce = sp.find(domain="comb", target="clk_enable")
    ok = len(ce) == 1 and ce[0].state[1] == "RUN" and ce[0].v == "1"
    ctx.ob("Q3", SPIM, "SPIMaster", "clock pulses only in RUN", ok, "" if ok else f"{[(a.state, a.v) for a in ce]}")
    mo = sp.find(domain="sync", target="pads.mosi")
    ok = len(mo) == 1 and B.entails(q.gformula(sp, mo[0], inline=False), B.from_expr("clk_fall & xfer_enable"))
    ctx.ob("Q3", SPIM, "SPIMaster", "MOSI changes on the falling edge during a transfer", ok, "" if ok else f"{[a.gtext() for a in mo]}")
    ms = [a for a in sp.find(domain="sync", target="mosi_sel") if a.v == "mosi_sel - 1"]
    ok = len(ms) == 1 and B.entails(q.gformula(sp, ms[0], inline=False), B.A("clk_fall"))
    ctx.ob("Q3", SPIM, "SPIMaster", "MOSI bit select counts down (MSB first) on clk_fall", ok, "" if ok else f"{[a.gtext() for a in ms]}")
    ml = [a for a in sp.find(domain="sync", target="mosi_sel") if a.v != "mosi_sel - 1"]
    ok = len(ml) == 1 and "self.length - 1" in ml[0].v and "data_width - 1" in ml[0].v and q.EQ(ml[0], B.A("mosi_latch"))
    ctx.ob("Q3", SPIM, "SPIMaster", "MOSI starts at the most significant bit of the transfer", ok, "" if ok else f"{[a.v for a in ml]}")
    # the load wins over the free-running countdown in whatever divider phase the start request falls (effective guards)
    for a in ml + [x for x in sp.find(domain="sync", target="mosi_data")]:
        eff = q.gformula(sp, a, inline=False)
        ok = B.equivalent(eff, B.A("mosi_latch"))
        ctx.ob("Q3", SPIM, "SPIMaster", f"{a.t} load on mosi_latch is not overridden", ok,
               "" if ok else f"`{a.t} <= {short(a.v, 40)}` takes effect only under {B.show(eff)}: a start request that coincides with "
                             f"another strobe leaves a stale bit pointer / word and the frame is shifted out wrong", a.line)
    # ... and the load happens only when a transfer is accepted: mosi_latch is raised in IDLE, together with the move to START -- a start
    # request that arrives while a frame is on the wire must not reload the word / bit pointer being shifted out
    mlt = sp.find(domain="comb", target="mosi_latch")
    go = [t for t in sp.trans if t.src == "IDLE" and t.dst != "IDLE"]
    ctx.ob("Q3", SPIM, "SPIMaster", "mosi_latch:present", bool(mlt) and len(go) == 1, f"{len(mlt)} driver(s), {len(go)} exit(s) of IDLE", 0)
    for a in mlt:
        on = B.And(a.eff(), B.from_expr(a.value))
        ok = bool(a.state) and a.state[1] == "IDLE" and len(go) == 1 and B.equivalent(on, go[0].eff())
        ctx.ob("Q3", SPIM, "SPIMaster", "MOSI word / bit pointer loaded exactly when a transfer is accepted (IDLE -> START)", ok,
               "" if ok else f"mosi_latch <= {a.v} {'in state ' + a.state[1] if a.state else 'outside the FSM'} under {B.show(a.eff())}: a start "
                             f"request during START/RUN/STOP reloads mosi_data / mosi_sel in mid-frame and the rest of the frame restarts from "
                             f"the MSB of the new word", a.line)
    mi = sp.find(domain="sync", target="miso_data")
    ok = len(mi) == 2 and all(q.IMP(a, B.A("clk_rise")) for a in mi) and \
        {a.v for a in mi} == {"Cat(pads.mosi, miso_data)", "Cat(pads.miso, miso_data)"}
    ctx.ob("Q3", SPIM, "SPIMaster", "MISO captured on the rising edge, shifting left (MSB first)", ok, "" if ok else f"{[(a.v, a.gtext()) for a in mi]}")
    cs = [a for a in sp.find(domain="sync") if a.t.startswith("pads.cs_n[")]
    idx = cs[0].t[len("pads.cs_n["):-1] if len(cs) == 1 else "i"        # whatever the loop variable is called
    ok = len(cs) == 1 and B.equivalent(B.from_expr(cs[0].value), B.from_expr(f"~(self.cs[{idx}] & (xfer_enable | self.cs_mode))"))   # cs_mode is 1 bit: `== 1` reads as the signal
    ctx.ob("Q3", SPIM, "SPIMaster", "cs_n[i] low iff selected and (transfer in progress or manual mode)", ok, "" if ok else f"{[a.v for a in cs]}")
    dn = sp.find(domain="comb", target="self.done")
    ok = bool(dn) and all(a.state and a.state[1] == "IDLE" for a in dn)
    ctx.ob("Q3", SPIM, "SPIMaster", "done only in IDLE", ok, "" if ok else f"{[(a.state, a.v) for a in dn]}")
    xe = sp.find(domain="comb", target="xfer_enable")
    ok = {a.state[1] for a in xe if a.state} == {"START", "RUN", "STOP"}
    ctx.ob("Q3", SPIM, "SPIMaster", "xfer_enable frames START..STOP", ok, "" if ok else f"{[(a.state, a.gtext()) for a in xe]}")
    lt = sp.find(domain="comb", target="miso_latch")
    ok = len(lt) == 1 and lt[0].state[1] == "STOP" and q.EQ(lt[0], B.A("clk_rise"))
    ctx.ob("Q3", SPIM, "SPIMaster", "received word latched at the end of STOP", ok, "" if ok else f"{[(a.state, a.gtext()) for a in lt]}")
    edges = {a.t: a.v for a in sp.find(domain="comb") if a.t in ("clk_rise", "clk_fall")}
    ok = edges == {"clk_rise": "clk_divider == self.clk_divider[1:] - 1", "clk_fall": "clk_divider == self.clk_divider - 1"}
    ctx.ob("Q3", SPIM, "SPIMaster", "rise at half the divider, fall at the full divider", ok, "" if ok else f"{edges}")
    # SPI slave
    ss = fx_of(ctx, SPIS, "SPISlave")
    ed = {a.t: a.v for a in ss.find(domain="comb") if a.t in ("clk_rise", "clk_fall")}
    ok = set(ed) == {"clk_rise", "clk_fall"} and B.equivalent(B.from_expr(ed["clk_rise"]), B.from_expr("clk & ~clk_d")) and \
        B.equivalent(B.from_expr(ed["clk_fall"]), B.from_expr("~clk & clk_d"))
    ctx.ob("Q3", SPIS, "SPISlave", "edge detectors on the synchronised clock", ok, "" if ok else f"{ed}")
    mosi = ss.find(domain="sync", target="self.mosi")
    ok = len(mosi) == 1 and mosi[0].v == "Cat(mosi, self.mosi[:-1])" and q.EQ(mosi[0], B.from_expr("cs & clk_rise"))
    ctx.ob("Q3", SPIS, "SPISlave", "MOSI sampled on the rising edge while selected", ok, "" if ok else f"{[(a.v, a.gtext()) for a in mosi]}")
    mis = [a for a in ss.find(domain="sync", target="miso_data") if a.v != "self.miso"]
    ok = len(mis) == 1 and B.entails(q.gformula(ss, mis[0], inline=False), B.from_expr("cs & clk_fall"))
    ctx.ob("Q3", SPIS, "SPISlave", "MISO shifted on the falling edge while selected", ok, "" if ok else f"{[(a.v, a.gtext()) for a in mis]}")
    mrs = sorted(norm(i.call.args[0]) for i in ss.insts if i.cls == "MultiReg" and i.call is not None)
    ok = mrs == ["pads.clk", "pads.mosi", "~pads.cs_n"]
    ctx.ob("Q3", SPIS, "SPISlave", "clk, cs and mosi pads synchronised", ok, "" if ok else f"{mrs}")
    # I2C priority
    i2 = fx_of(ctx, I2C, "I2CMasterMachine")
    info = list(i2.fsms.values())[0]
    eff = {t.dst: g for t, g in _eff_trans(i2, info, "IDLE")}
    want = {"START0": "self.start & self.scl_o", "RESTART0": "self.start & ~self.scl_o", "WRITE0": "self.write & ~self.start",
            "READ0": "self.read & ~self.write & ~self.start",
            "STOP0": "self.stop & ~self.scl_o & ~self.read & ~self.write & ~self.start"}
    for dst, w in want.items():
        ok = dst in eff and B.equivalent(eff[dst], B.from_expr(w))
        ctx.ob("Q3", I2C, "I2CMasterMachine", f"IDLE -> {dst} effective guard = {w}", ok,
               "" if ok else f"effective guard {B.show(eff[dst]) if dst in eff else '(no transition)'}: command priority changed", 0)
    bits = {a.v: a.gtext() for a in i2.find(domain="sync", target="bits") if a.state and a.state[1] == "IDLE"}
    ok = bits == {"7": "(self.read)", "8": "(self.write)"}       # (8 - 1 is read folded)
    ctx.ob("Q3", I2C, "I2CMasterMachine", "bit counter: 8 data bits (+ ack slot on writes)", ok, "" if ok else f"{bits}")
    ce = i2.find(domain="comb", target="fsm.ce")
    ok = len(ce) == 1 and B.equivalent(B.from_expr(ce[0].value), B.from_expr("run | self.cg.clk2x"))
    ctx.ob("Q3", I2C, "I2CMasterMachine", "bit machine advances on the 2x clock (or when a command arrives)", ok, "" if ok else f"{[a.v for a in ce]}")
    for st, sig, val in (("START0", "self.sda_o", "0"), ("STOP0", "self.sda_o", "0"), ("STOP1", "self.scl_o", "1"), ("STOP2", "self.sda_o", "1"),
                         ("RESTART0", "self.sda_o", "1"), ("RESTART1", "self.scl_o", "1")):
        d = [a for a in i2.find(domain="sync", target=sig) if a.state and a.state[1] == st]
        ok = len(d) == 1 and d[0].v == val and not d[0].guards
        ctx.ob("Q3", I2C, "I2CMasterMachine", f"{st}: {sig} <= {val}", ok, "" if ok else f"{[(a.v) for a in d]}")

    # SDA is handed back: wherever the machine puts a bit of its own on SDA (a data bit, its ACK / NACK) every way back to IDLE passes a
    # transition that releases the line (sda_o <= 1) -- a must-pass-through check on the state graph, transitions carrying the register
    # updates their guard entails.  A line left low after an acknowledged read is held through the slave's next byte (read as 0x00).
    sda = [a for a in i2.find(domain="sync", target="self.sda_o") if a.state]
    drives = [a for a in sda if a.v not in ("0", "1")]
    ctx.ob("Q3", I2C, "I2CMasterMachine", "SDA bit drives:present", len(drives) >= 2, f"{[a.v for a in drives]}", 0)

    def carried(t, val=None):
        return [a for a in sda if a.state[1] == t.src and B.entails(t.eff(), a.eff()) and (val is None or a.v == val)]
    for a in drives:
        starts = [t for t in i2.trans if t.src == a.state[1] and B.satisfiable(B.And(t.eff(), a.eff()))]
        leak = None
        for t0 in starts:
            seen, todo = set(), [(t0.dst, [t0.src, t0.dst])]
            while todo and leak is None:
                st_, path = todo.pop()
                if st_ == "IDLE":
                    leak = path
                    break
                if st_ in seen:
                    continue
                seen.add(st_)
                for t in [t for t in i2.trans if t.src == st_]:
                    if not carried(t, "1"):
                        todo.append((t.dst, path + [t.dst]))
        ctx.ob("Q3", I2C, "I2CMasterMachine", f"SDA released before IDLE after `sda_o <= {a.v}` in {a.state[1]}", leak is None,
               "" if leak is None else f"path {' -> '.join(leak)} returns to IDLE without `sda_o <= 1`: the master keeps pulling SDA low after its own bit "
                                       f"and a following read samples its own level instead of the slave's", a.line)

    # ================================================================ Q4
    tm = fx_of(ctx, TIMER, "Timer")
    fail_closed(ctx, tm, "Timer")
    prio(ctx, "PRIO", tm, "Timer")
    vs = tm.find(domain="sync", target="value")
    by = {a.v: a for a in vs}
    ok = set(by) == {"value - 1", "self._reload.storage", "self._load.storage"} and len(vs) == 3
    ctx.ob("Q4", TIMER, "Timer", "value: decrement / reload / load drivers", ok, "" if ok else f"{sorted(by)}")
    if ok:
        for v, want in (("value - 1", "self._en.storage & ~(value == 0)"), ("self._reload.storage", "self._en.storage & (value == 0)"),
                        ("self._load.storage", "~self._en.storage")):
            G = q.gformula(tm, by[v], inline=False)
            okk = B.equivalent(G, B.from_expr(want))
            ctx.ob("Q4", TIMER, "Timer", f"value <= {v} iff {want}", okk, "" if okk else f"under {B.show(G)}", by[v].line)
    lt = tm.find(domain="sync", target="self._value.status")
    ok = len(lt) == 1 and lt[0].v == "value" and q.EQ(lt[0], B.A("self._update_value.re"))
    ctx.ob("Q4", TIMER, "Timer", "value latched on update_value write", ok, "" if ok else f"{[(a.v, a.gtext()) for a in lt]}")
    wd = fx_of(ctx, WDT, "Watchdog")
    fail_closed(ctx, wd, "Watchdog")
    prio(ctx, "PRIO", wd, "Watchdog")
    rs = wd.find(domain="sync", target="self._remaining.status")
    by = {a.v: a for a in rs}
    ok = set(by) == {"self._cycles.storage", "self._remaining.status - 1"}
    ctx.ob("Q4", WDT, "Watchdog", "remaining: reload on feed, decrement otherwise", ok, "" if ok else f"{sorted(by)}")
    if ok:
        G = q.gformula(wd, by["self._cycles.storage"], inline=False)
        okk = B.equivalent(G, B.A("self.feed"))
        ctx.ob("Q4", WDT, "Watchdog", "feed reloads unconditionally (priority)", okk, "" if okk else f"under {B.show(G)}")
        G = q.gformula(wd, by["self._remaining.status - 1"], inline=False)
        okk = B.equivalent(G, B.from_expr("~self.feed & self.enable & ~(self._remaining.status == 0)"))
        ctx.ob("Q4", WDT, "Watchdog", "decrement only when enabled, not fed and not yet 0 (saturates)", okk, "" if okk else f"under {B.show(G)}")
    exe = wd.find(domain="sync", target="self.execute")
    ok = len(exe) == 1 and exe[0].v == "self._remaining.status == 0" and B.entails(q.gformula(wd, exe[0], inline=False), B.from_expr("self.enable & ~self.feed"))
    ctx.ob("Q4", WDT, "Watchdog", "expiry flagged when the count is 0 while enabled and not fed", ok, "" if ok else f"{[(a.v, a.gtext()) for a in exe]}")
    en = wd.find(domain="comb", target="self.enable")
    ok = len(en) == 1 and B.equivalent(B.from_expr(en[0].value), B.from_expr("self._control.fields.enable & ~self.halted"))
    ctx.ob("Q4", WDT, "Watchdog", "enable = control.enable & ~halted", ok, "" if ok else f"{[a.v for a in en]}")
    tr = wd.find(domain="comb", target="self.ev.wdt.trigger")
    ok = len(tr) == 1 and tr[0].v == "self.execute" and q.EQ(tr[0], B.A("self.enable"))
    ctx.ob("Q4", WDT, "Watchdog", "event raised from execute while enabled", ok, "" if ok else f"{[(a.v, a.gtext()) for a in tr]}")
    # a paused (CPU halted) or disabled watchdog does nothing: every action -- count, event, reset delay -- needs the effective enable
    rw = wd.find(domain="comb", target="self.reset_timer.wait")
    ok = len(rw) == 1 and not rw[0].guards
    if ok:
        inl = q.Inliner(wd, rw[0])
        F = inl.inline(B.from_expr(rw[0].value))
        En = inl.inline(B.A("self.enable"))
        F0 = B.from_expr(rw[0].value)
        ok = B.entails(F, En) and B.depends_on(F0, "self.execute") and B.depends_on(F0, "self.reset_mode")
    ctx.ob("Q4", WDT, "Watchdog", "reset delay runs only while effectively enabled (enable & ~halted), expired and in reset mode", ok,
           "" if ok else f"reset_timer.wait = {rw[0].v if rw else '?'} does not entail control.enable & ~halted (or ignores execute / reset_mode): "
                         f"a paused watchdog resets the SoC", rw[0].line if rw else 0)
    cr = [a for a in wd.find(domain="comb") if a.t == "crg_rst"]
    ok = len(cr) == 1 and cr[0].v == "1" and q.EQ(cr[0], B.A("self.reset_timer.done"))
    ctx.ob("Q4", WDT, "Watchdog", "SoC reset only from the reset-delay timer", ok, "" if ok else f"{[(a.v, a.gtext()) for a in cr]}")


    # ================================================================ Q6 I2C pad wrapper
    iw = fx_of(ctx, I2C, "I2CMaster")
    for pad in ("scl", "sda"):
        o = iw.find(domain="comb", target=f"self.{pad}_t.o")
        ok = len(o) == 1 and o[0].v == "0" and not o[0].guards
        ctx.ob("Q6", I2C, "I2CMaster", f"{pad}: output value 0 (open drain)", ok, "" if ok else f"{[(a.v, a.gtext()) for a in o]}")
    oe = iw.find(domain="comb", target="self.scl_t.oe")
    ok = len(oe) == 1 and not oe[0].guards and B.equivalent(B.from_expr(oe[0].value), B.Not(B.A("self.i2c.scl_o")))
    ctx.ob("Q6", I2C, "I2CMaster", "scl driven low exactly when the machine commands low", ok, "" if ok else f"{[(a.v, a.gtext()) for a in oe]}")
    for reg, src in (("self.scl_i_n", "self.scl_t.i"), ("self.sda_oe_n", "self.sda_t.oe")):
        r = iw.find(domain="sync", target=reg)
        ok = len(r) == 1 and r[0].v == src and not r[0].guards
        ctx.ob("Q6", I2C, "I2CMaster", f"{reg} = previous {src}", ok, "" if ok else f"{[(a.v, a.gtext()) for a in r]}")
    sd = iw.find(domain="comb", target="self.sda_t.oe")
    upd = [a for a in sd if B.equivalent(B.from_expr(a.value), B.Not(B.A("self.i2c.sda_o")))]
    hold = [a for a in sd if a.v == "self.sda_oe_n"]
    ok = len(sd) == 2 and len(upd) == 1 and len(hold) == 1
    if ok:
        Gu = q.Inliner(iw, upd[0]).gformula(upd[0])
        ok = B.equivalent(Gu, B.A("self.scl_i_n == self.i2c.scl_o")) and B.equivalent(q.Inliner(iw, hold[0]).inline(hold[0].eff()), B.Not(Gu))
    ctx.ob("Q6", I2C, "I2CMaster", "sda follows the machine only when sampled SCL == commanded SCL, else holds", ok,
           "" if ok else f"{[(a.v, B.show(a.eff())) for a in sd]}: SDA can move while a slave still holds SCL at the other level (clock "
                         f"stretching) -- the START/STOP condition is not seen on the bus", upd[0].line if upd else 0)


def _q7(ctx):
    PWM = "litex/soc/cores/pwm.py"
    fx = fx_of(ctx, PWM, "PWM")
    fail_closed(ctx, fx, "PWM")
    cs = fx.find(domain="sync", target="self.counter")
    inc = [a for a in cs if a.v in ("self.counter + 1", "1 + self.counter")]
    clr = [a for a in cs if a.v == "0"]
    ok = len(inc) == 1 and B.equivalent(inc[0].eff(), B.from_expr("self.enable & ~self.reset & (self.counter < self.period - 1)"))
    ctx.ob("Q7", PWM, "PWM", "counter + 1 exactly under enable & ~reset & counter < period - 1", ok,
           "" if ok else f"{[(a.v, B.show(a.eff())) for a in cs]}", inc[0].line if inc else 0)
    ok = len(clr) >= 1 and len(inc) == 1 and B.equivalent(B.Or(*[a.eff() for a in clr]), B.Not(inc[0].eff())) and len(cs) == len(inc) + len(clr)
    ctx.ob("Q7", PWM, "PWM", "counter returns to 0 in every other cycle (end of period, disabled, reset)", ok,
           "" if ok else f"{[(a.v, B.show(a.eff())) for a in cs]}", clr[0].line if clr else 0)
    out = fx.find(domain="sync", target="pwm")
    ok = len(out) == 1 and not out[0].guards and B.equivalent(B.from_expr(out[0].value), B.from_expr("self.enable & (counter < self.width)"))
    ctx.ob("Q7", PWM, "PWM", "pwm <= enable & (counter < width), registered in the PWM's own domain", ok and out[0].domain == (inc[0].domain if inc else out[0].domain),
           "" if ok else f"{[(a.domain, a.v, a.gtext()) for a in out]}", out[0].line if out else 0)
    mr = [i for i in fx.insts if i.cls == "MultiReg" and i.call is not None]
    want = {("self._enable.storage", "self.enable"), ("self._width.storage", "self.width"), ("self._period.storage", "self.period")}
    got = {(norm(i.call.args[0]), norm(i.call.args[1])) for i in mr if len(i.call.args) >= 2}
    ctx.ob("Q7", PWM, "PWM", "enable / width / period come from their own CSR through a MultiReg", got == want, "" if got == want else f"{sorted(got)}",
           mr[0].node if mr else 0)
    from .. import pyconst as _pc
    bad = None
    for i in mr:
        nkw = [k.value for k in i.call.keywords if k.arg == "n"]
        nexp = nkw[0] if nkw else None
        if isinstance(nexp, ast.Name):
            nexp = fx.localdefs.get(nexp.id, nexp)
        for cd, wantn in (("sys", (0, 2)), ("pwm", (2,)), ("clk200", (2,))):
            try:
                v = _pc.Interp({"clock_domain": cd}).ev(nexp) if nexp is not None else 2
            except Exception as ex:     # noqa
                v = f"? ({ex})"
            if v not in wantn and bad is None:
                bad = f"clock_domain={cd!r}: MultiReg(.., n={v}) for {norm(i.call.args[1])}: fewer than two synchroniser stages into a foreign domain"
    ctx.ob("Q7", PWM, "PWM", "two synchroniser stages whenever the PWM is not in the sys domain", bad is None, bad or "", mr[0].node if mr else 0)
